//go:build verif

package main

// Engine `bcast` (C06): k REAL echoBroadcast instances (internal/dkg/broadcast.go, built with newEchoBroadcast) wired by a
// scripted net.DKGClient. Bundles are real kyber deal / response / justification bundles signed with the nodes' real
// keys; the broadcasters check them with the real dkg.VerifyPacketSignature. The harness labels every packet with the
// answers of its own calls of the decoder and of the signature scheme (hash, decodes, index known, signature valid).
//
// Scheduling is explicit. A relay worker's call of client.BroadcastDKG is parked until an op releases it (`relay i d ok`
// = the target's BroadcastDKG is called and its answer returned, `relay i d cut` = the call returns an error). The direct
// sends of a node's own bundle are not parked: each is delivered or refused according to the plan of the `push` op.
//
//   net <scheme> <k> <seed>
//   mk <name> <deal|resp|just> <signer> <good | badsig:<base> | othersig:<base>:<who> | badidx | undec>
//   push <i> <name> <d:ok|cut,…>      PushDeals / PushResponses / PushJustifications on node i
//   inject <j> <name>                 BroadcastDKG on node j, called by somebody who is not a relay worker
//   relay <i> <d> <ok|cut>
//   heal                              release every parked send with ok, again and again, until nothing is parked
//   ctxend <i>                        the context the broadcaster (and its workers) were created with is cancelled
//   stop <i>
//   take <i> <deal|resp|just>         what the application would read next
//   drain <i>                         read everything
// Output: `M\t<model op>\t<result>`; every result ends with the digest of all nodes.

import (
	"bufio"
	"context"
	"encoding/hex"
	"errors"
	"fmt"
	"sort"
	"strconv"
	"strings"
	"sync"
	"time"

	"google.golang.org/protobuf/proto"

	"github.com/drand/drand/v2/common/key"
	"github.com/drand/drand/v2/crypto"
	"github.com/drand/drand/v2/internal/dkg"
	"github.com/drand/drand/v2/internal/net"
	"github.com/drand/drand/v2/internal/util"
	pdkg "github.com/drand/drand/v2/protobuf/dkg"
	"github.com/drand/kyber"
	kdkg "github.com/drand/kyber/share/dkg"
	"github.com/drand/kyber/sign/schnorr"
	"github.com/drand/kyber/util/random"
)

func init() { engines["bcast"] = bcastEngine }

var bcDeadline = 3 * time.Second
var bcTimeouts = 0

const bcBeaconID = "default"

type bcPkt struct {
	name   string
	kind   string // d | r | j
	proto  *pdkg.DKGPacket
	hid    int
	hashHx string
	dec    bool
	idx    bool
	sig    bool
}

func (p *bcPkt) token() string {
	b := map[bool]string{false: "0", true: "1"}
	return fmt.Sprintf("%d:%s:%s:%s:%s", p.hid, p.kind, b[p.dec], b[p.idx], b[p.sig])
}

type bcCall struct {
	from, to int
	pkt      *pdkg.DKGPacket
	hashHx   string
	release  chan bool
	done     chan string
}

type bcDirect struct {
	from, to int
	hashHx   string
	res      string
}

type bcNode struct {
	i       int
	pair    *key.Pair
	part    *pdkg.Participant
	idx     uint32 // index among the participants sorted by public key
	b       dkg.Broadcast
	cancel  context.CancelFunc
	stopped bool
}

type bcNet struct {
	sch    *crypto.Scheme
	suite  kdkg.Suite
	auth   *schnorrAuth
	nodes  []*bcNode
	byAddr map[string]*bcNode
	sorted []*pdkg.Participant
	knodes []kdkg.Node
	nonce  []byte

	mu       sync.Mutex
	parked   map[[2]int]*bcCall
	own      map[int]map[string]bool
	plan     map[[2]int]bool // direct sends: false = cut
	directs  []bcDirect
	hids     map[string]int
	pkts     map[string]*bcPkt
	r        *rng
	deadline time.Duration
	dead     map[[2]int]bool
}

// schnorrAuth is the scheme the DKG config uses for bundle signatures.
type schnorrAuth struct {
	sign   func(priv kyber.Scalar, msg []byte) ([]byte, error)
	verify func(pub kyber.Point, msg, sig []byte) error
}

type bcClient struct {
	n    *bcNet
	from int
}

func (c *bcClient) Packet(context.Context, net.Peer, *pdkg.GossipPacket, ...net.CallOption) (*pdkg.EmptyDKGResponse, error) {
	return &pdkg.EmptyDKGResponse{}, nil
}

// serve calls the target's BroadcastDKG the way a gRPC server would: with a context that ends when the handler returns.
func (n *bcNet) serve(t *bcNode, in *pdkg.DKGPacket) string {
	ctx, cancel := context.WithCancel(context.Background())
	defer cancel()
	err := t.b.BroadcastDKG(ctx, proto.Clone(in).(*pdkg.DKGPacket))
	if err != nil {
		return "err"
	}
	return "nil"
}

func (c *bcClient) BroadcastDKG(_ context.Context, p net.Peer, in *pdkg.DKGPacket, _ ...net.CallOption) (*pdkg.EmptyDKGResponse, error) {
	n := c.n
	t := n.byAddr[p.Address()]
	if t == nil {
		return nil, errors.New("no such peer")
	}
	hx := n.hashOf(in.GetDkg())
	n.mu.Lock()
	if n.own[c.from][hx] {
		ok, planned := n.plan[[2]int{c.from, t.i}]
		if !planned {
			ok = true
		}
		n.mu.Unlock()
		res := "cut"
		var err error
		if ok {
			res = n.serve(t, in)
			if res == "err" {
				err = errors.New("remote error")
			}
		} else {
			err = errors.New("connection refused")
		}
		n.mu.Lock()
		n.directs = append(n.directs, bcDirect{c.from, t.i, hx, res})
		n.mu.Unlock()
		return &pdkg.EmptyDKGResponse{}, err
	}
	call := &bcCall{from: c.from, to: t.i, pkt: in, hashHx: hx, release: make(chan bool, 1), done: make(chan string, 1)}
	n.parked[[2]int{c.from, t.i}] = call
	n.mu.Unlock()
	ok := <-call.release
	if !ok {
		call.done <- "cut"
		return nil, errors.New("connection refused")
	}
	res := n.serve(t, in)
	call.done <- res
	if res == "err" {
		return nil, errors.New("remote error")
	}
	return &pdkg.EmptyDKGResponse{}, nil
}

func (n *bcNet) hashOf(p *pdkg.Packet) string {
	d, err := dkg.VerifProtoToDKGPacket(p, n.sch)
	if err != nil {
		b, _ := proto.Marshal(p)
		return "undec:" + hex.EncodeToString(b)
	}
	return hex.EncodeToString(d.Hash())
}

func (n *bcNet) hid(hx string) int {
	n.mu.Lock()
	defer n.mu.Unlock()
	if v, ok := n.hids[hx]; ok {
		return v
	}
	v := len(n.hids) + 1
	n.hids[hx] = v
	return v
}

func (n *bcNet) waitFor(cond func() bool) bool {
	end := time.Now().Add(n.deadline)
	for {
		if cond() {
			return true
		}
		if time.Now().After(end) {
			return false
		}
		time.Sleep(100 * time.Microsecond)
	}
}

func (n *bcNet) isParked(a, b int) bool {
	n.mu.Lock()
	defer n.mu.Unlock()
	return n.parked[[2]int{a, b}] != nil
}

func (n *bcNet) qlens(a int) map[int]int {
	addrs, lens, _ := dkg.VerifEchoQueues(n.nodes[a].b)
	out := map[int]int{}
	for k, ad := range addrs {
		out[n.byAddr[ad].i] = lens[k]
	}
	return out
}

// snapshot of what is needed to know which workers must end up parked after a delivery
type bcSnap struct {
	seen   []int
	idle   map[[2]int]bool
	queued map[[2]int]int
}

func (n *bcNet) snap() *bcSnap {
	s := &bcSnap{idle: map[[2]int]bool{}, queued: map[[2]int]int{}}
	for _, nd := range n.nodes {
		s.seen = append(s.seen, len(dkg.VerifEchoSeen(nd.b)))
		for d, l := range n.qlens(nd.i) {
			s.queued[[2]int{nd.i, d}] = l
			s.idle[[2]int{nd.i, d}] = l == 0 && !n.isParked(nd.i, d)
		}
	}
	return s
}

// settle waits until every worker that must have picked up a packet is parked in its send: the workers of a node whose
// seen-set grew (it accepted a bundle and offered it to all its workers) that were idle before, and `again` (the worker
// whose send was just released and that had more in its queue).
func (n *bcNet) settle(before *bcSnap, again [][2]int, pusher int) {
	var want [][2]int
	for _, nd := range n.nodes {
		// (a node that pushed its own bundle records the hash too, but sends it directly, not through its workers)
		if nd.i != pusher && len(dkg.VerifEchoSeen(nd.b)) > before.seen[nd.i] {
			for _, o := range n.nodes {
				if o.i != nd.i && before.idle[[2]int{nd.i, o.i}] {
					want = append(want, [2]int{nd.i, o.i})
				}
			}
		}
	}
	want = append(want, again...)
	for _, w := range want {
		w := w
		if n.dead[w] {
			continue
		}
		// a worker that does not show up within the deadline is not running any more: do not wait for it again
		if !n.waitFor(func() bool { return n.isParked(w[0], w[1]) }) {
			n.dead[w] = true
			// on the unchanged code this never happens; a build whose workers do not pick up what they are offered gets a
			// generous wait three times (machine load), then short ones
			bcTimeouts++
			if bcTimeouts >= 3 {
				bcDeadline = 300 * time.Millisecond
			}
			n.deadline = bcDeadline
		}
	}
}

func (n *bcNet) digest() string {
	var sb strings.Builder
	for _, nd := range n.nodes {
		var seen []string
		for _, h := range dkg.VerifEchoSeen(nd.b) {
			seen = append(seen, strconv.Itoa(n.hid(hex.EncodeToString(h))))
		}
		ql := n.qlens(nd.i)
		var qs []string
		var ds []int
		for d := range ql {
			ds = append(ds, d)
		}
		sort.Ints(ds)
		for _, d := range ds {
			p := 0
			if n.isParked(nd.i, d) {
				p = 1
			}
			qs = append(qs, fmt.Sprintf("%d:%d+%d", d, ql[d], p))
		}
		de, re, ju, _ := dkg.VerifEchoBacklog(nd.b)
		st := 0
		if nd.stopped {
			st = 1
		}
		fmt.Fprintf(&sb, " %d[S=%s Q=%s A=%d/%d/%d st=%d]", nd.i, orDash(strings.Join(seen, ",")), orDash(strings.Join(qs, ",")), de, re, ju, st)
	}
	return sb.String()
}

func orDash(s string) string {
	if s == "" {
		return "-"
	}
	return s
}

func (n *bcNet) mkNet(f []string) string {
	sch := mustScheme(f[1])
	k := atoi(f[2])
	seed, _ := strconv.ParseUint(f[3], 10, 64)
	n.sch = sch
	n.suite = sch.KeyGroup.(kdkg.Suite)
	au := schnorr.NewScheme(n.suite)
	n.auth = &schnorrAuth{sign: au.Sign, verify: au.Verify}
	n.r = &rng{s: seed}
	n.nonce = []byte("verif-bcast-nonce-0123456789abcdef")[:32]
	var parts []*pdkg.Participant
	for i := 0; i < k; i++ {
		addr := fmt.Sprintf("127.0.0.1:%d", 9100+i)
		pair, err := key.NewKeyPair(addr, sch)
		if err != nil {
			panic(err)
		}
		part, err := util.PublicKeyAsParticipant(pair.Public)
		if err != nil {
			panic(err)
		}
		nd := &bcNode{i: i, pair: pair, part: part}
		n.nodes = append(n.nodes, nd)
		n.byAddr[addr] = nd
		parts = append(parts, part)
	}
	n.sorted = util.SortedByPublicKey(parts)
	for ix, p := range n.sorted {
		kn, err := util.ToNode(ix, p, sch)
		if err != nil {
			panic(err)
		}
		n.knodes = append(n.knodes, kn)
		n.byAddr[p.Address].idx = uint32(ix)
	}
	qcap, acap := 0, 0
	for _, nd := range n.nodes {
		cfg := &kdkg.Config{Suite: n.suite, Longterm: nd.pair.Key, NewNodes: n.knodes, Threshold: k/2 + 1, FastSync: true, Nonce: n.nonce, Auth: au}
		ctx, cancel := context.WithCancel(context.Background())
		nd.cancel = cancel
		b, err := dkg.VerifNewEchoBroadcast(ctx, &bcClient{n: n, from: nd.i}, quietLogger(), bcBeaconID, nd.part.Address, n.sorted, sch, cfg)
		if err != nil {
			panic(err)
		}
		nd.b = b
		n.own[nd.i] = map[string]bool{}
		_, _, qcap = dkg.VerifEchoQueues(b)
		_, _, _, acap = dkg.VerifEchoBacklog(b)
	}
	return fmt.Sprintf("ok qcap=%d appcap=%d", qcap, acap)
}

// bundle builds and signs a real kyber bundle of node `signer`.
func (n *bcNet) bundle(kind string, signer int, idx uint32) kdkg.Packet {
	sg := n.nodes[signer]
	var p kdkg.Packet
	switch kind {
	case "deal":
		pub := make([]kyber.Point, len(n.nodes)/2+1)
		for i := range pub {
			pub[i] = n.suite.Point().Pick(random.New())
		}
		p = &kdkg.DealBundle{DealerIndex: idx, Public: pub, SessionID: n.nonce,
			Deals: []kdkg.Deal{{ShareIndex: 0, EncryptedShare: n.r.bytes(48)}}}
	case "resp":
		p = &kdkg.ResponseBundle{ShareIndex: idx, SessionID: n.nonce,
			Responses: []kdkg.Response{{DealerIndex: uint32(n.r.below(1 << 20)), Status: true}}}
	case "just":
		p = &kdkg.JustificationBundle{DealerIndex: idx, SessionID: n.nonce,
			Justifications: []kdkg.Justification{{ShareIndex: 0, Share: n.suite.Scalar().Pick(random.New())}}}
	default:
		panic("bad kind " + kind)
	}
	sig, err := n.auth.sign(sg.pair.Key, p.Hash())
	if err != nil {
		panic(err)
	}
	switch b := p.(type) {
	case *kdkg.DealBundle:
		b.Signature = sig
	case *kdkg.ResponseBundle:
		b.Signature = sig
	case *kdkg.JustificationBundle:
		b.Signature = sig
	}
	return p
}

func setSig(p *pdkg.Packet, f func([]byte) []byte) {
	switch b := p.Bundle.(type) {
	case *pdkg.Packet_Deal:
		b.Deal.Signature = f(b.Deal.Signature)
	case *pdkg.Packet_Response:
		b.Response.Signature = f(b.Response.Signature)
	case *pdkg.Packet_Justification:
		b.Justification.Signature = f(b.Justification.Signature)
	}
}

// label computes the model's labels with the harness's own calls (not through any broadcaster).
func (n *bcNet) label(name string, pr *pdkg.DKGPacket) *bcPkt {
	p := &bcPkt{name: name, proto: pr}
	switch pr.GetDkg().GetBundle().(type) {
	case *pdkg.Packet_Deal:
		p.kind = "d"
	case *pdkg.Packet_Response:
		p.kind = "r"
	case *pdkg.Packet_Justification:
		p.kind = "j"
	}
	d, err := dkg.VerifProtoToDKGPacket(pr.GetDkg(), n.sch)
	p.hashHx = n.hashOf(pr.GetDkg())
	p.hid = n.hid(p.hashHx)
	if err != nil {
		return p
	}
	p.dec = true
	if int(d.Index()) < len(n.knodes) {
		p.idx = true
		p.sig = n.auth.verify(n.knodes[d.Index()].Public, d.Hash(), d.Sig()) == nil
	}
	return p
}

func (n *bcNet) mk(f []string) string {
	name, kind, signer, variant := f[1], f[2], atoi(f[3]), f[4]
	var pr *pdkg.DKGPacket
	v := strings.Split(variant, ":")
	switch v[0] {
	case "good", "badidx", "undec":
		idx := n.nodes[signer].idx
		if v[0] == "badidx" {
			idx = uint32(len(n.nodes) + 7)
		}
		pp, err := dkg.VerifDKGPacketToProto(n.bundle(kind, signer, idx), bcBeaconID)
		if err != nil {
			panic(err)
		}
		if v[0] == "undec" {
			switch b := pp.Bundle.(type) {
			case *pdkg.Packet_Deal:
				b.Deal.Commits[0] = []byte{1, 2, 3}
			case *pdkg.Packet_Justification:
				b.Justification.Justifications[0].Share = make([]byte, 200)
			default:
				panic("undec needs a deal or a justification")
			}
		}
		pr = &pdkg.DKGPacket{Dkg: pp}
	case "badsig": // same bundle, one signature bit flipped
		pr = proto.Clone(n.pkts[v[1]].proto).(*pdkg.DKGPacket)
		setSig(pr.Dkg, func(s []byte) []byte { s = append([]byte{}, s...); s[len(s)-1] ^= 1; return s })
	case "othersig": // same bundle, signed by somebody else
		pr = proto.Clone(n.pkts[v[1]].proto).(*pdkg.DKGPacket)
		d, err := dkg.VerifProtoToDKGPacket(pr.GetDkg(), n.sch)
		if err != nil {
			panic(err)
		}
		sig, err := n.auth.sign(n.nodes[atoi(v[2])].pair.Key, d.Hash())
		if err != nil {
			panic(err)
		}
		setSig(pr.Dkg, func([]byte) []byte { return sig })
	default:
		panic("bad variant " + variant)
	}
	p := n.label(name, pr)
	n.pkts[name] = p
	return p.token()
}

func (n *bcNet) appLen(nd *bcNode, kind string) (int, int) {
	de, re, ju, c := dkg.VerifEchoBacklog(nd.b)
	switch kind {
	case "d":
		return de, c
	case "r":
		return re, c
	}
	return ju, c
}

func (n *bcNet) push(f []string) (string, string) {
	i := atoi(f[1])
	nd := n.nodes[i]
	p := n.pkts[f[2]]
	if !p.dec {
		panic("push of an undecodable packet")
	}
	if l, c := n.appLen(nd, p.kind); l >= c {
		return fmt.Sprintf("push %d %s -", i, p.token()), "blocked"
	}
	n.mu.Lock()
	n.own[i][p.hashHx] = true
	for _, t := range strings.Split(f[3], ",") {
		if a, b, ok := strings.Cut(t, ":"); ok {
			n.plan[[2]int{i, atoi(a)}] = b == "ok"
		}
	}
	n.directs = nil
	n.mu.Unlock()
	before := n.snap()
	d, err := dkg.VerifProtoToDKGPacket(p.proto.GetDkg(), n.sch)
	if err != nil {
		panic(err)
	}
	switch b := d.(type) {
	case *kdkg.DealBundle:
		nd.b.PushDeals(b)
	case *kdkg.ResponseBundle:
		nd.b.PushResponses(b)
	case *kdkg.JustificationBundle:
		nd.b.PushJustifications(b)
	}
	expect := len(n.nodes) - 1
	if nd.stopped {
		expect = 0
	}
	n.waitFor(func() bool { n.mu.Lock(); defer n.mu.Unlock(); return len(n.directs) >= expect })
	n.settle(before, nil, i)
	n.mu.Lock()
	var ds, rs []string
	for _, d := range n.directs {
		v := "ok"
		if d.res == "cut" {
			v = "cut"
		}
		ds = append(ds, fmt.Sprintf("%d:%s", d.to, v))
		rs = append(rs, fmt.Sprintf("%d:%s", d.to, d.res))
	}
	n.mu.Unlock()
	return fmt.Sprintf("push %d %s %s", i, p.token(), orDash(strings.Join(ds, ","))), "ok directs=" + orDash(strings.Join(rs, ","))
}

// release lets the parked send a→b return; "" when nothing is parked.
func (n *bcNet) release(a, b int, ok bool) string {
	n.mu.Lock()
	call := n.parked[[2]int{a, b}]
	n.mu.Unlock()
	if call == nil {
		return ""
	}
	before := n.snap()
	n.mu.Lock()
	delete(n.parked, [2]int{a, b})
	n.mu.Unlock()
	call.release <- ok
	res := <-call.done
	var again [][2]int
	if before.queued[[2]int{a, b}] > 0 {
		again = append(again, [2]int{a, b})
	}
	n.settle(before, again, -1)
	h := n.hid(call.hashHx)
	if res == "cut" {
		return fmt.Sprintf("cut %d", h)
	}
	return fmt.Sprintf("sent %d %s", h, res)
}

func (n *bcNet) takeOne(nd *bcNode, kind string) string {
	var p kdkg.Packet
	switch kind {
	case "d":
		select {
		case b := <-nd.b.IncomingDeal():
			p = &b
		default:
		}
	case "r":
		select {
		case b := <-nd.b.IncomingResponse():
			p = &b
		default:
		}
	case "j":
		select {
		case b := <-nd.b.IncomingJustification():
			p = &b
		default:
		}
	}
	if p == nil {
		return "none"
	}
	v := "x"
	if int(p.Index()) < len(n.knodes) && n.auth.verify(n.knodes[p.Index()].Public, p.Hash(), p.Sig()) == nil {
		v = "v"
	}
	return fmt.Sprintf("%d:%s", n.hid(hex.EncodeToString(p.Hash())), v)
}

func kindTok(s string) string {
	switch s {
	case "deal", "d":
		return "d"
	case "resp", "r":
		return "r"
	case "just", "j":
		return "j"
	}
	panic("bad kind " + s)
}

func bcastEngine(_ []string, in *bufio.Scanner, out *bufio.Writer) {
	var n *bcNet
	for in.Scan() {
		f := fields(in.Text())
		if len(f) == 0 {
			continue
		}
		mop := in.Text()
		res := safely(func() string {
			switch f[0] {
			case "net":
				if n != nil {
					for _, nd := range n.nodes {
						nd.cancel()
					}
				}
				n = &bcNet{byAddr: map[string]*bcNode{}, parked: map[[2]int]*bcCall{}, own: map[int]map[string]bool{}, plan: map[[2]int]bool{},
					hids: map[string]int{}, pkts: map[string]*bcPkt{}, deadline: bcDeadline, dead: map[[2]int]bool{}}
				r := n.mkNet(f)
				mop = "net " + f[2]
				return r
			case "mk":
				tok := n.mk(f)
				mop = "pkt " + tok
				return "ok " + tok
			case "push":
				m, r := n.push(f)
				mop = m
				return r + " |" + n.digest()
			case "inject":
				j := atoi(f[1])
				p := n.pkts[f[2]]
				mop = fmt.Sprintf("inject %d %s", j, p.token())
				before := n.snap()
				r := n.serve(n.nodes[j], p.proto)
				n.settle(before, nil, -1)
				return r + " |" + n.digest()
			case "relay":
				r := n.release(atoi(f[1]), atoi(f[2]), f[3] == "ok")
				if r == "" {
					r = "idle"
				}
				return r + " |" + n.digest()
			case "heal":
				var seq, rs []string
				for round := 0; round < 10000; round++ {
					any := false
					for a := range n.nodes {
						for b := range n.nodes {
							if a == b {
								continue
							}
							if r := n.release(a, b, true); r != "" {
								any = true
								seq = append(seq, fmt.Sprintf("%d:%d", a, b))
								rs = append(rs, fmt.Sprintf("%d>%d:%s", a, b, strings.ReplaceAll(strings.TrimPrefix(r, "sent "), " ", ":")))
							}
						}
					}
					if !any {
						break
					}
				}
				mop = "relays " + orDash(strings.Join(seq, ","))
				return fmt.Sprintf("n=%d %s |%s", len(seq), orDash(strings.Join(rs, ",")), n.digest())
			case "ctxend":
				n.nodes[atoi(f[1])].cancel()
				// nothing to wait for in the code as it is; give a worker that follows its context the time to leave
				time.Sleep(2 * time.Millisecond)
				return "ok |" + n.digest()
			case "stop":
				nd := n.nodes[atoi(f[1])]
				nd.b.Stop()
				nd.stopped = true
				return "ok |" + n.digest()
			case "take":
				k := kindTok(f[2])
				mop = fmt.Sprintf("take %s %s", f[1], k)
				return n.takeOne(n.nodes[atoi(f[1])], k) + " |" + n.digest()
			case "drain":
				nd := n.nodes[atoi(f[1])]
				var parts []string
				for _, k := range []string{"d", "r", "j"} {
					var got []string
					for {
						t := n.takeOne(nd, k)
						if t == "none" {
							break
						}
						got = append(got, t)
					}
					parts = append(parts, k+"="+orDash(strings.Join(got, ",")))
				}
				return strings.Join(parts, " ") + " |" + n.digest()
			}
			return "bad-op"
		})
		fmt.Fprintf(out, "M\t%s\t%s\n", mop, res)
		out.Flush()
	}
}
