//go:build verif && !cbremover

package main

// Trees whose CallbackStore has no AddStreamCallback, or one without a result (reports/cb_fix_1.diff).

import "github.com/drand/drand/v2/internal/chain/beacon"

type streamAdder interface {
	AddStreamCallback(id string, fn beacon.CallbackFunc)
}

func addStreamCallback(st beacon.CallbackStore, id string, fn beacon.CallbackFunc) func() {
	if sa, ok := st.(streamAdder); ok {
		sa.AddStreamCallback(id, fn)
		return nil
	}
	st.AddCallback(id, fn)
	return nil
}

func (g *gatingStore) AddStreamCallback(id string, fn beacon.CallbackFunc) {
	g.register(id, fn, func(id string, fn beacon.CallbackFunc) { _ = addStreamCallback(g.CallbackStore, id, fn) })
}
