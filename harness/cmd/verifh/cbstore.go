//go:build verif

package main

// Engine "cbstore" (C12 part a): the real callbackStore(appendStore(schemeStore(memdb))) with scripted consumers.
// A consumer in mode "gate" does not return from a callback until the script releases it (a stream whose client
// stopped reading); every Put / AddCallback / RemoveCallback runs under a watchdog (2 s unless VERIF_WATCHDOG_MS).

import (
	"bufio"
	"context"
	"fmt"
	"strconv"
	"strings"
	"sync"
	"sync/atomic"
	"time"

	"github.com/drand/drand/v2/common"
	"github.com/drand/drand/v2/crypto"
	"github.com/drand/drand/v2/internal/chain"
	"github.com/drand/drand/v2/internal/chain/beacon"
	"github.com/drand/drand/v2/internal/chain/memdb"
)

func init() { engines["cbstore"] = cbstoreEngine }

type cbConsumer struct {
	id       string
	gated    bool
	mu       sync.Mutex
	got      []string
	credits  chan struct{}
	waiting  int32
	inflight int32
	entered  int32 // callbacks entered
	passed   int32 // callbacks that returned
	// wait hints kept by the script (they never change what is observed, only how long an op waits):
	given    int32 // credits released so far
	expected int32 // jobs the store should have queued for this consumer (Puts while registered, a close signal)
	active   bool  // currently the registered consumer of its id
	jobs     atomic.Pointer[beacon.VerifJobChan]
}

func (c *cbConsumer) callback(b *common.Beacon, closed bool) {
	atomic.AddInt32(&c.inflight, 1)
	defer atomic.AddInt32(&c.inflight, -1)
	defer atomic.AddInt32(&c.passed, 1)
	c.mu.Lock()
	if closed {
		c.got = append(c.got, "closed")
	} else {
		c.got = append(c.got, strconv.FormatUint(b.Round, 10))
	}
	c.mu.Unlock()
	atomic.AddInt32(&c.entered, 1)
	if c.gated {
		atomic.StoreInt32(&c.waiting, 1)
		<-c.credits
		atomic.StoreInt32(&c.waiting, 0)
	}
}

// addStreamCallback (streamadd_v1.go / streamadd_v2.go, chosen by the build tag cbremover that vlib/core.py sets when the
// tree's AddStreamCallback returns a remover) registers a consumer the way a stream handler does: AddStreamCallback where the
// tree's callbackStore has it (Put never waits for such a consumer, it ends it when its queue is full), AddCallback otherwise.

type cbSUT struct {
	top   beacon.CallbackStore
	ctx   context.Context
	head  uint64
	cons  map[string]*cbConsumer
	putCh chan error // a Put that outlived its watchdog
	wCh   chan bool  // an AddCallback / RemoveCallback that outlived its watchdog
}

func newCbSUT() *cbSUT {
	ctx := chain.SetPreviousRequiredOnContext(context.Background())
	base := memdb.NewStore(4000)
	if err := base.Put(ctx, chain.GenesisBeacon(streamSig(0))); err != nil {
		panic(err)
	}
	ss, err := beacon.NewSchemeStore(ctx, base, mustScheme(crypto.DefaultSchemeID))
	if err != nil {
		panic(err)
	}
	as, err := beacon.VerifNewAppendStore(ctx, ss)
	if err != nil {
		panic(err)
	}
	return &cbSUT{top: beacon.NewCallbackStore(quietLogger(), as), ctx: ctx, cons: map[string]*cbConsumer{}}
}

// settled: every consumer is either parked at its gate or has nothing queued and nothing running.
func (s *cbSUT) settled() bool {
	chk := func() bool {
		for _, c := range s.cons {
			ent, pas := atomic.LoadInt32(&c.entered), atomic.LoadInt32(&c.passed)
			want := c.expected
			if c.gated && c.given+1 < want {
				want = c.given + 1 // it sits in callback number given+1
			}
			wantPassed := want
			if c.gated && c.given < wantPassed {
				wantPassed = c.given
			}
			if ent != want || pas != wantPassed {
				return false
			}
		}
		return true
	}
	deadline := time.Now().Add(watchdog())
	for time.Now().Before(deadline) {
		if chk() {
			time.Sleep(time.Millisecond)
			if chk() {
				return true
			}
		}
		time.Sleep(100 * time.Microsecond)
	}
	return false
}

// noteEnded: a consumer whose job channel is no longer the one registered under its id has been ended by the store (its
// queue was full) — wait hint only: no further job is expected for it beyond the close notice, which takes the place of
// the beacon it did not get.
func (s *cbSUT) noteEnded() {
	for k, c := range s.cons {
		if !c.active || strings.HasPrefix(k, "pending:") || strings.HasPrefix(k, "old") {
			continue
		}
		cur := beacon.VerifJobChanOf(s.top, c.id)
		if mine := c.jobs.Load(); mine != nil && (cur == nil || !cur.Same(mine)) {
			c.active = false
		}
	}
}

func (s *cbSUT) free() {
	// let every blocked goroutine go
	for _, c := range s.cons {
		if c.gated {
			close(c.credits)
		}
	}
}

// cbstore
//
//	init | add <id> <fast|gate> (a callback of the node itself) | adds <id> <fast|gate> (a stream handler's) | remove <id> | put | release <id> <n> | wait | got <id> | last | qlen <id>
func cbstoreEngine(_ []string, in *bufio.Scanner, out *bufio.Writer) {
	var s *cbSUT
	for in.Scan() {
		f := fields(in.Text())
		if len(f) == 0 {
			continue
		}
		res := safely(func() string {
			if f[0] == "init" {
				if s != nil {
					s.free()
				}
				s = newCbSUT()
				return "ok"
			}
			if s == nil {
				return "bad-state"
			}
			switch f[0] {
			case "add", "adds":
				if s.wCh != nil {
					return "bad-state"
				}
				c := &cbConsumer{id: f[1], gated: f[2] == "gate", credits: make(chan struct{}, 1<<20)}
				if f[2] != "gate" && f[2] != "fast" {
					return "bad-op"
				}
				done := make(chan bool, 1)
				old := s.cons[f[1]]
				go func() {
					if f[0] == "adds" {
						_ = addStreamCallback(s.top, f[1], c.callback)
					} else {
						s.top.AddCallback(f[1], c.callback)
					}
					c.jobs.Store(beacon.VerifJobChanOf(s.top, f[1]))
					done <- true
				}()
				select {
				case <-done:
					if old != nil && old.active {
						old.active = false
						old.expected++ // the close signal
					}
					c.active = true
					s.cons[f[1]] = c
					if old != nil {
						s.cons[fmt.Sprintf("old%d:%s", len(s.cons), f[1])] = old
					}
					return "ok"
				case <-time.After(watchdog()):
					s.wCh = done
					// the registration completes later (if ever); remember the consumer for then
					s.cons["pending:"+f[1]] = c
					return "blocked"
				}
			case "remove":
				if s.wCh != nil {
					return "bad-state"
				}
				done := make(chan bool, 1)
				go func() {
					defer func() {
						if rec := recover(); rec != nil {
							done <- true
						}
					}()
					s.top.RemoveCallback(f[1])
					done <- true
				}()
				if c := s.cons[f[1]]; c != nil {
					c.active = false
				}
				select {
				case <-done:
					return "ok"
				case <-time.After(watchdog()):
					s.wCh = done
					return "blocked"
				}
			case "put":
				if s.putCh != nil || s.wCh != nil {
					return "bad-state"
				}
				r := s.head + 1
				done := make(chan error, 1)
				for _, c := range s.cons {
					if c.active {
						c.expected++
					}
				}
				go func() {
					// a panic inside Put (on a real node: in the aggregator / sync goroutine, which nobody recovers) is an outcome, not the end of the run
					defer func() {
						if rec := recover(); rec != nil {
							done <- fmt.Errorf("panic:%v", rec)
						}
					}()
					done <- s.top.Put(s.ctx, streamBeacon(r))
				}()
				select {
				case err := <-done:
					if err != nil {
						return "err:" + strings.ReplaceAll(err.Error(), " ", "_")
					}
					s.head = r
					s.noteEnded()
					s.settled()
					return fmt.Sprintf("ok %d", r)
				case <-time.After(watchdog()):
					s.putCh = done
					s.head = r
					return fmt.Sprintf("blocked %d", r)
				}
			case "release":
				c := s.cons[f[1]]
				n, _ := strconv.Atoi(f[2])
				if c == nil || !c.gated {
					return "bad-state"
				}
				for i := 0; i < n; i++ {
					c.credits <- struct{}{}
				}
				c.given += int32(n)
				if s.putCh == nil && s.wCh == nil {
					s.settled()
				}
				return "ok"
			case "wait":
				deadline := time.After(watchdog())
				if s.putCh != nil {
					select {
					case err := <-s.putCh:
						s.putCh = nil
						if err != nil {
							return "err:" + strings.ReplaceAll(err.Error(), " ", "_")
						}
						s.noteEnded()
					case <-deadline:
						return "still-blocked"
					}
				}
				if s.wCh != nil {
					select {
					case <-s.wCh:
						s.wCh = nil
						for k, c := range s.cons {
							if strings.HasPrefix(k, "pending:") {
								id := strings.TrimPrefix(k, "pending:")
								delete(s.cons, k)
								if old := s.cons[id]; old != nil {
									if old.active {
										old.active = false
										old.expected++ // the close signal
									}
									s.cons[fmt.Sprintf("old%d:%s", len(s.cons), id)] = old
								}
								c.active = true
								s.cons[id] = c
							}
						}
					case <-deadline:
						return "still-blocked"
					}
				}
				s.settled()
				return "done"
			case "got":
				c := s.cons[f[1]]
				if c == nil {
					return "bad-state"
				}
				if !s.settled() {
					return "unsettled"
				}
				c.mu.Lock()
				defer c.mu.Unlock()
				if len(c.got) == 0 {
					return "-"
				}
				return strings.Join(c.got, ",")
			case "qlen":
				c := s.cons[f[1]]
				if c == nil {
					return "bad-state"
				}
				return strconv.Itoa(c.jobs.Load().Len())
			case "last":
				b, err := s.top.Last(s.ctx)
				if err != nil {
					return "err"
				}
				return strconv.FormatUint(b.Round, 10)
			}
			return "bad-op"
		})
		fmt.Fprintln(out, res)
		out.Flush()
	}
	if s != nil {
		s.free()
	}
}
