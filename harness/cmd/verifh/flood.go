//go:build verif

package main

// Engine "flood" (C12, node level): a real beacon.Handler (real keys, real threshold shares, real
// ProcessPartialBeacon → chainStore.runAggregator → partialCache) for group member 0; the script plays the other
// members and an attacker who replays their partials with altered previous signatures.

import (
	"bufio"
	"context"
	"crypto/sha256"
	"fmt"
	"strconv"
	"strings"
	"time"

	clock "github.com/jonboulle/clockwork"

	"github.com/drand/drand/v2/common"
	"github.com/drand/drand/v2/common/key"
	"github.com/drand/drand/v2/crypto"
	"github.com/drand/drand/v2/internal/chain/beacon"
	"github.com/drand/drand/v2/internal/chain/memdb"
	dnet "github.com/drand/drand/v2/internal/net"
	"github.com/drand/drand/v2/protobuf/drand"
	"github.com/drand/kyber"
	"github.com/drand/kyber/share"
	"github.com/drand/kyber/share/dkg"
	"github.com/drand/kyber/util/random"
)

func init() { engines["flood"] = floodEngine }

type floodSUT struct {
	sch    *crypto.Scheme
	shares []*key.Share
	group  *key.Group
	h      *beacon.Handler
	ctx    context.Context
}

func newFloodSUT(schemeName string, n, thr int) *floodSUT {
	sch := mustScheme(schemeName)
	// one polynomial of degree thr-1, shares for n members (what a finished DKG leaves behind)
	pri := share.NewPriPoly(sch.KeyGroup, thr, sch.KeyGroup.Scalar().Pick(random.New()), random.New())
	pub := pri.Commit(sch.KeyGroup.Point().Base())
	_, commits := pub.Info()
	var shares []*key.Share
	for _, s := range pri.Shares(n) {
		shares = append(shares, &key.Share{DistKeyShare: dkg.DistKeyShare{Share: s, Commits: commits}, Scheme: sch})
	}
	var nodes []*key.Node
	for i := 0; i < n; i++ {
		kp, err := key.NewKeyPair(fmt.Sprintf("127.0.0.1:%d", 41000+i), sch)
		if err != nil {
			panic(err)
		}
		nodes = append(nodes, &key.Node{Index: uint32(i), Identity: kp.Public})
	}
	period := 30 * time.Second
	genesis := int64(1_700_000_000)
	group := key.LoadGroup(nodes, genesis, &key.DistPublic{Coefficients: append([]kyber.Point{}, commits...)}, period, 0, sch, "default")
	group.Threshold = thr
	group.GenesisSeed = []byte("verif-flood-seed")
	ctx := context.Background()
	l := quietLogger()
	conf := &beacon.Config{Group: group, Public: nodes[0], Share: shares[0],
		Clock: clock.NewFakeClockAt(time.Unix(genesis, 0).Add(20 * period))}
	h, err := beacon.NewHandler(ctx, dnet.NewGrpcClient(l), memdb.NewStore(2000), conf, l, common.GetAppVersion())
	if err != nil {
		panic(err)
	}
	return &floodSUT{sch: sch, shares: shares, group: group, h: h, ctx: ctx}
}

func classifyPartialErr(err error) string {
	if err == nil {
		return "ok"
	}
	m := err.Error()
	switch {
	case strings.Contains(m, "invalid round"):
		return "err-future"
	case strings.Contains(m, "not in the group"):
		return "err-not-member"
	case strings.Contains(m, "own index"):
		return "err-own"
	}
	return "err-verify"
}

// flood <scheme>
//
//	init <n> <thr>
//	partial <signer> <round> <real|junk:k>   a partial really signed by member <signer> for (round, stored signature of round-1),
//	                                          sent with that previous signature or with the k-th junk one     ok | err-…
//	await <round>                             wait (≤ watchdog) for round to be stored                         stored | not-stored
//	last
func floodEngine(args []string, in *bufio.Scanner, out *bufio.Writer) {
	var s *floodSUT
	stop := func() {
		if s != nil {
			s.h.Stop(s.ctx)
		}
	}
	defer stop()
	for in.Scan() {
		f := fields(in.Text())
		if len(f) == 0 {
			continue
		}
		res := safely(func() string {
			switch f[0] {
			case "init":
				stop()
				n, _ := strconv.Atoi(f[1])
				thr, _ := strconv.Atoi(f[2])
				s = newFloodSUT(args[0], n, thr)
				return "ok"
			case "partial":
				i, _ := strconv.Atoi(f[1])
				r, _ := strconv.ParseUint(f[2], 10, 64)
				prevB, err := s.h.Store().Get(s.ctx, r-1)
				if err != nil {
					return "no-prev"
				}
				truePrev := prevB.Signature
				msg := s.sch.DigestBeacon(&common.Beacon{Round: r, PreviousSig: truePrev})
				sig, err := s.sch.ThresholdScheme.Sign(s.shares[i].PrivateShare(), msg)
				if err != nil {
					panic(err)
				}
				prev := truePrev
				if strings.HasPrefix(f[3], "junk:") {
					d := sha256.Sum256([]byte(f[3]))
					prev = d[:]
				}
				_, err = s.h.ProcessPartialBeacon(s.ctx, &drand.PartialBeaconPacket{Round: r, PreviousSignature: prev, PartialSig: sig,
					Metadata: &drand.Metadata{BeaconID: "default"}})
				return classifyPartialErr(err)
			case "await":
				r, _ := strconv.ParseUint(f[1], 10, 64)
				deadline := time.Now().Add(watchdog())
				for time.Now().Before(deadline) {
					if b, err := s.h.Store().Last(s.ctx); err == nil && b.Round >= r {
						return "stored"
					}
					time.Sleep(2 * time.Millisecond)
				}
				return "not-stored"
			case "last":
				b, err := s.h.Store().Last(s.ctx)
				if err != nil {
					return "err"
				}
				return strconv.FormatUint(b.Round, 10)
			}
			return "bad-op"
		})
		fmt.Fprintln(out, res)
		out.Flush()
	}
}
