//go:build verif

package main

// Engine `dkgrun` (C06, C07): n REAL dkg.Process instances in one OS process, REAL kyber DKG, connected by
// an in-memory net.DKGClient that routes Packet/BroadcastDKG calls to the target process and can delay,
// reorder, duplicate and hold deliveries. One JSON result line per op line.
//
//   net <scheme> <n> <beaconID> <phaseMs> <kickoffMs> <seed>
//   initial thr=<t> order=<i,j,…> leader=<i> period=<s> catchup=<s> genesis=<±s rel. now> timeout=<s> [sched=…]
//   reshare thr=<t> remain=<…> join=<…> leave=<…> leader=<i> timeout=<s> catchup=<s> [sched=…] [mode=execute|abort|noexec] [tamper=period|scheme]
//   handover node=<i>            real beacon.Handler + vault around the transition round of the last reshare
//   vgt node=<i> field=<none|period|genesis|seed|id|scheme|past>   real validateGroupTransition old→new (new perturbed)
//   abort nodes=<i,j,…>          the local abort command on each listed node (resets members stuck in a proposal phase)
//   dump
// sched = '/'-separated: delay=<ms> dup=<pct> slow=<i>:<ms> hold=<ms rel. boundary> holdx=<i>:<ms> down=<i> kick=<ms rel. boundary>
//         cut=<a>><b> (deal bundles sent over the link a→b are lost)  forge=<a>><b> (a copy of dealer a's deal with a broken signature reaches b first)

import (
	"bufio"
	"bytes"
	"context"
	"encoding/hex"
	"encoding/json"
	"errors"
	"fmt"
	"os"
	"runtime"
	"sort"
	"strconv"
	"strings"
	"sync"
	"time"

	"github.com/BurntSushi/toml"
	clock "github.com/jonboulle/clockwork"
	"google.golang.org/protobuf/proto"
	"google.golang.org/protobuf/types/known/timestamppb"

	"github.com/drand/drand/v2/common"
	pchain "github.com/drand/drand/v2/common/chain"
	"github.com/drand/drand/v2/common/key"
	"github.com/drand/drand/v2/common/log"
	"github.com/drand/drand/v2/crypto"
	"github.com/drand/drand/v2/internal/chain"
	"github.com/drand/drand/v2/internal/chain/beacon"
	"github.com/drand/drand/v2/internal/chain/memdb"
	"github.com/drand/drand/v2/internal/core"
	"github.com/drand/drand/v2/internal/dkg"
	"github.com/drand/drand/v2/internal/net"
	"github.com/drand/drand/v2/internal/util"
	pdkg "github.com/drand/drand/v2/protobuf/dkg"
	pdrand "github.com/drand/drand/v2/protobuf/drand"
	"github.com/drand/kyber"
	"github.com/drand/kyber/share"
)

func init() { engines["dkgrun"] = dkgrunEngine }

type drSched struct {
	delay    int         // ms, random per BroadcastDKG delivery (asynchronous ⇒ reordering)
	dup      int         // percent of deliveries duplicated
	slow     map[int]int // node → extra ms on every delivery to or from it
	hold     *int        // response bundles are released at boundary+hold ms …
	holdx    map[int]int // … or at boundary+holdx[i] for node i
	down     map[int]bool
	kick     *int // kickoff of the execution is placed at boundary+kick ms
	boundary time.Time
	// link faults of the deal phase (C06: the echo broadcast must make up for them)
	cut      map[[2]int]bool   // a>b: every deal bundle sent over the link a→b is lost (the call returns an error)
	forge    map[[2]int]bool   // a>b: the first time dealer a's deal bundle travels to b, a copy with one signature bit flipped arrives first
	forgeIdx map[int]uint32    // dealer index of node a in the running epoch
	forged   map[[2]int]bool
}

type drNode struct {
	i    int
	pair *key.Pair
	part *pdkg.Participant
	dir  string
	proc *dkg.Process
	fan  *util.FanOutChan[dkg.SharingOutput]
	lis  chan dkg.SharingOutput

	mu      sync.Mutex
	doneAt  map[uint32]time.Time // epoch → instant the completion was observed
	lowerAt time.Time            // a lower bound for the completion instant of the running epoch
	// what the node held before the running epoch (for the cross-epoch oracles)
	prev *dkg.DBState
}

type drNet struct {
	sch     *crypto.Scheme
	bid     string
	nodes   []*drNode
	byAddr  map[string]*drNode
	phase   time.Duration
	kickoff time.Duration
	r       *rng
	rmu     sync.Mutex

	smu   sync.Mutex
	sched *drSched
	stats map[string]int
	// synchrony monitors of the running epoch
	maxDeliveryLag time.Duration // longest time a delivery took beyond its scheduled instant
	maxSchedLag    time.Duration // longest oversleep of a 5 ms watchdog tick (CPU starvation)
	kickoffAt      time.Time
	// last completed reshare (for handover / vgt)
	lastOld map[int]*dkg.DBState
}

type drClient struct {
	n    *drNet
	from int
}

func (c *drNet) count(k string) {
	c.smu.Lock()
	c.stats[k]++
	c.smu.Unlock()
}

func (c *drNet) lag(d time.Duration) {
	c.smu.Lock()
	if d > c.maxDeliveryLag {
		c.maxDeliveryLag = d
	}
	c.smu.Unlock()
}

func (c *drNet) rnd(n int) int {
	c.rmu.Lock()
	defer c.rmu.Unlock()
	return c.r.below(n)
}

func (c *drClient) Packet(ctx context.Context, p net.Peer, packet *pdkg.GossipPacket, _ ...net.CallOption) (*pdkg.EmptyDKGResponse, error) {
	t := c.n.byAddr[p.Address()]
	if t == nil {
		return nil, errors.New("no such peer")
	}
	c.n.smu.Lock()
	s := c.n.sched
	c.n.smu.Unlock()
	if s != nil && packet.GetExecute() != nil && (s.down[t.i] || s.down[c.from]) {
		c.n.count("gossip-dropped")
		return &pdkg.EmptyDKGResponse{}, nil
	}
	if ex := packet.GetExecute(); ex != nil {
		c.n.smu.Lock()
		c.n.kickoffAt = ex.GetTime().AsTime()
		c.n.smu.Unlock()
		t.mu.Lock()
		if k := ex.GetTime().AsTime(); k.After(t.lowerAt) {
			t.lowerAt = k
		}
		t.mu.Unlock()
	}
	c.n.count("gossip")
	if s != nil && s.dup > 0 && c.n.rnd(100) < s.dup {
		c.n.count("gossip-dup")
		cp := proto.Clone(packet).(*pdkg.GossipPacket)
		go func() {
			time.Sleep(time.Duration(c.n.rnd(50)) * time.Millisecond)
			_, _ = t.proc.Packet(context.Background(), cp)
		}()
	}
	// as over gRPC: the handler runs under a context that ends when the handler returns
	rctx, cancel := context.WithCancel(context.Background())
	defer cancel()
	_ = ctx
	return t.proc.Packet(rctx, packet)
}

func (c *drClient) BroadcastDKG(ctx context.Context, p net.Peer, in *pdkg.DKGPacket, _ ...net.CallOption) (*pdkg.EmptyDKGResponse, error) {
	t := c.n.byAddr[p.Address()]
	if t == nil {
		return nil, errors.New("no such peer")
	}
	c.n.smu.Lock()
	s := c.n.sched
	c.n.smu.Unlock()
	if s == nil {
		t0 := time.Now()
		r, err := t.proc.BroadcastDKG(ctx, in)
		c.n.lag(time.Since(t0))
		return r, err
	}
	if s.down[t.i] || s.down[c.from] {
		c.n.count("bundle-dropped")
		return &pdkg.EmptyDKGResponse{}, nil
	}
	if deal := in.GetDkg().GetDeal(); deal != nil {
		if s.cut[[2]int{c.from, t.i}] {
			c.n.count("bundle-cut")
			return nil, errors.New("connection refused")
		}
		c.n.smu.Lock()
		var forgeNow bool
		for ab := range s.forge {
			if ab[1] == t.i && !s.forged[ab] {
				if ix, ok := s.forgeIdx[ab[0]]; ok && ix == deal.GetDealerIndex() {
					s.forged[ab] = true
					forgeNow = true
				}
			}
		}
		c.n.smu.Unlock()
		if forgeNow {
			bad := proto.Clone(in).(*pdkg.DKGPacket)
			sig := append([]byte{}, bad.GetDkg().GetDeal().GetSignature()...)
			sig[len(sig)-1] ^= 1
			bad.GetDkg().GetDeal().Signature = sig
			c.n.count("bundle-forged")
			fctx, fcancel := context.WithCancel(context.Background())
			_, ferr := t.proc.BroadcastDKG(fctx, bad)
			fcancel()
			if ferr != nil {
				c.n.count("bundle-forged-refused")
			}
		}
	}
	wait := time.Duration(0)
	if s.delay > 0 {
		wait += time.Duration(c.n.rnd(s.delay+1)) * time.Millisecond
	}
	wait += time.Duration(s.slow[t.i]+s.slow[c.from]) * time.Millisecond
	var release time.Time
	if _, isResp := in.GetDkg().GetBundle().(*pdkg.Packet_Response); isResp && (s.hold != nil || len(s.holdx) > 0) {
		off, ok := s.holdx[t.i]
		if !ok && s.hold != nil {
			off, ok = *s.hold, true
		}
		if ok {
			release = s.boundary.Add(time.Duration(off) * time.Millisecond)
			c.n.count("bundle-held")
		}
	}
	copies := 1
	if s.dup > 0 && c.n.rnd(100) < s.dup {
		copies = 2
		c.n.count("bundle-dup")
	}
	for k := 0; k < copies; k++ {
		w := wait
		if k > 0 {
			w += time.Duration(c.n.rnd(s.delay+30)) * time.Millisecond
		}
		cp := proto.Clone(in).(*pdkg.DKGPacket)
		c.n.count("bundle")
		t0 := time.Now()
		go func() {
			if !release.IsZero() {
				if d := time.Until(release); d > 0 {
					time.Sleep(d)
				}
				t.mu.Lock()
				if release.After(t.lowerAt) {
					t.lowerAt = release
				}
				t.mu.Unlock()
			}
			if w > 0 {
				time.Sleep(w)
			}
			_, _ = t.proc.BroadcastDKG(context.Background(), cp)
			due := t0.Add(w)
			if !release.IsZero() && release.Add(w).After(due) {
				due = release.Add(w)
			}
			c.n.lag(time.Since(due))
		}()
	}
	return &pdkg.EmptyDKGResponse{}, nil
}

func parseKV(fs []string) map[string]string {
	m := map[string]string{}
	for _, f := range fs {
		if k, v, ok := strings.Cut(f, "="); ok {
			m[k] = v
		}
	}
	return m
}

func atoi(s string) int { v, _ := strconv.Atoi(s); return v }

func parseIdx(s string) []int {
	if s == "" || s == "-" {
		return nil
	}
	var out []int
	for _, t := range strings.Split(s, ",") {
		out = append(out, atoi(t))
	}
	return out
}

func parseSched(spec string) *drSched {
	s := &drSched{slow: map[int]int{}, holdx: map[int]int{}, down: map[int]bool{}, cut: map[[2]int]bool{}, forge: map[[2]int]bool{},
		forgeIdx: map[int]uint32{}, forged: map[[2]int]bool{}}
	if spec == "" || spec == "-" {
		return s
	}
	for _, tok := range strings.Split(spec, "/") {
		k, v, _ := strings.Cut(tok, "=")
		switch k {
		case "delay":
			s.delay = atoi(v)
		case "dup":
			s.dup = atoi(v)
		case "slow":
			a, b, _ := strings.Cut(v, ":")
			s.slow[atoi(a)] = atoi(b)
		case "hold":
			x := atoi(v)
			s.hold = &x
		case "holdx":
			a, b, _ := strings.Cut(v, ":")
			s.holdx[atoi(a)] = atoi(b)
		case "down":
			s.down[atoi(v)] = true
		case "kick":
			x := atoi(v)
			s.kick = &x
		case "cut":
			a, b, _ := strings.Cut(v, ">")
			s.cut[[2]int{atoi(a), atoi(b)}] = true
		case "forge":
			a, b, _ := strings.Cut(v, ">")
			s.forge[[2]int{atoi(a), atoi(b)}] = true
		default:
			panic("bad sched token " + tok)
		}
	}
	return s
}

// ---- canonical dumps -------------------------------------------------------------------------

type jNode struct {
	Index uint32 `json:"index"`
	Addr  string `json:"addr"`
	Key   string `json:"key"`
	Sig   string `json:"sig"`
	Who   int    `json:"who"` // harness node number, -1 unknown
}

type jGroup struct {
	ID         string   `json:"id"`
	Threshold  int      `json:"thr"`
	PeriodSec  int64    `json:"period"`
	CatchupSec int64    `json:"catchup"`
	Scheme     string   `json:"scheme"`
	Genesis    int64    `json:"genesis"`
	Seed       string   `json:"seed"`
	Transition int64    `json:"transition"`
	Nodes      []jNode  `json:"nodes"` // in stored order
	Coeffs     []string `json:"coeffs"`
	Hash       string   `json:"hash"`
	ChainHash  string   `json:"chainhash"`
	PeriodNs   int64    `json:"period_ns"`
}

type jPart struct {
	Addr string `json:"addr"`
	Key  string `json:"key"`
	Sig  string `json:"sig"`
	Who  int    `json:"who"`
}

type jState struct {
	Epoch      uint32  `json:"epoch"`
	State      string  `json:"state"`
	Threshold  uint32  `json:"thr"`
	Scheme     string  `json:"scheme"`
	PeriodSec  int64   `json:"period"`
	CatchupSec int64   `json:"catchup"`
	Genesis    int64   `json:"genesis"`
	Seed       string  `json:"seed"`
	BeaconID   string  `json:"id"`
	Remaining  []jPart `json:"remaining"`
	Joining    []jPart `json:"joining"`
	Leaving    []jPart `json:"leaving"`
	Group      *jGroup `json:"group"`
	ShareIndex int     `json:"share_index"`
	HasShare   bool    `json:"has_share"`
	// crypto labels computed with the real kyber primitives
	ShareOnPoly     bool `json:"share_on_poly"`      // share.V • base == PubPoly(group coefficients).Eval(share.I)
	CommitsEqGroup  bool `json:"commits_eq_group"`   // share.Commits == group.PublicKey.Coefficients
	IndexMatchesKey bool `json:"index_matches_node"` // the group node carrying this node's key has Index == share.I
}

func (c *drNet) who(addr string) int {
	if n := c.byAddr[addr]; n != nil {
		return n.i
	}
	return -1
}

func (c *drNet) showParts(l []*pdkg.Participant) []jPart {
	out := []jPart{}
	for _, p := range l {
		out = append(out, jPart{Addr: p.GetAddress(), Key: hx(p.GetKey()), Sig: hx(p.GetSignature()), Who: c.who(p.GetAddress())})
	}
	return out
}

func pointHex(p kyber.Point) string {
	b, err := p.MarshalBinary()
	if err != nil {
		return "err:" + err.Error()
	}
	return hex.EncodeToString(b)
}

func (c *drNet) showGroup(g *key.Group) *jGroup {
	if g == nil {
		return nil
	}
	j := &jGroup{ID: g.ID, Threshold: g.Threshold, PeriodSec: int64(g.Period / time.Second), CatchupSec: int64(g.CatchupPeriod / time.Second),
		Genesis: g.GenesisTime, Seed: hx(g.GenesisSeed), Transition: g.TransitionTime, PeriodNs: int64(g.Period), Nodes: []jNode{}, Coeffs: []string{}}
	if g.Scheme != nil {
		j.Scheme = g.Scheme.Name
	}
	for _, n := range g.Nodes {
		j.Nodes = append(j.Nodes, jNode{Index: n.Index, Addr: n.Addr, Key: pointHex(n.Key), Sig: hx(n.Signature), Who: c.who(n.Addr)})
	}
	if g.PublicKey != nil {
		for _, co := range g.PublicKey.Coefficients {
			j.Coeffs = append(j.Coeffs, pointHex(co))
		}
	}
	// Hash() sorts g.Nodes in place: take it on a shallow copy so the stored order stays visible
	cp := *g
	cp.Nodes = append([]*key.Node{}, g.Nodes...)
	j.Hash = hex.EncodeToString(cp.Hash())
	if g.PublicKey != nil && g.Scheme != nil {
		j.ChainHash = hex.EncodeToString(pchain.NewChainInfo(&cp).Hash())
	}
	return j
}

func (c *drNet) showState(d *dkg.DBState, me *drNode) *jState {
	if d == nil {
		return nil
	}
	j := &jState{Epoch: d.Epoch, State: d.State.String(), Threshold: d.Threshold, Scheme: d.SchemeID, PeriodSec: int64(d.BeaconPeriod / time.Second),
		CatchupSec: int64(d.CatchupPeriod / time.Second), Genesis: d.GenesisTime.Unix(), Seed: hx(d.GenesisSeed), BeaconID: d.BeaconID,
		Remaining: c.showParts(d.Remaining), Joining: c.showParts(d.Joining), Leaving: c.showParts(d.Leaving), Group: c.showGroup(d.FinalGroup), ShareIndex: -1}
	if d.KeyShare != nil && d.KeyShare.Share != nil {
		j.HasShare = true
		j.ShareIndex = d.KeyShare.Share.I
		if d.FinalGroup != nil && d.FinalGroup.PublicKey != nil {
			sch := d.KeyShare.Scheme
			pp := d.FinalGroup.PublicKey.PubPoly(sch)
			want := pp.Eval(d.KeyShare.Share.I).V
			got := sch.KeyGroup.Point().Mul(d.KeyShare.Share.V, nil)
			j.ShareOnPoly = want.Equal(got)
			j.CommitsEqGroup = len(d.KeyShare.Commits) == len(d.FinalGroup.PublicKey.Coefficients)
			for k := range d.KeyShare.Commits {
				if j.CommitsEqGroup && !d.KeyShare.Commits[k].Equal(d.FinalGroup.PublicKey.Coefficients[k]) {
					j.CommitsEqGroup = false
				}
			}
			if n := d.FinalGroup.Find(me.pair.Public); n != nil {
				j.IndexMatchesKey = int(n.Index) == d.KeyShare.Share.I
			}
		}
	}
	return j
}

// ---- the engine ------------------------------------------------------------------------------

type drEngine struct {
	net  *drNet
	base string
}

func (e *drEngine) cleanup() {
	if e.net != nil {
		done := make(chan struct{})
		nodes := e.net.nodes
		go func() {
			for _, n := range nodes {
				func() {
					defer func() { _ = recover() }()
					n.proc.Close()
				}()
			}
			close(done)
		}()
		select {
		case <-done:
		case <-time.After(20 * time.Second):
			// a Close that does not return is not what this engine looks at; leave the old network behind
			fmt.Fprintln(os.Stderr, "dkgrun: closing the previous network did not finish within 20 s")
		}
		e.net = nil
	}
	if e.base != "" {
		os.RemoveAll(e.base)
		e.base = ""
	}
}

func (e *drEngine) mkNet(f []string) any {
	e.cleanup()
	sch := mustScheme(f[1])
	n := atoi(f[2])
	seed, _ := strconv.ParseUint(f[6], 10, 64)
	c := &drNet{sch: sch, bid: f[3], byAddr: map[string]*drNode{}, phase: time.Duration(atoi(f[4])) * time.Millisecond,
		kickoff: time.Duration(atoi(f[5])) * time.Millisecond, r: &rng{s: seed}, stats: map[string]int{}}
	e.base = tmpDir()
	var out []jPart
	for i := 0; i < n; i++ {
		addr := fmt.Sprintf("127.0.0.1:%d", 9000+i)
		pair, err := key.NewKeyPair(addr, sch)
		if err != nil {
			panic(err)
		}
		part, err := util.PublicKeyAsParticipant(pair.Public)
		if err != nil {
			panic(err)
		}
		nd := &drNode{i: i, pair: pair, part: part, dir: fmt.Sprintf("%s/n%d", e.base, i), doneAt: map[uint32]time.Time{}}
		st, err := dkg.NewDKGStore(nd.dir)
		if err != nil {
			panic(err)
		}
		nd.fan = util.NewFanOutChan[dkg.SharingOutput]()
		nd.lis = nd.fan.Listen()
		lg := quietLogger()
		if os.Getenv("VERIF_DEBUG") != "" {
			lg = log.New(os.Stderr, log.DebugLevel, false).Named(fmt.Sprintf("n%d", i))
		}
		nd.proc = dkg.NewDKGProcess(st, fixedIdentity{pair}, nd.fan, &drClient{n: c, from: i}, nil,
			dkg.Config{Timeout: time.Hour, TimeBetweenDKGPhases: c.phase, KickoffGracePeriod: c.kickoff}, lg)
		go func() {
			for o := range nd.lis {
				now := time.Now()
				nd.mu.Lock()
				nd.doneAt[o.New.Epoch] = now
				nd.mu.Unlock()
			}
		}()
		c.nodes = append(c.nodes, nd)
		c.byAddr[addr] = nd
		out = append(out, jPart{Addr: addr, Key: hx(part.Key), Sig: hx(part.Signature), Who: i})
	}
	e.net = c
	return map[string]any{"ok": true, "nodes": out, "scheme": sch.Name}
}

func (c *drNet) parts(idx []int) []*pdkg.Participant {
	var out []*pdkg.Participant
	for _, i := range idx {
		out = append(out, proto.Clone(c.nodes[i].part).(*pdkg.Participant))
	}
	return out
}

func (c *drNet) cmd(i int, cm *pdkg.DKGCommand) string {
	cm.Metadata = &pdkg.CommandMetadata{BeaconID: c.bid}
	// as over the control port: the request context ends when the command returns
	rctx, cancel := context.WithCancel(context.Background())
	_, err := c.nodes[i].proc.Command(rctx, cm)
	cancel()
	r := classifyDKGErr(err, cm.GetExecute() != nil)
	if r == "saved-then-err:gossip-empty" {
		// a one-node network: the state was saved, there was nobody to tell
		return "ok"
	}
	return r
}

// nextBoundary: first instant ≥ from+lead that is a round boundary of (genesis, period).
func nextBoundary(from time.Time, lead time.Duration, genesis int64, periodSec int64) time.Time {
	t := from.Add(lead).Unix() + 1
	if periodSec <= 0 {
		return time.Unix(t, 0)
	}
	for (t-genesis)%periodSec != 0 || t < genesis {
		t++
	}
	return time.Unix(t, 0)
}

type epochResult struct {
	Op       string            `json:"op"`
	Epoch    uint32            `json:"epoch"`
	Steps    map[string]string `json:"steps"`
	Members  []int             `json:"members"` // nodes that take part in the execution (remaining+joining, not down)
	Nodes    map[string]any    `json:"nodes"`
	Pairwise []map[string]any  `json:"pairwise"`
	Subsets  []map[string]any  `json:"subsets"`
	Old      []map[string]any  `json:"old_partials"`
	Stats    map[string]int    `json:"stats"`
	Boundary int64             `json:"boundary"`
	Tamper   []map[string]any  `json:"tamper,omitempty"`
	WallMs   int64             `json:"wall_ms"`
	// synchrony of the run: kyber's DKG assumes every bundle is delivered within the phase
	KickoffMs        int64 `json:"kickoff_ms"`
	PhaseMs          int64 `json:"phase_ms"`
	MaxDeliveryLagMs int64 `json:"max_delivery_lag_ms"`
	MaxSchedLagMs    int64 `json:"max_sched_lag_ms"`
	Down             []int `json:"down"`
	LinkFaults       int   `json:"link_faults"` // one-way link cuts / forged copies asked for by the schedule
}

func (c *drNet) states(i int) (cur, fin *dkg.DBState) {
	cur, fin, err := c.nodes[i].proc.VerifStates(c.bid)
	if err != nil {
		panic(err)
	}
	return cur, fin
}

// run drives one epoch. members = nodes expected to execute; leader issues the commands.
func (c *drNet) runEpoch(op string, kv map[string]string) any {
	t0 := time.Now()
	res := &epochResult{Op: op, Steps: map[string]string{}, Nodes: map[string]any{}, Pairwise: []map[string]any{}, Subsets: []map[string]any{}, Old: []map[string]any{}}
	leader := atoi(kv["leader"])
	sched := parseSched(kv["sched"])
	timeout := time.Duration(atoi(kv["timeout"])) * time.Second
	if timeout == 0 {
		timeout = 60 * time.Second
	}
	for _, n := range c.nodes {
		_, fin := c.states(n.i)
		n.mu.Lock()
		n.prev = fin
		n.lowerAt = time.Time{}
		n.mu.Unlock()
	}
	c.smu.Lock()
	c.stats = map[string]int{}
	c.sched = nil
	c.maxDeliveryLag, c.maxSchedLag, c.kickoffAt = 0, 0, time.Time{}
	c.smu.Unlock()
	stopWatch := make(chan struct{})
	go func() {
		for {
			t := time.Now()
			select {
			case <-stopWatch:
				return
			case <-time.After(5 * time.Millisecond):
			}
			if over := time.Since(t) - 5*time.Millisecond; over > 0 {
				c.smu.Lock()
				if over > c.maxSchedLag {
					c.maxSchedLag = over
				}
				c.smu.Unlock()
			}
		}
	}()
	defer close(stopWatch)
	var members, joiners, remainers, leavers []int
	var epoch uint32
	var genesis, periodSec int64
	mode := kv["mode"]
	if mode == "" {
		mode = "execute"
	}
	if op == "initial" {
		joiners = parseIdx(kv["order"])
		members = joiners
		epoch = 1
		genesis = time.Now().Unix() + int64(atoi(kv["genesis"]))
		periodSec = int64(atoi(kv["period"]))
		res.Steps["propose"] = c.cmd(leader, &pdkg.DKGCommand{Command: &pdkg.DKGCommand_Initial{Initial: &pdkg.FirstProposalOptions{
			Threshold: uint32(atoi(kv["thr"])), Timeout: timestamppb.New(time.Now().Add(timeout)), GenesisTime: timestamppb.New(time.Unix(genesis, 0)),
			Scheme: c.sch.Name, CatchupPeriodSeconds: uint32(atoi(kv["catchup"])), PeriodSeconds: uint32(periodSec), Joining: c.parts(joiners)}}})
	} else {
		remainers, joiners, leavers = parseIdx(kv["remain"]), parseIdx(kv["join"]), parseIdx(kv["leave"])
		members = append(append([]int{}, remainers...), joiners...)
		_, lfin := c.states(leader)
		if lfin == nil {
			return map[string]any{"error": "leader has no finished epoch"}
		}
		epoch = lfin.Epoch + 1
		genesis = lfin.GenesisTime.Unix()
		periodSec = int64(lfin.BeaconPeriod / time.Second)
		opts := &pdkg.ProposalOptions{Threshold: uint32(atoi(kv["thr"])), Timeout: timestamppb.New(time.Now().Add(timeout)),
			CatchupPeriodSeconds: uint32(atoi(kv["catchup"])), Joining: c.parts(joiners), Remaining: c.parts(remainers), Leaving: c.parts(leavers)}
		if tam := kv["tamper"]; tam != "" {
			res.Tamper = c.tamperedProposal(leader, lfin, opts, tam, res)
			if tam == "period" {
				periodSec++
			}
		} else {
			res.Steps["propose"] = c.cmd(leader, &pdkg.DKGCommand{Command: &pdkg.DKGCommand_Resharing{Resharing: opts}})
		}
	}
	res.Epoch = epoch
	if res.Steps["propose"] == "ok" {
		for _, j := range joiners {
			if j == leader {
				continue
			}
			jo := &pdkg.JoinOptions{}
			if op != "initial" {
				_, lfin := c.states(leader)
				var buf bytes.Buffer
				if err := toml.NewEncoder(&buf).Encode(lfin.FinalGroup.TOML()); err != nil {
					panic(err)
				}
				jo.GroupFile = buf.Bytes()
			}
			res.Steps[fmt.Sprintf("join%d", j)] = c.cmd(j, &pdkg.DKGCommand{Command: &pdkg.DKGCommand_Join{Join: jo}})
		}
		for _, r := range remainers {
			if r == leader {
				continue
			}
			res.Steps[fmt.Sprintf("accept%d", r)] = c.cmd(r, &pdkg.DKGCommand{Command: &pdkg.DKGCommand_Accept{Accept: &pdkg.AcceptOptions{}}})
		}
	}
	var live []int
	for _, m := range members {
		if !sched.down[m] {
			live = append(live, m)
		}
	}
	res.Members = live
	switch {
	case res.Steps["propose"] != "ok":
	case mode == "abort":
		res.Steps["abort"] = c.cmd(leader, &pdkg.DKGCommand{Command: &pdkg.DKGCommand_Abort{Abort: &pdkg.AbortOptions{}}})
		time.Sleep(150 * time.Millisecond)
	case mode == "noexec":
	default:
		// place the execution relative to a round boundary when asked to
		lead := c.kickoff + 400*time.Millisecond
		if sched.kick != nil {
			b := nextBoundary(time.Now(), 250*time.Millisecond+time.Duration(abs(*sched.kick))*time.Millisecond, genesis, periodSec)
			target := b.Add(time.Duration(*sched.kick) * time.Millisecond)
			sched.boundary = b
			if d := time.Until(target.Add(-c.kickoff)); d > 0 {
				time.Sleep(d)
			}
		} else {
			sched.boundary = nextBoundary(time.Now(), lead+time.Duration(absMaxHold(sched))*time.Millisecond, genesis, periodSec)
		}
		res.Boundary = sched.boundary.Unix()
		// dealer indices of the running epoch (first epoch: rank of the key among the joiners; reshare: index in the old group)
		if op == "initial" {
			for ix, p := range util.SortedByPublicKey(c.parts(joiners)) {
				sched.forgeIdx[c.byAddr[p.Address].i] = uint32(ix)
			}
		} else if _, lfin := c.states(leader); lfin != nil && lfin.FinalGroup != nil {
			for _, gn := range lfin.FinalGroup.Nodes {
				if nd := c.byAddr[gn.Addr]; nd != nil {
					sched.forgeIdx[nd.i] = gn.Index
				}
			}
		}
		res.LinkFaults = len(sched.cut) + len(sched.forge)
		c.smu.Lock()
		c.sched = sched
		c.smu.Unlock()
		res.Steps["execute"] = c.cmd(leader, &pdkg.DKGCommand{Command: &pdkg.DKGCommand_Execute{Execute: &pdkg.ExecutionOptions{}}})
		if res.Steps["execute"] == "ok" {
			// the leader's own kickoff is now+grace
			c.nodes[leader].mu.Lock()
			if c.nodes[leader].lowerAt.IsZero() {
				c.nodes[leader].lowerAt = time.Now().Add(c.kickoff - 50*time.Millisecond)
			}
			c.nodes[leader].mu.Unlock()
			c.smu.Lock()
			if c.kickoffAt.IsZero() {
				c.kickoffAt = time.Now().Add(c.kickoff)
			}
			c.smu.Unlock()
			deadline := time.Now().Add(c.kickoff + 4*c.phase + 4*time.Second)
			if !sched.boundary.IsZero() && sched.boundary.Add(3*time.Second).After(deadline) {
				deadline = sched.boundary.Add(3*time.Second + 2*c.phase)
			}
			for time.Now().Before(deadline) {
				pending := 0
				for _, m := range live {
					c.nodes[m].mu.Lock()
					_, done := c.nodes[m].doneAt[epoch]
					c.nodes[m].mu.Unlock()
					if done {
						continue
					}
					cur, _ := c.states(m)
					if cur.Epoch == epoch && (cur.State == dkg.Failed || cur.State == dkg.TimedOut || cur.State == dkg.Aborted) {
						continue
					}
					pending++
				}
				if pending == 0 {
					break
				}
				time.Sleep(15 * time.Millisecond)
			}
			time.Sleep(60 * time.Millisecond) // late duplicates / re-gossip
		}
	}
	c.smu.Lock()
	c.sched = nil
	res.Stats = c.stats
	res.MaxDeliveryLagMs, res.MaxSchedLagMs, res.PhaseMs = c.maxDeliveryLag.Milliseconds(), c.maxSchedLag.Milliseconds(), c.phase.Milliseconds()
	if !c.kickoffAt.IsZero() {
		res.KickoffMs = c.kickoffAt.UnixMilli()
	}
	c.smu.Unlock()
	res.Down = []int{}
	for d := range sched.down {
		res.Down = append(res.Down, d)
	}
	sort.Ints(res.Down)
	// dump
	fins := map[int]*dkg.DBState{}
	for _, n := range c.nodes {
		cur, fin := c.states(n.i)
		n.mu.Lock()
		hi, done := n.doneAt[epoch]
		lo := n.lowerAt
		n.mu.Unlock()
		ent := map[string]any{"cur": c.showState(cur, n), "fin": c.showState(fin, n), "completed": done}
		if done {
			ent["done_hi_ms"] = hi.UnixMilli()
			ent["done_lo_ms"] = lo.UnixMilli()
			fins[n.i] = fin
		}
		res.Nodes[strconv.Itoa(n.i)] = ent
	}
	c.cryptoOracle(res, fins, kv)
	if op == "reshare" && len(fins) > 0 {
		c.lastOld = map[int]*dkg.DBState{}
		for _, n := range c.nodes {
			c.lastOld[n.i] = n.prev
		}
	}
	res.WallMs = time.Since(t0).Milliseconds()
	return res
}

func abs(x int) int {
	if x < 0 {
		return -x
	}
	return x
}

func absMaxHold(s *drSched) int {
	m := 0
	if s.hold != nil {
		m = abs(*s.hold)
	}
	for _, v := range s.holdx {
		if abs(v) > m {
			m = abs(v)
		}
	}
	return m
}

// tamperedProposal plays a leader whose binary proposes reshare terms the stock command would not
// (BeaconPeriodSeconds+1 or another SchemeID). The leader's own state is produced by the real
// DBState.Proposing (i.e. the real ValidateProposal accepted it); the packet is signed with the
// leader's real key over the real messageForSigning and handed to the real Process.Packet of every
// other participant.
func (c *drNet) tamperedProposal(leader int, lfin *dkg.DBState, o *pdkg.ProposalOptions, what string, res *epochResult) []map[string]any {
	me := c.nodes[leader].part
	terms := &pdkg.ProposalTerms{BeaconID: c.bid, Threshold: o.Threshold, Epoch: lfin.Epoch + 1, SchemeID: lfin.SchemeID,
		BeaconPeriodSeconds: uint32(lfin.BeaconPeriod.Seconds()), CatchupPeriodSeconds: o.CatchupPeriodSeconds,
		GenesisTime: timestamppb.New(lfin.GenesisTime), GenesisSeed: lfin.GenesisSeed, Timeout: o.Timeout, Leader: me,
		Joining: o.Joining, Remaining: o.Remaining, Leaving: o.Leaving}
	switch what {
	case "period":
		terms.BeaconPeriodSeconds++
	case "scheme":
		// a different scheme with the same key group, so that the members' keys still decode
		alt := map[string]string{crypto.DefaultSchemeID: crypto.UnchainedSchemeID, crypto.UnchainedSchemeID: crypto.DefaultSchemeID}
		a, ok := alt[lfin.SchemeID]
		if !ok {
			panic("tamper=scheme needs a pedersen-bls-(un)chained network")
		}
		terms.SchemeID = a
	default:
		panic("bad tamper " + what)
	}
	var out []map[string]any
	// the leader's own record
	cur, _ := c.states(leader)
	next, err := cur.Proposing(me, terms)
	out = append(out, map[string]any{"node": leader, "role": "leader", "outcome": classifyDKGErr(err, false)})
	if err != nil {
		res.Steps["propose"] = classifyDKGErr(err, false)
		return out
	}
	if err := c.nodes[leader].proc.VerifSaveCurrent(c.bid, next); err != nil {
		panic(err)
	}
	pkt := &pdkg.GossipPacket{Packet: &pdkg.GossipPacket_Proposal{Proposal: terms}}
	kp := c.nodes[leader].pair
	sig, err := kp.Scheme().AuthScheme.Sign(kp.Key, dkg.VerifMessageForSigning(c.bid, pkt, terms))
	if err != nil {
		panic(err)
	}
	pkt.Metadata = &pdkg.GossipMetadata{BeaconID: c.bid, Address: me.Address, Signature: sig}
	allok := true
	seen := map[string]bool{me.Address: true}
	for _, l := range [][]*pdkg.Participant{o.Remaining, o.Joining, o.Leaving} {
		for _, p := range l {
			if seen[p.Address] {
				continue
			}
			seen[p.Address] = true
			t := c.byAddr[p.Address]
			_, err := t.proc.Packet(context.Background(), proto.Clone(pkt).(*pdkg.GossipPacket))
			cls := classifyDKGErr(err, false)
			cur, _ := c.states(t.i)
			role := "remainer"
			if util.Contains(o.Joining, p) {
				role = "joiner"
			} else if util.Contains(o.Leaving, p) {
				role = "leaver"
			}
			out = append(out, map[string]any{"node": t.i, "role": role, "outcome": cls, "stored_period": int64(cur.BeaconPeriod / time.Second),
				"stored_scheme": cur.SchemeID, "stored_state": cur.State.String(), "stored_epoch": cur.Epoch})
			if cls != "ok" && role != "leaver" {
				allok = false
			}
		}
	}
	if allok {
		res.Steps["propose"] = "ok"
	} else {
		res.Steps["propose"] = "refused"
	}
	return out
}

func subsetsOf(items []int, k int) [][]int {
	var out [][]int
	var rec func(start int, cur []int)
	rec = func(start int, cur []int) {
		if len(cur) == k {
			out = append(out, append([]int{}, cur...))
			return
		}
		for i := start; i < len(items); i++ {
			rec(i+1, append(cur, items[i]))
		}
	}
	rec(0, nil)
	return out
}

// cryptoOracle labels the finished states with the answers of the real kyber primitives.
func (c *drNet) cryptoOracle(res *epochResult, fins map[int]*dkg.DBState, kv map[string]string) {
	var ids []int
	for i := range fins {
		ids = append(ids, i)
	}
	sort.Ints(ids)
	for a := 0; a < len(ids); a++ {
		for b := a + 1; b < len(ids); b++ {
			ga, gb := fins[ids[a]].FinalGroup, fins[ids[b]].FinalGroup
			ha, hb := c.showGroup(ga).Hash, c.showGroup(gb).Hash
			res.Pairwise = append(res.Pairwise, map[string]any{"a": ids[a], "b": ids[b], "equal": ga.Equal(gb) && gb.Equal(ga), "hash_equal": ha == hb})
		}
	}
	if len(ids) == 0 {
		return
	}
	ref := fins[ids[0]]
	if ref.FinalGroup == nil || ref.FinalGroup.PublicKey == nil || ref.KeyShare == nil {
		return
	}
	sch := ref.KeyShare.Scheme
	thr := ref.FinalGroup.Threshold
	n := ref.FinalGroup.Len()
	pub := ref.FinalGroup.PublicKey.PubPoly(sch)
	// every t-subset (or a random sample) of the nodes that hold a share signs a random message
	maxSub := atoi(kv["subsets"])
	if maxSub == 0 {
		maxSub = 1 << 30
	}
	subs := subsetsOf(ids, thr)
	if len(subs) > maxSub {
		for i := len(subs) - 1; i > 0; i-- {
			j := c.rnd(i + 1)
			subs[i], subs[j] = subs[j], subs[i]
		}
		subs = subs[:maxSub]
	}
	for _, s := range subs {
		msg := c.randMsg()
		var sigs [][]byte
		okSign := true
		for _, i := range s {
			ps, err := sch.ThresholdScheme.Sign(fins[i].KeyShare.PrivateShare(), msg)
			if err != nil {
				okSign = false
				break
			}
			sigs = append(sigs, ps)
		}
		ent := map[string]any{"s": s, "signed": okSign}
		if okSign {
			partialsOK := true
			for _, ps := range sigs {
				if sch.ThresholdScheme.VerifyPartial(pub, msg, ps) != nil {
					partialsOK = false
				}
			}
			ent["partials_verify"] = partialsOK
			full, err := sch.ThresholdScheme.Recover(pub, msg, sigs, thr, n)
			ent["recovered"] = err == nil
			if err == nil {
				ent["verifies"] = sch.ThresholdScheme.VerifyRecovered(ref.FinalGroup.PublicKey.Key(), msg, full) == nil
				// fewer than t must not recover
				if thr > 1 {
					_, err2 := sch.ThresholdScheme.Recover(pub, msg, sigs[:thr-1], thr, n)
					ent["fewer_recover"] = err2 == nil
				}
			}
		}
		res.Subsets = append(res.Subsets, ent)
	}
	// partial signatures made with a share of the previous epoch under the new public polynomial
	for _, nd := range c.nodes {
		nd.mu.Lock()
		p := nd.prev
		nd.mu.Unlock()
		if p == nil || p.KeyShare == nil || p.Epoch >= ref.Epoch {
			continue
		}
		msg := c.randMsg()
		ps, err := sch.ThresholdScheme.Sign(p.KeyShare.PrivateShare(), msg)
		if err != nil {
			continue
		}
		oldPub := p.FinalGroup.PublicKey.PubPoly(sch)
		res.Old = append(res.Old, map[string]any{"node": nd.i, "old_epoch": p.Epoch, "old_index": p.KeyShare.Share.I,
			"verifies_under_old": sch.ThresholdScheme.VerifyPartial(oldPub, msg, ps) == nil,
			"verifies_under_new": sch.ThresholdScheme.VerifyPartial(pub, msg, ps) == nil})
	}
}

func (c *drNet) randMsg() []byte {
	c.rmu.Lock()
	defer c.rmu.Unlock()
	return c.r.bytes(32)
}

// handover: a REAL beacon.Handler of a node that remained through the last reshare, holding the old
// group/share; TransitionNewGroup(new share, new group); rounds are Put one by one and after each the
// live vault is observed; at chosen rounds partials made with old / new shares of a peer are handed to
// the real ProcessPartialBeacon.
func (c *drNet) handover(kv map[string]string) any {
	i := atoi(kv["node"])
	old := c.lastOld[i]
	_, fin := c.states(i)
	if old == nil || fin == nil || old.Epoch >= fin.Epoch {
		return map[string]any{"error": "node did not remain through a completed reshare"}
	}
	nd := c.nodes[i]
	oldG, newG := old.FinalGroup, fin.FinalGroup
	me := oldG.Find(nd.pair.Public)
	if me == nil || newG.Find(nd.pair.Public) == nil {
		return map[string]any{"error": "node is not in both groups"}
	}
	period := oldG.Period
	tRound := common.CurrentRound(newG.TransitionTime, period, oldG.GenesisTime)
	span := uint64(atoi(kv["span"]))
	if span == 0 {
		span = 4
	}
	// the handler works on a copy of the old group whose genesis is shifted so that the transition round is small
	// (Puts must be consecutive from round 0); all that TransitionNewGroup reads is period, genesis and the target time
	clk := clock.NewFakeClockAt(time.Unix(newG.TransitionTime, 0).Add(2 * period))
	og := *oldG
	og.Nodes = append([]*key.Node{}, oldG.Nodes...)
	ng := *newG
	ng.Nodes = append([]*key.Node{}, newG.Nodes...)
	shift := int64(0)
	if tRound > span+2 {
		shift = int64(tRound-(span+2)) * int64(period/time.Second)
		og.GenesisTime += shift
		ng.GenesisTime += shift
		tRound = common.CurrentRound(ng.TransitionTime, period, og.GenesisTime)
	}
	st := memdb.NewStore(2000)
	ctx := context.Background()
	h, err := beacon.NewHandler(ctx, nopProtocolClient{}, st, &beacon.Config{Public: me, Share: old.KeyShare, Group: &og, Clock: clk}, quietLogger(), common.GetAppVersion())
	if err != nil {
		return map[string]any{"error": "NewHandler: " + err.Error()}
	}
	defer h.Stop(ctx)
	v := h.VerifVault()
	infoBefore := hex.EncodeToString(v.GetInfo().Hash())
	h.TransitionNewGroup(ctx, fin.KeyShare, &ng)
	oldHash := c.showGroup(&og).Hash
	newHash := c.showGroup(&ng).Hash
	which := func() string {
		g := v.GetGroup()
		cp := *g
		cp.Nodes = append([]*key.Node{}, g.Nodes...)
		hh := hex.EncodeToString(cp.Hash())
		switch hh {
		case oldHash:
			return "old"
		case newHash:
			return "new"
		}
		return "other"
	}
	// a peer holding shares in both epochs, to make partials from
	peer := -1
	for _, o := range c.nodes {
		if o.i == i {
			continue
		}
		po := c.lastOld[o.i]
		_, pf := c.states(o.i)
		if po != nil && pf != nil && po.KeyShare != nil && pf.KeyShare != nil && pf.Epoch == fin.Epoch && po.Epoch == old.Epoch {
			peer = o.i
			break
		}
	}
	type obs struct {
		Round     uint64         `json:"round"`
		Live      string         `json:"live"`
		SharePub  string         `json:"share_index"`
		OldPart   map[string]any `json:"old_partial,omitempty"`
		NewPart   map[string]any `json:"new_partial,omitempty"`
		LiveNodes string         `json:"live_nodes"`
		InfoConst bool           `json:"info_const"`
	}
	var trace []obs
	sch := og.Scheme
	chained := sch.Name == crypto.DefaultSchemeID
	prevSig := og.GetGenesisSeed()
	settle := func() string {
		// the transition callback runs on the callback store's worker: wait until the answer is stable
		last := which()
		for k := 0; k < 40; k++ {
			time.Sleep(5 * time.Millisecond)
			if w := which(); w != last {
				last = w
				k = 0
			} else if k >= 6 {
				break
			}
		}
		return last
	}
	oldPub := og.PublicKey.PubPoly(sch)
	newPub := ng.PublicKey.PubPoly(sch)
	try := func(sh *key.Share, round uint64, prev []byte) map[string]any {
		msg := sch.DigestBeacon(&common.Beacon{Round: round, PreviousSig: prev})
		ps, err := sch.ThresholdScheme.Sign(sh.PrivateShare(), msg)
		if err != nil {
			return map[string]any{"outcome": "sign-error"}
		}
		idx, _ := sch.ThresholdScheme.IndexOf(ps)
		// labels from the real verifier, independent of the handler under test
		lab := map[string]any{"index": idx, "valid_old": sch.ThresholdScheme.VerifyPartial(oldPub, msg, ps) == nil,
			"valid_new": sch.ThresholdScheme.VerifyPartial(newPub, msg, ps) == nil, "round": round}
		last, _ := h.Store().Last(ctx)
		lab["last_stored"] = last.Round
		nr, _ := common.NextRound(clk.Now().Unix(), og.Period, og.GenesisTime)
		lab["next_round"] = nr
		_, err = h.ProcessPartialBeacon(ctx, &pdrand.PartialBeaconPacket{Round: round, PreviousSignature: prev, PartialSig: ps,
			Metadata: &pdrand.Metadata{BeaconID: og.ID}})
		out := "accepted"
		if err != nil {
			m := err.Error()
			switch {
			case strings.Contains(m, "not in the group file"):
				out = "refused:not-in-group"
			case strings.Contains(m, "invalid own"):
				out = "refused:own"
			case strings.Contains(m, "invalid round"):
				out = "refused:round"
			case strings.Contains(m, "invalid index"):
				out = "refused:index"
			default:
				out = "refused:invalid-partial"
			}
		}
		lab["outcome"] = out
		return lab
	}
	last := tRound + 1
	for r := uint64(1); r <= last; r++ {
		sig := []byte(fmt.Sprintf("sig-%d", r))
		b := &common.Beacon{Round: r, Signature: sig, PreviousSig: prevSig}
		if !chained {
			b.PreviousSig = nil
		}
		if err := h.Store().Put(ctx, b); err != nil {
			return map[string]any{"error": fmt.Sprintf("put %d: %v", r, err)}
		}
		prevSig = sig
		o := obs{Round: r, Live: settle(), SharePub: strconv.Itoa(v.Index()), InfoConst: hex.EncodeToString(v.GetInfo().Hash()) == infoBefore}
		var ln []string
		for _, gn := range v.GetGroup().Nodes {
			ln = append(ln, fmt.Sprintf("%d|%s", gn.Index, gn.Addr))
		}
		o.LiveNodes = strings.Join(ln, ";")
		if peer >= 0 && r+3 >= tRound {
			clk.Advance(0)
			pp := prevSig
			if !chained {
				pp = nil
			}
			_, pf := c.states(peer)
			o.OldPart = try(c.lastOld[peer].KeyShare, r+1, pp)
			o.NewPart = try(pf.KeyShare, r+1, pp)
		}
		trace = append(trace, o)
	}
	return map[string]any{"op": "handover", "node": i, "peer": peer, "t_round": tRound, "target_round": tRound - 1, "trace": trace,
		"self_addr": nd.part.Address, "period": int64(period / time.Second), "genesis": og.GenesisTime, "transition": ng.TransitionTime,
		"info_hash": infoBefore, "old_chainhash": c.showGroup(&og).ChainHash, "new_chainhash": c.showGroup(&ng).ChainHash,
		"chained": chained, "shift": shift, "old_index": old.KeyShare.Share.I, "new_index": fin.KeyShare.Share.I}
}

type nopProtocolClient struct{ net.ProtocolClient }

// vgt: the real validateGroupTransition on (old group, new group) of a node, the new group perturbed in one field.
func (c *drNet) vgt(kv map[string]string) any {
	i := atoi(kv["node"])
	old := c.lastOld[i]
	_, fin := c.states(i)
	if old == nil || fin == nil || old.FinalGroup == nil {
		return map[string]any{"error": "no reshare to look at"}
	}
	ng := *fin.FinalGroup
	ng.Nodes = append([]*key.Node{}, fin.FinalGroup.Nodes...)
	now := ng.TransitionTime - 5
	switch kv["field"] {
	case "none", "asis":
	case "period":
		ng.Period += time.Second
	case "genesis":
		ng.GenesisTime++
	case "seed":
		ng.GenesisSeed = append(append([]byte{}, ng.GenesisSeed...), 1)
	case "id":
		ng.ID += "x"
	case "scheme":
		if ng.Scheme.Name == crypto.DefaultSchemeID {
			ng.Scheme = mustScheme(crypto.UnchainedSchemeID)
		} else {
			ng.Scheme = mustScheme(crypto.DefaultSchemeID)
		}
	case "past":
		now = ng.TransitionTime + 1
	case "threshold":
		ng.Threshold++
	default:
		return map[string]any{"error": "bad field"}
	}
	err := core.VerifValidateGroupTransition(quietLogger(), old.FinalGroup, &ng, now)
	out := "ok"
	if err != nil {
		m := err.Error()
		switch {
		case strings.Contains(m, "different genesis time"):
			out = "genesis-time"
		case strings.Contains(m, "different period"):
			out = "period"
		case strings.Contains(m, "different ID"):
			out = "id"
		case strings.Contains(m, "different genesis seed"):
			out = "seed"
		case strings.Contains(m, "transition time in the past"):
			out = "past"
		default:
			out = "other:" + m
		}
	}
	return map[string]any{"op": "vgt", "field": kv["field"], "outcome": out, "old": c.showGroup(old.FinalGroup), "new": c.showGroup(&ng), "now": now}
}

// a process that stops making progress is wedged: say where (all goroutine stacks), instead of hanging the check
var stageMu sync.Mutex
var stageName = "start"
var stageSince = time.Now()

func setStage(s string) {
	stageMu.Lock()
	stageName, stageSince = s, time.Now()
	stageMu.Unlock()
}

func dkgrunEngine(_ []string, in *bufio.Scanner, out *bufio.Writer) {
	e := &drEngine{}
	go func() {
		for {
			time.Sleep(2 * time.Second)
			stageMu.Lock()
			name, since := stageName, stageSince
			stageMu.Unlock()
			if name != "between ops" && time.Since(since) > 240*time.Second {
				buf := make([]byte, 1<<22)
				n := runtime.Stack(buf, true)
				fmt.Fprintf(os.Stderr, "dkgrun: no progress for 240 s in stage %q\n%s\n", name, buf[:n])
				b, _ := json.Marshal(map[string]any{"error": "op-timeout", "stage": name})
				out.Write(b)
				out.WriteByte('\n')
				out.Flush()
				os.Exit(3)
			}
		}
	}()
	defer func() {
		// end of the script: nothing to shut down gracefully, the process goes away
		setStage("final cleanup")
		if e.base != "" {
			os.RemoveAll(e.base)
		}
		out.Flush()
		os.Exit(0)
	}()
	for in.Scan() {
		f := fields(in.Text())
		if len(f) == 0 {
			continue
		}
		var js []byte
		setStage("op: " + in.Text())
		r := safely(func() string {
			var v any
			switch f[0] {
			case "net":
				v = e.mkNet(f)
			case "initial", "reshare":
				v = e.net.runEpoch(f[0], parseKV(f[1:]))
			case "abort":
				kv := parseKV(f[1:])
				st := map[string]string{}
				for _, i := range parseIdx(kv["nodes"]) {
					st[strconv.Itoa(i)] = e.net.cmd(i, &pdkg.DKGCommand{Command: &pdkg.DKGCommand_Abort{Abort: &pdkg.AbortOptions{}}})
				}
				time.Sleep(200 * time.Millisecond)
				m := map[string]any{}
				for _, n := range e.net.nodes {
					cur, fin := e.net.states(n.i)
					m[strconv.Itoa(n.i)] = map[string]any{"cur": e.net.showState(cur, n), "fin": e.net.showState(fin, n)}
				}
				v = map[string]any{"op": "abort", "outcome": st, "nodes": m}
			case "handover":
				v = e.net.handover(parseKV(f[1:]))
			case "vgt":
				v = e.net.vgt(parseKV(f[1:]))
			case "dump":
				m := map[string]any{}
				for _, n := range e.net.nodes {
					cur, fin := e.net.states(n.i)
					m[strconv.Itoa(n.i)] = map[string]any{"cur": e.net.showState(cur, n), "fin": e.net.showState(fin, n)}
				}
				v = map[string]any{"op": "dump", "nodes": m}
			default:
				v = map[string]any{"error": "bad-op"}
			}
			b, err := json.Marshal(v)
			if err != nil {
				return "panic:json " + err.Error()
			}
			js = b
			return ""
		})
		setStage("between ops")
		if r != "" {
			js, _ = json.Marshal(map[string]any{"error": r})
		}
		out.Write(js)
		out.WriteByte('\n')
		out.Flush()
	}
}

var _ = share.NewPubPoly
var _ chain.Store = (*memdb.Store)(nil)
