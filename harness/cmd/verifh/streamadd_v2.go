//go:build verif && cbremover

package main

// Trees whose AddStreamCallback returns the remover of the registration it made (reports/cb_fix_2.diff).

import "github.com/drand/drand/v2/internal/chain/beacon"

type streamAdder interface {
	AddStreamCallback(id string, fn beacon.CallbackFunc) func()
}

func addStreamCallback(st beacon.CallbackStore, id string, fn beacon.CallbackFunc) func() {
	return st.(streamAdder).AddStreamCallback(id, fn)
}

func (g *gatingStore) AddStreamCallback(id string, fn beacon.CallbackFunc) func() {
	var remove func()
	g.register(id, fn, func(id string, fn beacon.CallbackFunc) { remove = addStreamCallback(g.CallbackStore, id, fn) })
	return remove
}
