//go:build verif

package main

// codec: C20 — persisted and transmitted state round-trips without loss.
//
//   verifh codec <seed> <count>   generator mode (stdin ignored). Per scheme × case it builds a group of 1..10 nodes,
//                                 a share, a key pair, a chain info, beacons and a DKG state in every status, with
//                                 EVERY field populated (reflection: fillZero/assertNoZero) or with optional fields
//                                 absent, and drives the REAL encode→decode paths (TOML, JSON, protobuf wire, key
//                                 files, BoltStore). Lines:
//     SCHEMES\t<name,…>                                             crypto.ListSchemes()
//     RT\t<case>\t<codec>\t<before dump>\t<ok dump | err:class>\t<extras>
//     MIR\t<case>\t<group-toml|group-proto>\t<mirror dump>          (seed material for the malformed stream)
//   verifh codec ops              one op per stdin line:
//     dec group-toml  <GroupTOML dump tokens…>                      → ok <Group dump> | err:<class>
//     dec group-proto <GroupPacket dump tokens…> [target=<hexname>] → ok <Group dump> | err:<class>
//     pointok <hexname> <hex>…                                      → true|false per byte string (label helper)
//
// A dump is a reflection walk over every exported field: `Path.To.Field=value` tokens, strings and bytes in hex
// (`-` empty, `nil` nil), points/scalars as MarshalBinary hex, schemes by name, times as unix/nsec/offset.

import (
	"bufio"
	"bytes"
	"encoding"
	"encoding/json"
	"fmt"
	"os"
	"reflect"
	"sort"
	"strconv"
	"strings"
	"time"

	"github.com/BurntSushi/toml"
	"google.golang.org/protobuf/proto"

	"github.com/drand/drand/v2/common"
	"github.com/drand/drand/v2/common/chain"
	"github.com/drand/drand/v2/common/key"
	"github.com/drand/drand/v2/crypto"
	"github.com/drand/drand/v2/internal/chain/beacon"
	"github.com/drand/drand/v2/internal/dkg"
	pdkg "github.com/drand/drand/v2/protobuf/dkg"
	pdrand "github.com/drand/drand/v2/protobuf/drand"
	"github.com/drand/kyber"
	"github.com/drand/kyber/share"
	kdkg "github.com/drand/kyber/share/dkg"
	"github.com/drand/kyber/util/random"
)

func init() { engines["codec"] = codecEngine }

// plantStaleTmp puts a long, undecodable "<file>.tmp" next to each file of a key store folder: what a run that died
// inside a Save may have left behind. Whatever way Save writes its files, what is loaded afterwards must be exactly
// what was saved (a Save that goes through a temporary file must not inherit the leftover's bytes).
func plantStaleTmp(base, beaconID string) {
	junk := bytes.Repeat([]byte("Stale = \"left by an interrupted save\"\n[[[\n"), 300)
	for _, f := range []string{"groups/drand_group.toml", "groups/dist_key.private", "key/drand_id.private", "key/drand_id.public"} {
		_ = os.WriteFile(base+"/"+beaconID+"/"+f+".tmp", junk, 0o600)
	}
}

var (
	pointT  = reflect.TypeOf((*kyber.Point)(nil)).Elem()
	scalarT = reflect.TypeOf((*kyber.Scalar)(nil)).Elem()
	schemeT = reflect.TypeOf((*crypto.Scheme)(nil))
	timeT   = reflect.TypeOf(time.Time{})
	durT    = reflect.TypeOf(time.Duration(0))
)

func hs(s string) string { return hx([]byte(s)) }

func hxNil(b []byte) string {
	if b == nil {
		return "nil"
	}
	return hx(b)
}

// ---------------------------------------------------------------- reflective dump

func dumpVal(v reflect.Value, path string, out *[]string) {
	t := v.Type()
	emit := func(p, val string) { *out = append(*out, p+"="+val) }
	switch t {
	case pointT, scalarT:
		if v.IsNil() {
			emit(path, "nil")
			return
		}
		b, err := v.Interface().(encoding.BinaryMarshaler).MarshalBinary()
		if err != nil {
			panic(fmt.Sprintf("dump %s: %v", path, err))
		}
		emit(path, hx(b))
		return
	case schemeT:
		if v.IsNil() {
			emit(path, "nil")
		} else {
			emit(path, hs(v.Interface().(*crypto.Scheme).Name))
		}
		return
	case timeT:
		tm := v.Interface().(time.Time)
		_, off := tm.Zone()
		emit(path+".unix", strconv.FormatInt(tm.Unix(), 10))
		emit(path+".nsec", strconv.Itoa(tm.Nanosecond()))
		emit(path+".off", strconv.Itoa(off))
		return
	case durT:
		emit(path, strconv.FormatInt(v.Int(), 10))
		return
	}
	switch v.Kind() {
	case reflect.String:
		emit(path, hs(v.String()))
	case reflect.Bool:
		emit(path, strconv.FormatBool(v.Bool()))
	case reflect.Int, reflect.Int8, reflect.Int16, reflect.Int32, reflect.Int64:
		emit(path, strconv.FormatInt(v.Int(), 10))
	case reflect.Uint, reflect.Uint8, reflect.Uint16, reflect.Uint32, reflect.Uint64:
		emit(path, strconv.FormatUint(v.Uint(), 10))
	case reflect.Slice:
		if t.Elem().Kind() == reflect.Uint8 {
			emit(path, hxNil(v.Bytes()))
			return
		}
		emit(path+".len", strconv.Itoa(v.Len()))
		for i := 0; i < v.Len(); i++ {
			dumpVal(v.Index(i), path+"."+strconv.Itoa(i), out)
		}
	case reflect.Ptr:
		if v.IsNil() {
			emit(path, "nil")
			return
		}
		dumpVal(v.Elem(), path, out)
	case reflect.Struct:
		for i := 0; i < t.NumField(); i++ {
			f := t.Field(i)
			if f.PkgPath != "" { // unexported (protobuf internals)
				continue
			}
			p := f.Name
			if path != "" {
				p = path + "." + f.Name
			}
			dumpVal(v.Field(i), p, out)
		}
	default:
		panic(fmt.Sprintf("dump %s: unsupported kind %s (%s)", path, v.Kind(), t))
	}
}

func dumpStr(x interface{}) string {
	var out []string
	dumpVal(reflect.ValueOf(x), "", &out)
	return strings.Join(out, " ")
}

// ---------------------------------------------------------------- reflective fill: every field non-zero

type fillCtx struct {
	r   *rng
	sch *crypto.Scheme
}

// zero is a legitimate, generator-chosen value for these (node index 0 exists; indices must stay distinct)
var keepZeroSuffix = []string{".Index"}

// fillZero gives every zero-valued exported field under v a non-zero value of its kind (v must be addressable).
func (c *fillCtx) fillZero(v reflect.Value, path string) {
	t := v.Type()
	for _, suf := range keepZeroSuffix {
		if strings.HasSuffix(path, suf) {
			return
		}
	}
	switch t {
	case pointT:
		if v.IsNil() {
			v.Set(reflect.ValueOf(c.sch.KeyGroup.Point().Pick(random.New())))
		}
		return
	case scalarT:
		if v.IsNil() {
			v.Set(reflect.ValueOf(c.sch.KeyGroup.Scalar().Pick(random.New())))
		}
		return
	case schemeT:
		if v.IsNil() {
			v.Set(reflect.ValueOf(c.sch))
		}
		return
	case timeT:
		if v.Interface().(time.Time).IsZero() {
			v.Set(reflect.ValueOf(time.Unix(int64(1600000000+c.r.below(100000000)), int64(1+c.r.below(999999999))).UTC()))
		}
		return
	case durT:
		if v.Int() == 0 {
			v.SetInt(int64(time.Duration(1+c.r.below(90)) * time.Second))
		}
		return
	}
	switch v.Kind() {
	case reflect.String:
		if v.String() == "" {
			v.SetString("f" + strconv.Itoa(c.r.below(1000)))
		}
	case reflect.Bool:
		v.SetBool(true)
	case reflect.Int, reflect.Int8, reflect.Int16, reflect.Int32, reflect.Int64:
		if v.Int() == 0 {
			v.SetInt(int64(1 + c.r.below(50)))
		}
	case reflect.Uint, reflect.Uint8, reflect.Uint16, reflect.Uint32, reflect.Uint64:
		if v.Uint() == 0 {
			v.SetUint(uint64(1 + c.r.below(50)))
		}
	case reflect.Slice:
		if t.Elem().Kind() == reflect.Uint8 {
			if v.Len() == 0 {
				v.SetBytes(c.r.bytes(1 + c.r.below(8)))
			}
			return
		}
		if v.Len() == 0 {
			v.Set(reflect.MakeSlice(t, 1, 1))
		}
		for i := 0; i < v.Len(); i++ {
			c.fillZero(v.Index(i), path+"."+strconv.Itoa(i))
		}
	case reflect.Ptr:
		if v.IsNil() {
			v.Set(reflect.New(t.Elem()))
		}
		c.fillZero(v.Elem(), path)
	case reflect.Struct:
		for i := 0; i < t.NumField(); i++ {
			if t.Field(i).PkgPath != "" {
				continue
			}
			c.fillZero(v.Field(i), path+"."+t.Field(i).Name)
		}
	default:
		panic(fmt.Sprintf("fill %s: unsupported kind %s (%s)", path, v.Kind(), t))
	}
}

// zeroFields lists the exported fields under v that still hold their zero value.
func zeroFields(v reflect.Value, path string, out *[]string) {
	t := v.Type()
	switch t {
	case pointT, scalarT, schemeT:
		if v.IsNil() {
			*out = append(*out, path)
		}
		return
	case timeT:
		if v.Interface().(time.Time).IsZero() {
			*out = append(*out, path)
		}
		return
	}
	switch v.Kind() {
	case reflect.Ptr:
		if v.IsNil() {
			*out = append(*out, path)
			return
		}
		zeroFields(v.Elem(), path, out)
	case reflect.Slice:
		if v.Len() == 0 {
			*out = append(*out, path)
			return
		}
		if t.Elem().Kind() != reflect.Uint8 {
			for i := 0; i < v.Len(); i++ {
				zeroFields(v.Index(i), path+"."+strconv.Itoa(i), out)
			}
		}
	case reflect.Struct:
		for i := 0; i < t.NumField(); i++ {
			if t.Field(i).PkgPath != "" {
				continue
			}
			zeroFields(v.Field(i), path+"."+t.Field(i).Name, out)
		}
	default:
		if v.IsZero() {
			*out = append(*out, path)
		}
	}
}

// mustBeFull panics when a field of x is still zero (allowed: paths with one of the given suffixes).
func mustBeFull(x interface{}, allowed ...string) {
	var z []string
	zeroFields(reflect.ValueOf(x), "", &z)
	var bad []string
	for _, p := range z {
		ok := false
		for _, a := range allowed {
			if strings.HasSuffix(p, a) {
				ok = true
			}
		}
		if !ok {
			bad = append(bad, p)
		}
	}
	if len(bad) > 0 {
		panic("generator left zero-valued fields: " + strings.Join(bad, ","))
	}
}

// ---------------------------------------------------------------- reflective undump (mirrors only: plain kinds)

func undump(v reflect.Value, path string, m map[string]string) {
	t := v.Type()
	get := func(p string) string {
		s, ok := m[p]
		if !ok {
			panic("op lacks " + p)
		}
		return s
	}
	switch v.Kind() {
	case reflect.String:
		v.SetString(string(unhxNil(get(path))))
	case reflect.Bool:
		v.SetBool(get(path) == "true")
	case reflect.Int, reflect.Int8, reflect.Int16, reflect.Int32, reflect.Int64:
		n, err := strconv.ParseInt(get(path), 10, 64)
		if err != nil {
			panic(err)
		}
		v.SetInt(n)
	case reflect.Uint, reflect.Uint8, reflect.Uint16, reflect.Uint32, reflect.Uint64:
		n, err := strconv.ParseUint(get(path), 10, 64)
		if err != nil {
			panic(err)
		}
		v.SetUint(n)
	case reflect.Slice:
		if t.Elem().Kind() == reflect.Uint8 {
			s := get(path)
			if s == "nil" {
				return
			}
			b := unhxNil(s)
			if b == nil {
				b = []byte{}
			}
			v.SetBytes(b)
			return
		}
		n, err := strconv.Atoi(get(path + ".len"))
		if err != nil {
			panic(err)
		}
		v.Set(reflect.MakeSlice(t, n, n))
		for i := 0; i < n; i++ {
			undump(v.Index(i), path+"."+strconv.Itoa(i), m)
		}
	case reflect.Ptr:
		if s, ok := m[path]; ok && s == "nil" {
			return
		}
		v.Set(reflect.New(t.Elem()))
		undump(v.Elem(), path, m)
	case reflect.Struct:
		for i := 0; i < t.NumField(); i++ {
			f := t.Field(i)
			if f.PkgPath != "" {
				continue
			}
			p := f.Name
			if path != "" {
				p = path + "." + f.Name
			}
			undump(v.Field(i), p, m)
		}
	default:
		panic(fmt.Sprintf("undump %s: unsupported kind %s", path, v.Kind()))
	}
}

func unhxNil(s string) []byte {
	if s == "-" || s == "nil" {
		return nil
	}
	return unhx(s)
}

// ---------------------------------------------------------------- error classes

var codecErrTable = []struct{ sub, class string }{
	{"encoding/hex", "bad-hex"},
	{"mismatch in Scheme name", "scheme-mismatch"},
	{"invalid scheme name", "bad-scheme"},
	{"unable to instantiate group with crypto Scheme", "bad-scheme"},
	{"invalid Scheme name in GroupPacket", "bad-scheme"},
	{"invalid Scheme in IdentityFromProto", "nil-scheme"},
	{"group file has threshold 0", "threshold-low"},
	{"(minimum)", "threshold-low"},
	{"threshold greater than number of participants", "threshold-high"},
	{"is greater than the number of nodes", "threshold-high"},
	{"genesis time zero", "genesis-zero"},
	{"period time is zero", "period-zero"},
	{"public coefficient length", "coeff-len"},
	{"chain hash mismatch", "hash-mismatch"},
	{"not a v2 info string", "bad-json"},
	{"time: ", "bad-duration"},
	{"missing port in address", "bad-addr"},
	{"too many colons in address", "bad-addr"},
	{"share.Share corrupted", "bad-scalar"},
	{"decoding public key", "bad-point"},
	{"unwrapping distributed public key", "bad-point"},
	{"could not unmarshal key", "bad-point"},
	{"invalid distributed key coefficients", "bad-point"},
	{"invalid public key", "bad-point"},
	{"share.Commit", "bad-point"},
}

func codecErr(err error) string {
	msg := err.Error()
	for _, e := range codecErrTable {
		if strings.Contains(msg, e.sub) {
			return "err:" + e.class
		}
	}
	return "err:other:" + strings.ReplaceAll(strings.ReplaceAll(msg, "\t", " "), "\n", " ")
}

// ---------------------------------------------------------------- generators

func genParticipant(id *key.Identity) *pdkg.Participant {
	return &pdkg.Participant{Address: id.Addr, Key: pointBytes(id.Key), Signature: append([]byte{}, id.Signature...)}
}

// genFullGroup: a group with every field set (threshold in range, dist key of `threshold` coefficients, seed, transition).
func genFullGroup(c *fillCtx, n int) *key.Group {
	g := genGroup(c.r, c.sch, n)
	if g.PublicKey == nil {
		coeffs := make([]kyber.Point, g.Threshold)
		for i := range coeffs {
			coeffs[i] = c.sch.KeyGroup.Point().Pick(random.New())
		}
		g.PublicKey = &key.DistPublic{Coefficients: coeffs}
	}
	if g.ID == "" {
		g.ID = "beacon-" + strconv.Itoa(c.r.below(100))
	}
	c.fillZero(reflect.ValueOf(g).Elem(), "Group")
	// node index 0 is a legitimate value
	mustBeFull(g, ".Index")
	return g
}

func genShare(c *fillCtx, g *key.Group) *key.Share {
	commits := make([]kyber.Point, g.Threshold)
	for i := range commits {
		commits[i] = c.sch.KeyGroup.Point().Pick(random.New())
	}
	s := &key.Share{
		DistKeyShare: kdkg.DistKeyShare{Commits: commits, Share: &share.PriShare{I: 1 + c.r.below(40), V: c.sch.KeyGroup.Scalar().Pick(random.New())}},
		Scheme:       c.sch,
	}
	c.fillZero(reflect.ValueOf(s).Elem(), "Share")
	mustBeFull(s)
	return s
}

var allStatuses = []dkg.Status{dkg.Fresh, dkg.Proposed, dkg.Proposing, dkg.Accepted, dkg.Rejected, dkg.Aborted, dkg.Executing,
	dkg.Complete, dkg.TimedOut, dkg.Joined, dkg.Left, dkg.Failed}

func genDBState(c *fillCtx, g *key.Group, sh *key.Share, status dkg.Status, beaconID string) *dkg.DBState {
	var ps []*pdkg.Participant
	for _, n := range g.Nodes {
		ps = append(ps, genParticipant(n.Identity))
	}
	zone := time.FixedZone("", 3600*(c.r.below(5)-2))
	d := &dkg.DBState{
		BeaconID:      beaconID,
		Epoch:         uint32(1 + c.r.below(9)),
		State:         status,
		Threshold:     uint32(g.Threshold),
		Timeout:       time.Unix(int64(1700000000+c.r.below(1000000)), int64(c.r.below(1000000000))).In(zone),
		SchemeID:      c.sch.Name,
		GenesisTime:   time.Unix(g.GenesisTime, 0).In(zone),
		GenesisSeed:   append([]byte{}, g.GetGenesisSeed()...),
		CatchupPeriod: g.CatchupPeriod,
		BeaconPeriod:  g.Period,
		Leader:        ps[0],
		Remaining:     ps[:(len(ps)+1)/2],
		Joining:       ps[len(ps)/2:],
		Leaving:       ps[:1],
		Acceptors:     ps[:(len(ps)+1)/2],
		Rejectors:     ps[len(ps)-1:],
		FinalGroup:    g,
		KeyShare:      sh,
	}
	// anything a later version adds to DBState gets a non-zero value of its kind here
	c.fillZero(reflect.ValueOf(d).Elem(), "DBState")
	d.State = status // Fresh is the zero value and a legitimate one
	if d.State == dkg.Fresh {
		mustBeFull(d, ".Index", ".State")
	} else {
		mustBeFull(d, ".Index")
	}
	return d
}

func copyState(d *dkg.DBState) *dkg.DBState {
	c := *d
	if d.FinalGroup != nil {
		c.FinalGroup = copyGroup(d.FinalGroup)
	}
	return &c
}

// ---------------------------------------------------------------- round trips through the real code

func tomlBytes(v interface{}) ([]byte, error) {
	var buf bytes.Buffer
	err := toml.NewEncoder(&buf).Encode(v)
	return buf.Bytes(), err
}

func rtIdentityTOML(i *key.Identity) (*key.Identity, error) {
	raw, err := tomlBytes(i.TOML())
	if err != nil {
		return nil, err
	}
	t := &key.PublicTOML{}
	if _, err := toml.Decode(string(raw), t); err != nil {
		return nil, err
	}
	out := new(key.Identity)
	return out, out.FromTOML(t)
}

func rtShareTOML(s *key.Share) (*key.Share, error) {
	raw, err := tomlBytes(s.TOML())
	if err != nil {
		return nil, err
	}
	t := &key.ShareTOML{}
	if _, err := toml.Decode(string(raw), t); err != nil {
		return nil, err
	}
	out := new(key.Share)
	return out, out.FromTOML(t)
}

func rtStateTOML(d *dkg.DBState) (*dkg.DBState, error) {
	raw, err := tomlBytes(d.TOML())
	if err != nil {
		return nil, err
	}
	t := dkg.DBStateTOML{}
	if _, err := toml.Decode(string(raw), &t); err != nil {
		return nil, err
	}
	return t.FromTOML()
}

func groupFromPacketBytes(pb *pdrand.GroupPacket, target *crypto.Scheme) (*key.Group, error) {
	raw, err := proto.Marshal(pb)
	if err != nil {
		return nil, err
	}
	back := new(pdrand.GroupPacket)
	if err := proto.Unmarshal(raw, back); err != nil {
		return nil, err
	}
	return key.GroupFromProto(back, target)
}

func groupFromTOMLMirror(gt *key.GroupTOML) (*key.Group, error) {
	raw, err := tomlBytes(gt)
	if err != nil {
		return nil, err
	}
	back := &key.GroupTOML{}
	if _, err := toml.Decode(string(raw), back); err != nil {
		return nil, err
	}
	out := new(key.Group)
	return out, out.FromTOML(back)
}

// ---------------------------------------------------------------- the engine

func codecEngine(args []string, in *bufio.Scanner, out *bufio.Writer) {
	if len(args) == 1 && args[0] == "ops" {
		codecOps(in, out)
		return
	}
	if len(args) != 2 {
		fmt.Fprintln(os.Stderr, "usage: codec <seed> <count> | codec ops")
		os.Exit(2)
	}
	seed, _ := strconv.ParseUint(args[0], 10, 64)
	count, _ := strconv.Atoi(args[1])
	r := &rng{s: seed}
	base := tmpDir()
	defer os.RemoveAll(base)
	store, err := dkg.NewDKGStore(base)
	if err != nil {
		panic(err)
	}
	defer store.Close()
	fmt.Fprintf(out, "SCHEMES\t%s\n", strings.Join(crypto.ListSchemes(), ","))
	emit := func(cs, codec, before string, after interface{}, err error, extras ...string) {
		outcome := ""
		if err != nil {
			outcome = codecErr(err)
		} else {
			outcome = "ok " + dumpStr(after)
		}
		fmt.Fprintf(out, "RT\t%s\t%s\t%s\t%s\t%s\n", cs, codec, before, outcome, strings.Join(extras, " "))
	}
	// run one round trip; a panic anywhere (dump, encode, decode) is the outcome
	try := func(cs, codec string, f func()) {
		defer func() {
			if e := recover(); e != nil {
				fmt.Fprintf(out, "RT\t%s\t%s\t-\tpanic:%s\t\n", cs, codec, strings.ReplaceAll(strings.ReplaceAll(fmt.Sprint(e), "\n", " "), "\t", " "))
			}
		}()
		f()
	}
	caseNo := 0
	for si, schName := range crypto.ListSchemes() {
		sch := mustScheme(schName)
		c := &fillCtx{r: r, sch: sch}
		for k := 0; k < count; k++ {
			caseNo++
			cs := fmt.Sprintf("%s/%d", schName, k)
			n := 1 + (k+2*si)%10
			if k >= 10 {
				n = 1 + r.below(10)
			}
			full := k%3 == 0
			g := genFullGroup(c, n)
			if !full {
				// optional fields absent, in random combination
				if r.below(2) == 0 {
					g.TransitionTime = 0
				}
				if r.below(2) == 0 {
					g.GenesisSeed = nil
				}
				if r.below(3) == 0 {
					g.PublicKey = nil
				}
				switch r.below(3) {
				case 0:
					g.ID = ""
				case 1:
					g.ID = "default"
				}
				switch r.below(4) {
				case 0:
					g.CatchupPeriod = 0
				case 1:
					g.CatchupPeriod += 500 * time.Millisecond // survives TOML, truncated to whole seconds on the wire
				}
				if r.below(4) == 0 {
					g.Nodes[r.below(len(g.Nodes))].Identity.Signature = nil
				}
			}
			sh := genShare(c, g)
			ghash := func(x *key.Group) string { return hx(copyGroup(x).Hash()) }

			// ---- group: TOML bytes, group file, protobuf wire
			groupExtras := func(ref, back *key.Group) []string {
				return []string{"equal=" + strconv.FormatBool(ref.Equal(back)), "hb=" + ghash(ref), "ha=" + ghash(back), "@ghash=" + ghash(ref)}
			}
			try(cs, "group-toml", func() {
				ref, x := copyGroup(g), copyGroup(g)
				before := dumpStr(x)
				fmt.Fprintf(out, "MIR\t%s\tgroup-toml\t%s\n", cs, dumpStr(copyGroup(g).TOML()))
				back, err := tomlRoundTripGroup(x)
				var ex []string
				if err == nil {
					ex = groupExtras(ref, back)
					// what is decoded must be what was written, whatever the receiver held before: decode the same document
					// into a Group that already carries ANOTHER scheme (the DKG database path pre-sets the scheme of the
					// group it decodes into) and into one whose document names an unknown scheme
					recv := "true"
					var buf bytes.Buffer
					if e := toml.NewEncoder(&buf).Encode(copyGroup(g).TOML()); e == nil {
						for _, name := range crypto.ListSchemes() {
							if name == g.Scheme.Name {
								continue
							}
							gt := &key.GroupTOML{}
							if _, e := toml.Decode(buf.String(), gt); e != nil {
								break
							}
							pre := &key.Group{Scheme: mustScheme(name)}
							if e := pre.FromTOML(gt); e == nil && pre.Scheme.Name != g.Scheme.Name {
								recv = "scheme-of-receiver-kept:" + name
							}
							gt2 := &key.GroupTOML{}
							_, _ = toml.Decode(buf.String(), gt2)
							gt2.SchemeID = "no-such-scheme"
							pre2 := &key.Group{Scheme: mustScheme(name)}
							if e := pre2.FromTOML(gt2); e == nil {
								recv = "unknown-scheme-accepted-into-preset-receiver"
							}
							break
						}
					}
					ex = append(ex, "recvindep="+recv)
				}
				emit(cs, "group-toml", before, back, err, ex...)
			})
			try(cs, "group-file", func() {
				ref, x := copyGroup(g), copyGroup(g)
				before := dumpStr(x)
				fsStore := key.NewFileStore(base, fmt.Sprintf("c%d", caseNo))
				plantStaleTmp(base, fmt.Sprintf("c%d", caseNo))
				err := fsStore.SaveGroup(x)
				var back *key.Group
				if err == nil {
					back, err = fsStore.LoadGroup()
				}
				var ex []string
				if err == nil {
					ex = groupExtras(ref, back)
				}
				emit(cs, "group-file", before, back, err, ex...)
			})
			for _, withTarget := range []bool{false, true} {
				codec := "group-proto"
				var target *crypto.Scheme
				if withTarget {
					codec, target = "group-proto-target", sch
				}
				try(cs, codec, func() {
					ref, x := copyGroup(g), copyGroup(g)
					before := dumpStr(x)
					pb := x.ToProto(common.GetAppVersion())
					if !withTarget {
						fmt.Fprintf(out, "MIR\t%s\tgroup-proto\t%s\n", cs, dumpStr(copyGroup(g).ToProto(common.GetAppVersion())))
					}
					back, err := groupFromPacketBytes(pb, target)
					var ex []string
					if err == nil {
						ex = groupExtras(ref, back)
					}
					emit(cs, codec, before, back, err, ex...)
				})
			}

			// ---- identity, node, share, key pair
			id0 := g.Nodes[0].Identity
			try(cs, "identity-toml", func() {
				before := dumpStr(id0)
				back, err := rtIdentityTOML(id0)
				var ex []string
				if err == nil {
					ex = []string{"equal=" + strconv.FormatBool(id0.Equal(back))}
				}
				emit(cs, "identity-toml", before, back, err, ex...)
			})
			try(cs, "identity-proto", func() {
				before := dumpStr(id0)
				raw, err := proto.Marshal(id0.ToProto())
				var back *key.Identity
				if err == nil {
					pb := new(pdrand.Identity)
					if err = proto.Unmarshal(raw, pb); err == nil {
						back, err = key.IdentityFromProto(pb, sch)
					}
				}
				var ex []string
				if err == nil {
					ex = []string{"equal=" + strconv.FormatBool(id0.Equal(back))}
				}
				emit(cs, "identity-proto", before, back, err, ex...)
			})
			try(cs, "share-toml", func() {
				before := dumpStr(sh)
				back, err := rtShareTOML(sh)
				emit(cs, "share-toml", before, back, err)
			})
			try(cs, "share-file", func() {
				before := dumpStr(sh)
				fsStore := key.NewFileStore(base, fmt.Sprintf("c%d", caseNo))
				plantStaleTmp(base, fmt.Sprintf("c%d", caseNo))
				err := fsStore.SaveShare(sh)
				var back *key.Share
				if err == nil {
					back, err = fsStore.LoadShare()
				}
				emit(cs, "share-file", before, back, err)
			})
			try(cs, "pair-file", func() {
				p, err := key.NewKeyPair(fmt.Sprintf("10.0.%d.%d:%d", r.below(250), r.below(250), 1000+r.below(60000)), sch)
				if err != nil {
					panic(err)
				}
				c.fillZero(reflect.ValueOf(p).Elem(), "Pair")
				mustBeFull(p)
				before := dumpStr(p)
				fsStore := key.NewFileStore(base, fmt.Sprintf("c%d", caseNo))
				plantStaleTmp(base, fmt.Sprintf("c%d", caseNo))
				err = fsStore.SaveKeyPair(p)
				var back *key.Pair
				if err == nil {
					back, err = fsStore.LoadKeyPair()
				}
				emit(cs, "pair-file", before, back, err)
			})

			// ---- chain info
			if g.PublicKey != nil {
				info := chain.NewChainInfo(copyGroup(g))
				c.fillZero(reflect.ValueOf(info).Elem(), "Info")
				if !full && common.IsDefaultBeaconID(g.ID) {
					info.ID = g.ID
				}
				infoExtras := func(back *chain.Info) []string {
					return []string{"equal=" + strconv.FormatBool(info.Equal(back)), "hb=" + hx(info.Hash()), "ha=" + hx(back.Hash()), "@chash=" + hx(info.Hash())}
				}
				try(cs, "info-json", func() {
					before := dumpStr(info)
					raw, err := json.Marshal(info)
					back := new(chain.Info)
					if err == nil {
						err = json.Unmarshal(raw, back)
					}
					var ex []string
					if err == nil {
						ex = infoExtras(back)
						// "equal parameters give equal encodings in every encoding path": the same value handed to
						// encoding/json by value, as a struct field, as a slice and as a map element
						same := "true"
						if v, e := json.Marshal(*info); e != nil || !bytes.Equal(v, raw) {
							same = "by-value"
						} else if v, e := json.Marshal(struct{ I chain.Info }{*info}); e != nil || string(v) != `{"I":`+string(raw)+`}` {
							same = "struct-field"
						} else if v, e := json.Marshal([]chain.Info{*info}); e != nil || string(v) != `[`+string(raw)+`]` {
							same = "slice-element"
						} else if v, e := json.Marshal(map[string]chain.Info{"i": *info}); e != nil || string(v) != `{"i":`+string(raw)+`}` {
							same = "map-element"
						}
						ex = append(ex, "sameenc="+same)
					}
					emit(cs, "info-json", before, back, err, ex...)
				})
				try(cs, "info-proto", func() {
					before := dumpStr(info)
					raw, err := proto.Marshal(info.ToProto(nil))
					var back *chain.Info
					if err == nil {
						pb := new(pdrand.ChainInfoPacket)
						if err = proto.Unmarshal(raw, pb); err == nil {
							back, err = chain.InfoFromProto(pb)
						}
					}
					var ex []string
					if err == nil {
						ex = infoExtras(back)
					}
					emit(cs, "info-proto", before, back, err, ex...)
				})
				try(cs, "info-hexjson", func() {
					before := dumpStr(info)
					var buf bytes.Buffer
					err := info.ToJSON(&buf, nil)
					var back *chain.Info
					if err == nil {
						back, err = chain.InfoFromJSON(&buf)
					}
					var ex []string
					if err == nil {
						ex = infoExtras(back)
					}
					emit(cs, "info-hexjson", before, back, err, ex...)
				})
			}

			// ---- beacons with arbitrary byte strings
			for bi := 0; bi < 2; bi++ {
				b := &common.Beacon{Round: uint64(1 + r.below(1<<30)), Signature: r.bytes(1 + r.below(96)), PreviousSig: r.bytes(1 + r.below(96))}
				if bi == 1 {
					switch r.below(3) {
					case 0:
						b.PreviousSig = nil
					case 1:
						b.PreviousSig = []byte{}
					}
					if r.below(4) == 0 {
						b.Round = ^uint64(0) - uint64(r.below(3))
					}
				} else {
					mustBeFull(b)
				}
				try(cs, "beacon-json", func() {
					before := dumpStr(b)
					raw, err := b.Marshal()
					back := new(common.Beacon)
					if err == nil {
						err = back.Unmarshal(raw)
					}
					var ex []string
					if err == nil {
						ex = []string{"equal=" + strconv.FormatBool(b.Equal(back))}
					}
					emit(cs, "beacon-json", before, back, err, ex...)
				})
				try(cs, "beacon-proto", func() {
					before := dumpStr(b)
					raw, err := proto.Marshal(beacon.VerifBeaconToProto(b, g.ID))
					var back *common.Beacon
					if err == nil {
						pb := new(pdrand.BeaconPacket)
						if err = proto.Unmarshal(raw, pb); err == nil {
							back = beacon.VerifProtoToBeacon(pb)
						}
					}
					var ex []string
					if err == nil {
						ex = []string{"equal=" + strconv.FormatBool(b.Equal(back))}
					}
					emit(cs, "beacon-proto", before, back, err, ex...)
				})
			}

			// ---- DKG state: every status, with and without final group / share
			status := allStatuses[(k+si)%len(allStatuses)]
			d := genDBState(c, copyGroup(g), sh, status, "b"+strconv.Itoa(caseNo))
			if !full {
				if r.below(2) == 0 {
					d.FinalGroup = nil
				}
				if r.below(2) == 0 {
					d.KeyShare = nil
				}
				switch r.below(4) {
				case 0:
					d.Leader = nil
				case 1:
					d.Remaining, d.Leaving, d.Rejectors = nil, nil, nil
				case 2:
					d.GenesisSeed = nil
				}
				if d.FinalGroup == nil && r.below(2) == 0 {
					d.SchemeID = ""
				}
			}
			stateExtras := func(ref, back *dkg.DBState) []string {
				ex := []string{"equals=" + strconv.FormatBool(ref.Equals(back))}
				if ref.FinalGroup != nil {
					ex = append(ex, "@ghash="+ghash(ref.FinalGroup))
					if back != nil && back.FinalGroup != nil {
						ex = append(ex, "hb="+ghash(ref.FinalGroup), "ha="+ghash(back.FinalGroup))
					}
				}
				return ex
			}
			try(cs, "dbstate-toml", func() {
				ref, x := copyState(d), copyState(d)
				before := dumpStr(x)
				back, err := rtStateTOML(x)
				var ex []string
				if err == nil {
					ex = stateExtras(ref, back)
				}
				emit(cs, "dbstate-toml", before, back, err, ex...)
			})
			try(cs, "dbstate-bolt-current", func() {
				ref, x := copyState(d), copyState(d)
				before := dumpStr(x)
				err := store.SaveCurrent(x.BeaconID, x)
				var back *dkg.DBState
				if err == nil {
					back, err = store.GetCurrent(x.BeaconID)
				}
				var ex []string
				if err == nil {
					ex = stateExtras(ref, back)
				}
				emit(cs, "dbstate-bolt-current", before, back, err, ex...)
			})
			try(cs, "dbstate-bolt-finished", func() {
				ref, x := copyState(d), copyState(d)
				x.BeaconID += "f"
				ref.BeaconID += "f"
				before := dumpStr(x)
				err := store.SaveFinished(x.BeaconID, x)
				var back, cur *dkg.DBState
				if err == nil {
					back, err = store.GetFinished(x.BeaconID)
				}
				if err == nil {
					cur, err = store.GetCurrent(x.BeaconID)
				}
				var ex []string
				if err == nil {
					ex = stateExtras(ref, back)
					ex = append(ex, "current_same="+strconv.FormatBool(dumpStr(cur) == dumpStr(back)))
				}
				emit(cs, "dbstate-bolt-finished", before, back, err, ex...)
			})
		}
	}
}

// codecOps: decode-only ops on mirrors (malformed stream, corpus, replay).
func codecOps(in *bufio.Scanner, out *bufio.Writer) {
	for in.Scan() {
		f := fields(in.Text())
		if len(f) == 0 {
			continue
		}
		res := safely(func() string {
			if len(f) >= 2 && f[0] == "pointok" {
				// label helper, independent of the decoders: does kyber accept these bytes as a key-group point of the scheme?
				sch, err := crypto.SchemeFromName(string(unhxNil(f[1])))
				if err != nil {
					return "no-scheme"
				}
				var res []string
				for _, p := range f[2:] {
					res = append(res, strconv.FormatBool(sch.KeyGroup.Point().UnmarshalBinary(unhxNil(p)) == nil))
				}
				return strings.Join(res, " ")
			}
			if len(f) < 2 || f[0] != "dec" {
				return "bad-op"
			}
			m := map[string]string{}
			for _, tok := range f[2:] {
				i := strings.IndexByte(tok, '=')
				if i < 0 {
					return "bad-op"
				}
				m[tok[:i]] = tok[i+1:]
			}
			switch f[1] {
			case "group-toml":
				gt := &key.GroupTOML{}
				undump(reflect.ValueOf(gt).Elem(), "", m)
				g, err := groupFromTOMLMirror(gt)
				if err != nil {
					return codecErr(err)
				}
				return "ok " + dumpStr(g)
			case "group-proto":
				pb := &pdrand.GroupPacket{}
				undump(reflect.ValueOf(pb).Elem(), "", m)
				var target *crypto.Scheme
				if t, ok := m["target"]; ok {
					target = mustScheme(string(unhxNil(t)))
				}
				g, err := groupFromPacketBytes(pb, target)
				if err != nil {
					return codecErr(err)
				}
				return "ok " + dumpStr(g)
			}
			return "bad-op"
		})
		fmt.Fprintln(out, res)
		out.Flush()
	}
}

var _ = sort.Strings
