//go:build verif

package main

// Engine "stream" (C11): the real beacon.SyncChain on a real callbackStore(appendStore(schemeStore(base)))
// with every step of the stream under script control. A gating store wrapper stops the SyncChain goroutine
// before Last, before Cursor and before AddCallback; a gating SyncStream stops every Send until the script
// releases it. Store appends are issued by the script between those gates, so every placement of a Put
// relative to the scan steps and to the registration is forced, not hoped for.

import (
	"bufio"
	"bytes"
	"context"
	"errors"
	"fmt"
	"net"
	"os"
	"path/filepath"
	"strconv"
	"strings"
	"sync/atomic"
	"time"

	"google.golang.org/grpc"
	"google.golang.org/grpc/peer"

	"github.com/drand/drand/v2/common"
	"github.com/drand/drand/v2/crypto"
	"github.com/drand/drand/v2/internal/chain"
	"github.com/drand/drand/v2/internal/chain/beacon"
	"github.com/drand/drand/v2/internal/chain/boltdb"
	chainerrors "github.com/drand/drand/v2/internal/chain/errors"
	"github.com/drand/drand/v2/internal/chain/memdb"
	"github.com/drand/drand/v2/internal/core"
	"github.com/drand/drand/v2/protobuf/drand"
)

func init() { engines["stream"] = streamEngine }

var errScriptSend = errors.New("verif: scripted send error")

const streamBeaconID = "default"

type sEvent struct {
	kind  string // gate-last | gate-open | gate-register | send | registered | returned
	b     *common.Beacon
	extra string
	err   error
}

type sStream struct {
	sid      string
	ev       chan sEvent
	rel      chan error
	pending  *sEvent
	sent     []*common.Beacon
	cancel   context.CancelFunc
	inflight int32
	jobs     atomic.Pointer[beacon.VerifJobChan]
	cbid     string
	// wait hint only: jobs the store should have queued for this stream's channel (one per Put issued while its
	// channel was the one registered under cbid, one for a close signal) against callbacks entered. It never changes
	// what is observed, only how long deliver waits before it answers "none".
	expected int32
	entered  int32
	closed   int32 // the callback was invoked with the close signal
	lastSeen int32 // SyncChain has called store.Last once
	sut      *streamSUT
	live     bool
	returned bool
}

func (s *sStream) gate(kind string) {
	s.ev <- sEvent{kind: kind}
	<-s.rel
}

func (s *sStream) onSend(b *common.Beacon, extra string) error {
	s.ev <- sEvent{kind: "send", b: b, extra: extra}
	return <-s.rel
}

// gatingStore is the CallbackStore handed to SyncChain: the real one plus three gates.
type gatingStore struct {
	beacon.CallbackStore
	s *sStream
}

func (g *gatingStore) Last(ctx context.Context) (*common.Beacon, error) {
	// only SyncChain's first look at the head is a gate (a repaired hand-over that reads the head again after
	// AddCallback is not held there: what it sends shows up at the Send gate like everything else)
	if atomic.CompareAndSwapInt32(&g.s.lastSeen, 0, 1) {
		g.s.gate("gate-last")
	}
	return g.CallbackStore.Last(ctx)
}

func (g *gatingStore) Cursor(ctx context.Context, fn func(context.Context, chain.Cursor) error) error {
	g.s.gate("gate-open")
	return g.CallbackStore.Cursor(ctx, fn)
}

func (g *gatingStore) AddCallback(id string, fn beacon.CallbackFunc) {
	g.register(id, fn, g.CallbackStore.AddCallback)
}

// gatingStore.AddStreamCallback — what SyncChain calls on a tree whose callbackStore knows stream consumers — is in
// streamadd_v1.go / streamadd_v2.go (the method's result type differs between the two shapes of the store's API).

func (g *gatingStore) register(id string, fn beacon.CallbackFunc, add func(string, beacon.CallbackFunc)) {
	g.s.gate("gate-register")
	if old := g.s.sut.owner(id); old != nil {
		atomic.AddInt32(&old.expected, 1) // the close signal
	}
	g.s.cbid = id
	add(id, func(b *common.Beacon, closed bool) {
		atomic.AddInt32(&g.s.inflight, 1)
		if closed {
			atomic.StoreInt32(&g.s.closed, 1)
		}
		atomic.AddInt32(&g.s.entered, 1)
		defer atomic.AddInt32(&g.s.inflight, -1)
		fn(b, closed)
	})
	g.s.jobs.Store(beacon.VerifJobChanOf(g.CallbackStore, id))
	g.s.ev <- sEvent{kind: "registered"}
}

// the protocol-level stream (drand.Protocol_SyncChainServer is only used through beacon.SyncStream)
type scriptSyncStream struct {
	ctx context.Context
	s   *sStream
}

func (t *scriptSyncStream) Context() context.Context { return t.ctx }
func (t *scriptSyncStream) Send(p *drand.BeaconPacket) error {
	extra := ""
	if p.GetMetadata().GetBeaconID() != streamBeaconID {
		extra = "bad-id"
	}
	return t.s.onSend(&common.Beacon{Round: p.GetRound(), Signature: p.GetSignature(), PreviousSig: p.GetPreviousSignature()}, extra)
}

// the public stream server behind core's proxyStream
type scriptPublicServer struct {
	grpc.ServerStream
	ctx context.Context
	s   *sStream
}

func (t *scriptPublicServer) Context() context.Context { return t.ctx }
func (t *scriptPublicServer) Send(p *drand.PublicRandResponse) error {
	extra := ""
	if !bytes.Equal(p.GetRandomness(), crypto.RandomnessFromSignature(p.GetSignature())) {
		extra = "bad-rand"
	}
	if p.GetMetadata().GetBeaconID() != streamBeaconID {
		extra = "bad-id"
	}
	return t.s.onSend(&common.Beacon{Round: p.GetRound(), Signature: p.GetSignature(), PreviousSig: p.GetPreviousSignature()}, extra)
}

type streamSUT struct {
	backend string
	chained bool
	dir     string
	base    chain.Store
	top     beacon.CallbackStore
	ctx     context.Context
	head    uint64
	streams map[string]*sStream
	blocked chan error // a Put that outlived its watchdog
}

// streamSig is the deterministic signature of round r (the Lean driver computes the same bytes).
func streamSig(r uint64) []byte {
	if r == 0 {
		return []byte{0x5e, 0xed}
	}
	return []byte{byte(r / 256), byte(r), byte(r*7 + 3)}
}

func streamBeacon(r uint64) *common.Beacon {
	return &common.Beacon{Round: r, Signature: streamSig(r), PreviousSig: streamSig(r - 1)}
}

func watchdog() time.Duration {
	if v := os.Getenv("VERIF_WATCHDOG_MS"); v != "" {
		if n, err := strconv.Atoi(v); err == nil {
			return time.Duration(n) * time.Millisecond
		}
	}
	return 2 * time.Second
}

// pregrown opens a bolt store whose file has been extended (sparse) to 64 MiB beforehand: bbolt maps the whole file,
// so appends made while a cursor's read transaction is open do not have to wait for an mmap resize (bbolt can only
// enlarge its mapping when no read transaction is open — that stall is exercised on purpose by "init … raw", see C12).
// Only the file is touched; the store is created and opened by boltdb.NewBoltStore as always.
func pregrown(ctx context.Context, dir string) chain.Store {
	s, err := boltdb.NewBoltStore(ctx, quietLogger(), dir)
	if err != nil {
		panic(err)
	}
	if err := s.Close(); err != nil {
		panic(err)
	}
	if err := os.Truncate(filepath.Join(dir, boltdb.BoltFileName), 64<<20); err != nil {
		panic(err)
	}
	s, err = boltdb.NewBoltStore(ctx, quietLogger(), dir)
	if err != nil {
		panic(err)
	}
	return s
}

func newStreamSUT(backend string, chained bool, n int, raw bool) *streamSUT {
	c := &streamSUT{backend: backend, chained: chained, streams: map[string]*sStream{}}
	ctx := context.Background()
	if chained {
		ctx = chain.SetPreviousRequiredOnContext(ctx)
	}
	c.ctx = ctx
	switch {
	case backend == "trimmed" || backend == "bolt":
		c.dir = tmpDir()
		bctx := ctx
		if backend == "bolt" {
			bctx = boltdb.IsATest(ctx)
		}
		if raw {
			s, err := boltdb.NewBoltStore(bctx, quietLogger(), c.dir)
			if err != nil {
				panic(err)
			}
			c.base = s
		} else {
			c.base = pregrown(bctx, c.dir)
		}
	case strings.HasPrefix(backend, "mem"):
		k, _ := strconv.Atoi(backend[3:])
		c.base = memdb.NewStore(k)
	default:
		panic("unknown backend " + backend)
	}
	if err := c.base.Put(ctx, chain.GenesisBeacon(streamSig(0))); err != nil {
		panic(err)
	}
	name := crypto.UnchainedSchemeID
	if chained {
		name = crypto.DefaultSchemeID
	}
	ss, err := beacon.NewSchemeStore(ctx, c.base, mustScheme(name))
	if err != nil {
		panic(err)
	}
	as, err := beacon.VerifNewAppendStore(ctx, ss)
	if err != nil {
		panic(err)
	}
	c.top = beacon.NewCallbackStore(quietLogger(), as)
	for i := 1; i <= n; i++ {
		if err := c.top.Put(ctx, streamBeacon(uint64(i))); err != nil {
			panic(err)
		}
		c.head = uint64(i)
	}
	return c
}

// owner is the stream whose job channel is the one currently registered under id, if any.
func (c *streamSUT) owner(id string) *sStream {
	cur := beacon.VerifJobChanOf(c.top, id)
	if cur == nil {
		return nil
	}
	for _, s := range c.streams {
		if cur.Same(s.jobs.Load()) {
			return s
		}
	}
	return nil
}

// kill ends a stream's goroutines whatever gate they are in.
func (c *streamSUT) kill(s *sStream) bool {
	if s.returned {
		return true
	}
	s.cancel()
	if s.pending != nil {
		s.pending = nil
		s.rel <- context.Canceled
	}
	deadline := time.After(2 * time.Second)
	for {
		select {
		case e := <-s.ev:
			switch e.kind {
			case "returned":
				s.returned = true
				return true
			case "registered":
			default:
				s.rel <- context.Canceled
			}
		case <-deadline:
			return false
		}
	}
}

func (c *streamSUT) close() {
	clean := true
	for _, s := range c.streams {
		if !c.kill(s) {
			clean = false
		}
	}
	if c.blocked != nil {
		select {
		case <-c.blocked:
		case <-time.After(time.Second):
			clean = false
		}
	}
	if clean {
		// closes the base store as well (bbolt waits for open read transactions, hence only when clean)
		c.top.Close()
	}
	if c.dir != "" {
		os.RemoveAll(c.dir)
	}
}

func classifyStreamErr(err error) string {
	switch {
	case err == nil:
		return "nil"
	case errors.Is(err, errScriptSend):
		return "send-error"
	case errors.Is(err, chainerrors.ErrNoBeaconStored):
		return "no-beacon"
	case errors.Is(err, beacon.ErrCallbackReplaced):
		return "replaced"
	case errors.Is(err, context.Canceled):
		return "canceled"
	}
	return "err:" + strings.ReplaceAll(err.Error(), " ", "_")
}

func showSend(e sEvent) string {
	s := "send " + showBeacon(e.b, nil)
	if e.extra != "" {
		s += " " + e.extra
	}
	return s
}

// await waits for the next event of stream s after a gate was released and names what happened.
func (s *sStream) await(prev string) string {
	select {
	case e := <-s.ev:
		switch e.kind {
		case "returned":
			s.returned = true
			return "returned " + classifyStreamErr(e.err)
		case "send":
			s.pending = &e
			s.sent = append(s.sent, e.b)
			return showSend(e)
		case "gate-open":
			s.pending = &e
			return "started"
		case "gate-register":
			s.pending = &e
			if prev == "gate-last" {
				return "started"
			}
			return "scan-end"
		case "registered":
			s.live = true
			return "registered"
		}
		return "unexpected-event:" + e.kind
	case <-time.After(5 * time.Second):
		return "stuck"
	}
}

// step releases the pending gate (which must be of kind want, if given) and runs to the next one.
func (s *sStream) step(want string) string {
	if s.pending == nil || (want != "" && s.pending.kind != want) {
		return "bad-state"
	}
	prev := s.pending.kind
	s.pending = nil
	s.rel <- nil
	return s.await(prev)
}

// scanstep is step restricted to the scan phase; once the cursor is closed it does nothing.
func (s *sStream) scanstep() string {
	if s.pending == nil {
		return "bad-state"
	}
	switch s.pending.kind {
	case "gate-open", "send":
		return s.step("")
	case "gate-register":
		return "noop"
	}
	return "bad-state"
}

// park waits until no callback of this stream is running free: each one has finished or sits in a Send whose event the
// script has not taken yet. A callback whose Send failed calls RemoveCallback(id) on its own goroutine; an op that made
// a Send fail must not return before that has happened, or the removal would race with the script's next steps.
func (s *sStream) park() {
	deadline := time.Now().Add(watchdog())
	for time.Now().Before(deadline) {
		if atomic.LoadInt32(&s.inflight) == 0 || len(s.ev) > 0 {
			return
		}
		time.Sleep(20 * time.Microsecond)
	}
}

func (s *sStream) quiescent() bool {
	if s.returned || !s.live {
		return len(s.ev) == 0
	}
	chk := func() bool {
		// once the close signal has reached the callback, SyncChain is on its way out: its "returned" event will come
		return len(s.ev) == 0 && s.jobs.Load().Len() == 0 && atomic.LoadInt32(&s.inflight) == 0 &&
			atomic.LoadInt32(&s.entered) >= atomic.LoadInt32(&s.expected) && atomic.LoadInt32(&s.closed) == 0
	}
	if !chk() {
		return false
	}
	time.Sleep(time.Millisecond)
	return chk()
}

// deliver acknowledges the next live Send of s (releasing it with rel) or reports that nothing is coming.
func (s *sStream) deliver(rel error) string {
	if s.returned {
		// SyncChain is over; a worker that still drains its closed channel into the dead stream is not the client's business
		return "none"
	}
	deadline := time.Now().Add(watchdog())
	for {
		select {
		case e := <-s.ev:
			switch e.kind {
			case "returned":
				s.returned = true
				return "returned " + classifyStreamErr(e.err)
			case "send":
				s.sent = append(s.sent, e.b)
				s.rel <- rel
				if rel != nil {
					// the client is gone: whatever the worker still tries to send fails as well
					for i := 0; i < 100000; i++ {
						select {
						case e2 := <-s.ev:
							if e2.kind == "returned" {
								s.returned = true
								s.park()
								return showSend(e) + " returned " + classifyStreamErr(e2.err)
							}
							if e2.kind == "send" {
								s.rel <- rel
							}
						case <-time.After(5 * time.Second):
							return showSend(e) + " stuck"
						}
					}
				}
				return showSend(e)
			}
			return "unexpected-event:" + e.kind
		default:
		}
		if s.quiescent() {
			return "none"
		}
		if time.Now().After(deadline) {
			if len(s.ev) == 0 && s.jobs.Load().Len() == 0 && atomic.LoadInt32(&s.inflight) == 0 && atomic.LoadInt32(&s.closed) == 0 {
				return "none" // fewer callbacks than the hint expected: nothing is coming
			}
			return "stuck"
		}
		time.Sleep(100 * time.Microsecond)
	}
}

func parseAddr(a string) net.Addr {
	host, port, err := net.SplitHostPort(a)
	if err != nil {
		panic(err)
	}
	p, _ := strconv.Atoi(port)
	return &net.TCPAddr{IP: net.ParseIP(host), Port: p}
}

// stream <backend: bolt|trimmed|mem<cap>>
//
//	init <chained 0|1> <n> [raw]             genesis + rounds 1..n through the stack          ok
//	                                         (bolt files are pre-grown unless "raw")
//	put                                      the next beacon through callbackStore.Put        ok <r> | blocked <r> | err:…
//	wait                                     for a blocked put                                done | still-blocked
//	burst <sid> <n>                          n appends while live stream sid's client does    ok <head> ; send … ; … ; none
//	                                         not read, then the client reads everything
//	start <sid> <addr> <from> <sync|public>  SyncChain goroutine, stopped before Last         ok
//	step <sid>                               release the current gate, run to the next one    started | send … | scan-end | registered | returned <e>
//	begin | scanstep | register <sid>        step, but only from the gate before Last / inside the scan (noop once the
//	                                         cursor is closed) / before AddCallback; scanall = scanstep until the scan ends;
//	                                         drain = deliver until nothing is coming
//	failstep <sid>                           the pending Send fails                           returned send-error
//	deliver <sid>                            acknowledge+release the next live Send           send … | none | returned <e>
//	faildeliver <sid>                        the next live Send fails                         send … returned send-error
//	cancel <sid>                             cancel the stream context                        returned canceled
//	sent <sid> | get <r> | head | qlen <sid> | reset
func streamEngine(args []string, in *bufio.Scanner, out *bufio.Writer) {
	var c *streamSUT
	defer func() {
		if c != nil {
			c.close()
		}
	}()
	for in.Scan() {
		f := fields(in.Text())
		if len(f) == 0 {
			continue
		}
		res := safely(func() string {
			if f[0] == "init" {
				if c != nil {
					c.close()
				}
				n, _ := strconv.Atoi(f[2])
				c = newStreamSUT(args[0], f[1] == "1", n, len(f) > 3 && f[3] == "raw")
				return "ok"
			}
			if c == nil {
				return "bad-state"
			}
			var s *sStream
			switch f[0] {
			case "step", "failstep", "deliver", "faildeliver", "cancel", "sent", "qlen", "begin", "scanstep", "scanall", "register", "drain", "burst":
				s = c.streams[f[1]]
				if s == nil {
					return "bad-state"
				}
			}
			switch f[0] {
			case "put":
				if c.blocked != nil {
					return "bad-state"
				}
				r := c.head + 1
				done := make(chan error, 1)
				for _, s := range c.streams {
					if s.cbid != "" && c.owner(s.cbid) == s {
						atomic.AddInt32(&s.expected, 1)
					}
				}
				go func() { done <- c.top.Put(c.ctx, streamBeacon(r)) }()
				select {
				case err := <-done:
					if err != nil {
						return "err:" + strings.ReplaceAll(err.Error(), " ", "_")
					}
					c.head = r
					return fmt.Sprintf("ok %d", r)
				case <-time.After(watchdog()):
					c.blocked = done
					c.head = r
					return fmt.Sprintf("blocked %d", r)
				}
			case "burst":
				// n appends in a row while the client of live stream s does not read (no Send is released); once the appends
				// are over, or have stopped making progress (the dispatch waits for room in the job queue), the client reads
				// again until nothing is coming. Whether an append had to wait is C12's concern; every round is C11's.
				if c.blocked != nil || s.pending != nil || !s.live || s.returned || len(f) < 3 {
					return "bad-state"
				}
				n, _ := strconv.Atoi(f[2])
				first := c.head + 1
				var donePuts int32
				entered0 := atomic.LoadInt32(&s.entered)
				done := make(chan error, 1)
				for _, t := range c.streams {
					if t.cbid != "" && c.owner(t.cbid) == t {
						atomic.AddInt32(&t.expected, int32(n))
					}
				}
				go func() {
					for i := 0; i < n; i++ {
						if err := c.top.Put(c.ctx, streamBeacon(first+uint64(i))); err != nil {
							done <- err
							return
						}
						atomic.AddInt32(&donePuts, 1)
						if i == 0 && s.cbid != "" {
							// the worker takes the first job at once and then sits in its Send: wait until it is there, so that
							// "how many jobs fit before the queue is full" does not depend on the scheduler
							for dl := time.Now().Add(time.Second); time.Now().Before(dl) && atomic.LoadInt32(&s.entered) == entered0; {
								time.Sleep(20 * time.Microsecond)
							}
						}
					}
					done <- nil
				}()
				finished := false
				var perr error
				last, lastChange := int32(-1), time.Now()
				// "stopped making progress" = no append finished for 300 ms WHILE some job queue is full (that is what an append can be
				// waiting for); without a full queue the appending goroutine is merely not being scheduled (loaded machine) and the
				// client must not start reading yet, or the script would not be the one that was asked for
				anyFull := func() bool {
					for _, t := range c.streams {
						if j := t.jobs.Load(); j != nil && j.Cap() > 0 && j.Len() >= j.Cap() {
							return true
						}
					}
					return false
				}
				for !finished && (time.Since(lastChange) < 300*time.Millisecond || (!anyFull() && time.Since(lastChange) < 5*watchdog())) {
					select {
					case perr = <-done:
						finished = true
					default:
						if cur := atomic.LoadInt32(&donePuts); cur != last {
							last, lastChange = cur, time.Now()
						}
						time.Sleep(200 * time.Microsecond)
					}
				}
				var outs []string
				for i := 0; i < 100000; i++ {
					r := s.deliver(nil)
					if r == "none" && !finished {
						select {
						case perr = <-done:
							finished = true
							continue
						case <-time.After(watchdog()):
							c.blocked = done
							return "stuck-appends"
						}
					}
					outs = append(outs, r)
					if !strings.HasPrefix(r, "send ") {
						break
					}
				}
				if !finished {
					select {
					case perr = <-done:
					case <-time.After(watchdog()):
						c.blocked = done
						return "stuck-appends"
					}
				}
				if perr != nil {
					return "err:" + strings.ReplaceAll(perr.Error(), " ", "_")
				}
				c.head = first + uint64(n) - 1
				return fmt.Sprintf("ok %d ; ", c.head) + strings.Join(outs, " ; ")
			case "wait":
				if c.blocked == nil {
					return "done"
				}
				select {
				case err := <-c.blocked:
					c.blocked = nil
					if err != nil {
						return "err:" + strings.ReplaceAll(err.Error(), " ", "_")
					}
					return "done"
				case <-time.After(watchdog()):
					return "still-blocked"
				}
			case "start":
				if _, dup := c.streams[f[1]]; dup {
					return "bad-state"
				}
				from, _ := strconv.ParseUint(f[3], 10, 64)
				s = &sStream{sid: f[1], ev: make(chan sEvent, 64), rel: make(chan error), sut: c}
				ctx, cancel := context.WithCancel(peer.NewContext(context.Background(), &peer.Peer{Addr: parseAddr(f[2])}))
				s.cancel = cancel
				c.streams[f[1]] = s
				gs := &gatingStore{CallbackStore: c.top, s: s}
				var req beacon.SyncRequest
				var str beacon.SyncStream
				md := &drand.Metadata{BeaconID: streamBeaconID}
				if f[4] == "public" {
					req, str = core.VerifStreamProxy(&drand.PublicRandRequest{Round: from, Metadata: md},
						&scriptPublicServer{ctx: ctx, s: s})
				} else {
					req, str = &drand.SyncRequest{FromRound: from, Metadata: md}, &scriptSyncStream{ctx: ctx, s: s}
				}
				go func() {
					err := beacon.SyncChain(quietLogger(), gs, req, str)
					s.ev <- sEvent{kind: "returned", err: err}
				}()
				select {
				case e := <-s.ev:
					if e.kind != "gate-last" {
						return "unexpected-event:" + e.kind
					}
					s.pending = &e
					return "ok"
				case <-time.After(5 * time.Second):
					return "stuck"
				}
			case "step":
				return s.step("")
			case "begin":
				return s.step("gate-last")
			case "register":
				return s.step("gate-register")
			case "scanstep":
				return s.scanstep()
			case "scanall":
				if s.pending != nil && s.pending.kind == "gate-register" {
					return "noop"
				}
				var outs []string
				for i := 0; i < 100000; i++ {
					r := s.scanstep()
					outs = append(outs, r)
					if !strings.HasPrefix(r, "send ") {
						break
					}
				}
				return strings.Join(outs, " ; ")
			case "drain":
				if s.pending != nil {
					return "bad-state"
				}
				var outs []string
				for i := 0; i < 100000; i++ {
					r := s.deliver(nil)
					outs = append(outs, r)
					if !strings.HasPrefix(r, "send ") {
						break
					}
				}
				return strings.Join(outs, " ; ")
			case "failstep":
				if s.pending == nil || s.pending.kind != "send" {
					return "bad-state"
				}
				s.pending = nil
				s.rel <- errScriptSend
				return s.await("send")
			case "deliver":
				if s.pending != nil {
					return "bad-state"
				}
				return s.deliver(nil)
			case "faildeliver":
				if s.pending != nil {
					return "bad-state"
				}
				return s.deliver(errScriptSend)
			case "cancel":
				if s.returned {
					return "bad-state"
				}
				if s.live && s.pending == nil {
					// let a worker that is not held in a Send finish what it is doing: if it has consumed the close
					// signal, SyncChain is returning on its own and the cancellation comes too late (otherwise Go's
					// select between ctx.Done and errChan would make the answer depend on the scheduler)
					deadline := time.Now().Add(watchdog())
					for time.Now().Before(deadline) {
						if len(s.ev) > 0 || (atomic.LoadInt32(&s.entered) >= atomic.LoadInt32(&s.expected) && atomic.LoadInt32(&s.inflight) == 0) {
							break
						}
						time.Sleep(50 * time.Microsecond)
					}
					if atomic.LoadInt32(&s.closed) == 1 {
						for i := 0; i < 16; i++ {
							select {
							case e := <-s.ev:
								if e.kind == "returned" {
									s.returned = true
									s.park()
									return "returned " + classifyStreamErr(e.err)
								}
								if e.kind == "send" {
									s.rel <- context.Canceled
								}
							case <-time.After(5 * time.Second):
								return "stuck"
							}
						}
						return "stuck"
					}
				}
				s.cancel()
				if s.pending != nil {
					s.pending = nil
					s.rel <- context.Canceled
				}
				// a gate that is not a Send ignores the release value: the code then runs into ctx.Done
				for i := 0; i < 16; i++ {
					select {
					case e := <-s.ev:
						switch e.kind {
						case "returned":
							s.returned = true
							s.park()
							return "returned " + classifyStreamErr(e.err)
						case "registered":
						default:
							s.rel <- context.Canceled
						}
					case <-time.After(5 * time.Second):
						return "stuck"
					}
				}
				return "stuck"
			case "sent":
				var rs []string
				for _, b := range s.sent {
					rs = append(rs, strconv.FormatUint(b.Round, 10))
				}
				if len(rs) == 0 {
					return "-"
				}
				return strings.Join(rs, ",")
			case "qlen":
				return strconv.Itoa(s.jobs.Load().Len())
			case "get":
				r, _ := strconv.ParseUint(f[1], 10, 64)
				return showBeacon(c.top.Get(c.ctx, r))
			case "head":
				return showBeacon(c.top.Last(c.ctx))
			case "reset":
				c.close()
				c = nil
				return "ok"
			}
			return "bad-op"
		})
		fmt.Fprintln(out, res)
		out.Flush()
	}
}
