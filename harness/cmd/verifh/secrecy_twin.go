//go:build verif

package main

// Noninterference on the real code, sampled ("twins"): two node folders that are identical in every PUBLIC file
// (identity, group) but hold DIFFERENT secret scalars (long-term key, share in the share file and in dkg.db).
// A real daemon is started on each folder in turn, on the same ports, without starting the beacon (so nothing is
// signed), and every non-signing endpoint is queried. The answers must be byte-identical: line
//   NI <channel label> <hex answer twin A> <hex answer twin B>

import (
	"bufio"
	"context"
	"errors"
	"fmt"
	"io"
	"net"
	"net/http"
	"os"
	"path"
	"strings"
	"time"

	"go.uber.org/zap/zapcore"
	"google.golang.org/grpc"
	"google.golang.org/grpc/credentials/insecure"
	"google.golang.org/grpc/status"
	"google.golang.org/protobuf/proto"

	"github.com/drand/drand/v2/common"
	"github.com/drand/drand/v2/common/key"
	"github.com/drand/drand/v2/common/log"
	"github.com/drand/drand/v2/crypto"
	"github.com/drand/drand/v2/internal/chain"
	"github.com/drand/drand/v2/internal/core"
	"github.com/drand/drand/v2/internal/dkg"
	"github.com/drand/drand/v2/internal/util"
	pdkg "github.com/drand/drand/v2/protobuf/dkg"
	"github.com/drand/drand/v2/protobuf/drand"
	"github.com/drand/kyber"
	"github.com/drand/kyber/share"
	kdkg "github.com/drand/kyber/share/dkg"
)

type twinAnswers struct {
	order []string
	m     map[string][]byte
}

func (t *twinAnswers) put(label string, b []byte) {
	if _, ok := t.m[label]; !ok {
		t.order = append(t.order, label)
	}
	t.m[label] = b
}

func marshalAnswer(m proto.Message, err error) []byte {
	if err != nil {
		return []byte("error: " + status.Convert(err).Message())
	}
	b, e := proto.MarshalOptions{Deterministic: true}.Marshal(m)
	if e != nil {
		return []byte("marshal-error: " + e.Error())
	}
	if len(b) == 0 {
		return []byte("(empty message)")
	}
	return b
}

func writeTwinFolder(base, beaconID string, pair *key.Pair, sh *key.Share, g *key.Group) error {
	ks := key.NewFileStore(path.Join(base, common.MultiBeaconFolder), beaconID)
	if err := ks.SaveKeyPair(pair); err != nil {
		return err
	}
	if err := ks.SaveShare(sh); err != nil {
		return err
	}
	if err := ks.SaveGroup(g); err != nil {
		return err
	}
	st, err := dkg.NewDKGStore(base)
	if err != nil {
		return err
	}
	me, err := util.PublicKeyAsParticipant(pair.Public)
	if err != nil {
		return err
	}
	state := &dkg.DBState{BeaconID: beaconID, Epoch: 1, State: dkg.Complete, Threshold: 1, Timeout: time.Unix(1700000100, 0).UTC(),
		SchemeID: g.Scheme.Name, GenesisTime: time.Unix(g.GenesisTime, 0).UTC(), GenesisSeed: g.GenesisSeed, CatchupPeriod: time.Second, BeaconPeriod: g.Period,
		Leader: me, Joining: []*pdkg.Participant{me}, Acceptors: []*pdkg.Participant{me}, FinalGroup: g, KeyShare: sh}
	if err := st.SaveFinished(beaconID, state); err != nil {
		return err
	}
	return st.Close()
}

func runTwin(base, beaconID, listenPriv, listenPub, ctrlPort string) (*twinAnswers, error) {
	ans := &twinAnswers{m: map[string][]byte{}}
	ctx := context.Background()
	lg := log.New(zapcore.AddSync(io.Discard), log.DebugLevel, true)
	conf := core.NewConfig(lg, core.WithConfigFolder(base), core.WithPublicListenAddress(listenPub), core.WithPrivateListenAddress(listenPriv),
		core.WithControlPort(ctrlPort), core.WithDBStorageEngine(chain.BoltDB))
	var d *core.DrandDaemon
	var err error
	for i := 0; i < 20; i++ { // the previous twin's ports may need a moment to be released
		d, err = core.NewDrandDaemon(ctx, conf)
		if err == nil {
			break
		}
		time.Sleep(250 * time.Millisecond)
	}
	if err != nil {
		return nil, fmt.Errorf("daemon: %w", err)
	}
	stores, err := key.NewFileStores(conf.ConfigFolderMB())
	if err != nil {
		return nil, err
	}
	for id, ks := range stores {
		bp, err := d.InstantiateBeaconProcess(ctx, id, ks)
		if err != nil {
			return nil, err
		}
		if err := bp.Load(ctx); err != nil {
			return nil, fmt.Errorf("load: %w", err)
		}
		d.AddBeaconHandler(ctx, id, bp) // the beacon itself is NOT started: nothing gets signed
	}
	cc, err := grpc.NewClient("127.0.0.1:"+ctrlPort, grpc.WithTransportCredentials(insecure.NewCredentials()))
	if err != nil {
		return nil, err
	}
	defer cc.Close()
	pc, err := grpc.NewClient(listenPriv, grpc.WithTransportCredentials(insecure.NewCredentials()))
	if err != nil {
		return nil, err
	}
	defer pc.Close()
	ctl, dk := drand.NewControlClient(cc), pdkg.NewDKGControlClient(cc)
	pub, pro := drand.NewPublicClient(pc), drand.NewProtocolClient(pc)
	md := &drand.Metadata{BeaconID: beaconID, NodeVersion: common.GetAppVersion().ToProto()}
	c, cancel := context.WithTimeout(ctx, 20*time.Second)
	defer cancel()
	{
		r, err := ctl.PingPong(c, &drand.Ping{Metadata: md})
		ans.put("grpc:/drand.Control/PingPong:resp", marshalAnswer(r, err))
	}
	{
		r, err := ctl.PublicKey(c, &drand.PublicKeyRequest{Metadata: md})
		ans.put("grpc:/drand.Control/PublicKey:resp", marshalAnswer(r, err))
	}
	{
		r, err := ctl.GroupFile(c, &drand.GroupRequest{Metadata: md})
		ans.put("grpc:/drand.Control/GroupFile:resp", marshalAnswer(r, err))
	}
	{
		r, err := ctl.ChainInfo(c, &drand.ChainInfoRequest{Metadata: md})
		ans.put("grpc:/drand.Control/ChainInfo:resp", marshalAnswer(r, err))
	}
	{
		r, err := ctl.Status(c, &drand.StatusRequest{Metadata: md})
		ans.put("grpc:/drand.Control/Status:resp", marshalAnswer(r, err))
	}
	{
		r, err := ctl.ListSchemes(c, &drand.ListSchemesRequest{})
		ans.put("grpc:/drand.Control/ListSchemes:resp", marshalAnswer(r, err))
	}
	{
		r, err := ctl.RemoteStatus(c, &drand.RemoteStatusRequest{Metadata: md, Addresses: []*drand.Address{{Address: listenPriv}}})
		ans.put("grpc:/drand.Control/RemoteStatus:resp", marshalAnswer(r, err))
	}
	{
		r, err := ctl.LoadBeacon(c, &drand.LoadBeaconRequest{Metadata: md})
		ans.put("grpc:/drand.Control/LoadBeacon:resp", marshalAnswer(r, err))
	}
	{
		r, err := dk.DKGStatus(c, &pdkg.DKGStatusRequest{BeaconID: beaconID})
		ans.put("grpc:/dkg.DKGControl/DKGStatus:resp", marshalAnswer(r, err))
	}
	{
		r, err := pro.GetIdentity(c, &drand.IdentityRequest{Metadata: md})
		ans.put("grpc:/drand.Protocol/GetIdentity:resp", marshalAnswer(r, err))
	}
	{
		r, err := pro.Status(c, &drand.StatusRequest{Metadata: md})
		ans.put("grpc:/drand.Protocol/Status:resp", marshalAnswer(r, err))
	}
	{
		r, err := pub.ChainInfo(c, &drand.ChainInfoRequest{Metadata: md})
		ans.put("grpc:/drand.Public/ChainInfo:resp", marshalAnswer(r, err))
	}
	{
		r, err := pub.ListBeaconIDs(c, &drand.ListBeaconIDsRequest{})
		ans.put("grpc:/drand.Public/ListBeaconIDs:resp", marshalAnswer(r, err))
	}
	{
		r, err := pub.PublicRand(c, &drand.PublicRandRequest{Metadata: md})
		ans.put("grpc:/drand.Public/PublicRand:resp", marshalAnswer(r, err))
	}
	for _, rt := range [][2]string{{"http:/chains", "/chains"}, {"http:/info", "/info"}, {"http:/public/latest", "/public/latest"}} {
		resp, err := http.Get("http://" + listenPub + rt[1])
		if err != nil {
			ans.put(rt[0], []byte("error: "+err.Error()))
			continue
		}
		body, _ := io.ReadAll(resp.Body)
		resp.Body.Close()
		ans.put(rt[0], append([]byte(fmt.Sprintf("%d ", resp.StatusCode)), body...))
	}
	sc, scancel := context.WithTimeout(ctx, 10*time.Second)
	_, _ = ctl.Shutdown(sc, &drand.ShutdownRequest{})
	scancel()
	select {
	case <-d.WaitExit():
	case <-time.After(10 * time.Second):
		return ans, errors.New("twin daemon did not exit")
	}
	return ans, nil
}

// twins runs `count` twin pairs and prints SECRET and NI lines.
func twins(out *bufio.Writer, r *rng, sch *crypto.Scheme, count int) {
	emit := func(kind string, f ...string) { fmt.Fprintf(out, "%s\t%s\n", kind, strings.Join(f, "\t")) }
	for t := 0; t < count; t++ {
		res := safely(func() string {
			root := path.Join(tmpDir(), "twins")
			listenPriv, listenPub := freeAddr(), freeAddr()
			_, ctrlPort, _ := net.SplitHostPort(freeAddr())
			beaconID := "default"
			if t%2 == 1 {
				beaconID = "twin-chain"
			}
			pairA, err := key.NewKeyPair(listenPriv, sch)
			if err != nil {
				return "err:" + err.Error()
			}
			// same public identity, another scalar
			pairB := &key.Pair{Key: sch.KeyGroup.Scalar().SetBytes(r.bytes(32)), Public: pairA.Public}
			shA := fakeShare(sch, r)
			shB := &key.Share{DistKeyShare: kdkg.DistKeyShare{Commits: append([]kyber.Point{}, shA.Commits...),
				Share: &share.PriShare{I: shA.Share.I, V: sch.KeyGroup.Scalar().SetBytes(r.bytes(32))}}, Scheme: sch}
			g := &key.Group{Threshold: 1, Period: 30 * time.Second, CatchupPeriod: time.Second, Scheme: sch, ID: beaconID,
				GenesisTime: time.Now().Add(2 * time.Hour).Unix(), GenesisSeed: r.bytes(32),
				Nodes: []*key.Node{{Identity: pairA.Public, Index: 0}}, PublicKey: &key.DistPublic{Coefficients: shA.Commits}}
			l := &life{out: out, info: map[string]int{}, secrets: map[string]bool{}}
			nodeA, nodeB := 200+2*t, 201+2*t
			l.secret(nodeA, "longterm", pairA.Key)
			l.secret(nodeB, "longterm", pairB.Key)
			l.secret(nodeA, "share-fake", shA.Share.V)
			l.secret(nodeB, "share-fake", shB.Share.V)
			var answers [2]*twinAnswers
			for i, tw := range []struct {
				pair *key.Pair
				sh   *key.Share
			}{{pairA, shA}, {pairB, shB}} {
				base := path.Join(root, fmt.Sprintf("twin-%d", i))
				if err := os.MkdirAll(base, 0o700); err != nil {
					return "err:" + err.Error()
				}
				if err := writeTwinFolder(base, beaconID, tw.pair, tw.sh, g); err != nil {
					return "err:write:" + err.Error()
				}
				a, err := runTwin(base, beaconID, listenPriv, listenPub, ctrlPort)
				if err != nil {
					return fmt.Sprintf("err:twin %d: %v", i, err)
				}
				answers[i] = a
			}
			for _, label := range answers[0].order {
				emit("NI", fmt.Sprint(t), label, hx(answers[0].m[label]), hx(answers[1].m[label]))
			}
			return "ok"
		})
		emit("TWIN", fmt.Sprint(t), sch.Name, res)
	}
}
