//go:build verif

package main

// Engine "crash" (C13): one real node directory under $VERIF_TMP driven through scripted histories
// (beacon production, first DKG, joining, resharing, leaving). Every persistence step is performed by
// the real code (dkg.BoltStore.SaveCurrent/SaveFinished, BeaconProcess.onDKGCompleted -> storeDKGOutput /
// leaveNetwork -> key.fileStore.SaveGroup/SaveShare/Reset, the handler's store stack -> boltdb Put).
// The crash points are NOT assumed: the key-file steps are reconstructed from the inotify event stream of
// the groups folder (create/truncate, in-place write, chmod, rename, delete), the database steps from the
// bbolt transaction counter. For every crash point (and for torn prefixes of a file written in place) the
// directory image is materialised on a copy and the REAL start-up path (DrandDaemon.LoadBeaconFromStore ->
// DKGStatus / LoadGroup / LoadShare / Migrate / BeaconProcess.Load / StartBeacon -> NewHandler) plus the
// raw loaders are run on it; the answers are reported, nothing is judged here.

import (
	"bufio"
	"bytes"
	"context"
	"encoding/binary"
	"errors"
	"fmt"
	iofs "io/fs"
	"os"
	"path/filepath"
	"sort"
	"strconv"
	"strings"
	"syscall"
	"time"
	"unsafe"

	"google.golang.org/grpc"

	"github.com/drand/drand/v2/common"
	"github.com/drand/drand/v2/common/key"
	"github.com/drand/drand/v2/crypto"
	"github.com/drand/drand/v2/internal/chain"
	"github.com/drand/drand/v2/internal/chain/boltdb"
	"github.com/drand/drand/v2/internal/core"
	"github.com/drand/drand/v2/internal/dkg"
	"github.com/drand/drand/v2/internal/net"
	"github.com/drand/drand/v2/internal/util"
	pdkg "github.com/drand/drand/v2/protobuf/dkg"
	pdrand "github.com/drand/drand/v2/protobuf/drand"
	"github.com/drand/kyber/share"
	kdkg "github.com/drand/kyber/share/dkg"
)

func init() { engines["crash"] = crashEngine }

// ---------------------------------------------------------------------------------------------
// a ProtocolClient that reaches nobody (the restarted node has no peers in the sandbox)

type deafClient struct{}

var errDeaf = errors.New("verif: no network")

func (deafClient) GetIdentity(context.Context, net.Peer, *pdrand.IdentityRequest, ...net.CallOption) (*pdrand.IdentityResponse, error) {
	return nil, errDeaf
}
func (deafClient) SyncChain(context.Context, net.Peer, *pdrand.SyncRequest, ...net.CallOption) (chan *pdrand.BeaconPacket, error) {
	return nil, errDeaf
}
func (deafClient) PartialBeacon(context.Context, net.Peer, *pdrand.PartialBeaconPacket, ...net.CallOption) error {
	return errDeaf
}
func (deafClient) Status(context.Context, net.Peer, *pdrand.StatusRequest, ...grpc.CallOption) (*pdrand.StatusResponse, error) {
	return nil, errDeaf
}
func (deafClient) Check(context.Context, net.Peer) error { return errDeaf }

// ---------------------------------------------------------------------------------------------
// inotify on one directory

type fsEvent struct {
	mask uint32
	name string
}

type watcher struct{ fd int }

func newWatcher(dir string) *watcher {
	fd, err := syscall.InotifyInit1(syscall.IN_NONBLOCK | syscall.IN_CLOEXEC)
	if err != nil {
		panic("inotify: " + err.Error())
	}
	mask := uint32(syscall.IN_CREATE | syscall.IN_MODIFY | syscall.IN_CLOSE_WRITE | syscall.IN_ATTRIB | syscall.IN_DELETE |
		syscall.IN_MOVED_FROM | syscall.IN_MOVED_TO | syscall.IN_OPEN)
	if _, err := syscall.InotifyAddWatch(fd, dir, mask); err != nil {
		panic("inotify watch: " + err.Error())
	}
	return &watcher{fd: fd}
}

func (w *watcher) drain() []fsEvent {
	var out []fsEvent
	buf := make([]byte, 1<<16)
	for {
		n, err := syscall.Read(w.fd, buf)
		if n <= 0 || err != nil {
			return out
		}
		off := 0
		for off+syscall.SizeofInotifyEvent <= n {
			ev := (*syscall.InotifyEvent)(unsafe.Pointer(&buf[off]))
			nm := string(bytes.TrimRight(buf[off+syscall.SizeofInotifyEvent:off+syscall.SizeofInotifyEvent+int(ev.Len)], "\x00"))
			out = append(out, fsEvent{ev.Mask, nm})
			off += syscall.SizeofInotifyEvent + int(ev.Len)
		}
	}
}

func (w *watcher) close() { syscall.Close(w.fd) }

// ---------------------------------------------------------------------------------------------
// directory images

type files map[string][]byte // file name -> content; missing key = absent

func readDir(dir string) files {
	out := files{}
	ents, err := os.ReadDir(dir)
	if err != nil {
		return out
	}
	for _, e := range ents {
		if e.IsDir() {
			continue
		}
		b, err := os.ReadFile(filepath.Join(dir, e.Name()))
		if err == nil {
			out[e.Name()] = b
		}
	}
	return out
}

func (f files) clone() files {
	o := files{}
	for k, v := range f {
		o[k] = v
	}
	return o
}

func logical(name string) string {
	switch name {
	case "drand_group.toml":
		return "group"
	case "dist_key.private":
		return "share"
	}
	// labelling convention only: "<known file>.tmp" is that file's temporary sibling
	if base := strings.TrimSuffix(name, ".tmp"); base != name && logical(base) != base {
		return logical(base) + ".tmp"
	}
	return name
}

// a crash point: the image of the groups folder, which dkg.db snapshot and which chain snapshot go with it
type cut struct {
	label  string
	groups files
	dkgDb  []byte
	chain  []byte // nil: no chain db yet
	torn   string // "" or logical name of the file being written
	off    int
	total  int
}

func tornOffsets(content []byte, mode string) []int {
	n := len(content)
	set := map[int]bool{}
	if mode == "all" {
		for i := 1; i < n; i++ {
			set[i] = true
		}
	} else {
		for _, o := range []int{1, n / 2, n - 1} {
			if o > 0 && o < n {
				set[o] = true
			}
		}
		if mode == "few" {
			content = nil // three offsets only (crash images of a crashed restart)
		}
		start := 0
		for i, c := range content {
			if c == '\n' {
				if i+1 < n {
					set[i+1] = true // a whole number of lines
				}
				if i > start && mode != "lines" { // mid line
					m := start + (i-start)/2
					if m > 0 {
						set[m] = true
					}
				}
				start = i + 1
			}
		}
	}
	var out []int
	for o := range set {
		out = append(out, o)
	}
	sort.Ints(out)
	return out
}

// cutsFromEvents replays the observed file-system events of one call on the image `before` and returns every
// intermediate image; `after` supplies the content a file has once its last write session is closed.
// The write protocol is not assumed: a file written in place shows up as create/truncate + modify on the target
// itself (torn prefixes of the TARGET are crash images), a file replaced atomically shows up as create + modify on a
// sibling followed by a rename onto the target (torn prefixes of the SIBLING are crash images, the target keeps its
// old content until the rename). A sibling that is renamed onto X later in the call is labelled "<X>.tmp" whatever
// its real name is.
func cutsFromEvents(before, after files, evs []fsEvent, tornMode string) ([]cut, []string) {
	type action struct{ kind, a, b string }
	var acts []action
	var pendingFrom string
	modifiedInSession := map[string]bool{}
	for _, e := range evs {
		if e.mask&syscall.IN_ISDIR != 0 {
			continue
		}
		switch {
		case e.mask&syscall.IN_CREATE != 0:
			acts = append(acts, action{"create", e.name, ""})
			modifiedInSession[e.name] = false
		case e.mask&syscall.IN_OPEN != 0:
			// a new session starts; nothing visible yet
		case e.mask&syscall.IN_MODIFY != 0:
			if !modifiedInSession[e.name] {
				acts = append(acts, action{"modify", e.name, ""})
				modifiedInSession[e.name] = true
			}
		case e.mask&syscall.IN_CLOSE_WRITE != 0:
			acts = append(acts, action{"closew", e.name, ""})
			modifiedInSession[e.name] = false
		case e.mask&syscall.IN_ATTRIB != 0:
			acts = append(acts, action{"chmod", e.name, ""})
		case e.mask&syscall.IN_DELETE != 0:
			acts = append(acts, action{"remove", e.name, ""})
		case e.mask&syscall.IN_MOVED_FROM != 0:
			pendingFrom = e.name
		case e.mask&syscall.IN_MOVED_TO != 0:
			acts = append(acts, action{"rename", pendingFrom, e.name})
			pendingFrom = ""
		}
	}
	// final content of a file = its content after the call, following renames made later in the call
	finalOf := func(i int, name string) []byte {
		cur := name
		for _, a := range acts[i:] {
			if a.kind == "rename" && a.a == cur {
				cur = a.b
			}
		}
		return after[cur]
	}
	lastModify := map[string]int{}
	tmpOf := map[string]string{} // sibling name -> label, for files that are renamed onto a known file in this call
	for i, a := range acts {
		if a.kind == "modify" {
			lastModify[a.a] = i
		}
		if a.kind == "rename" && a.a != "" && logical(a.b) != a.b {
			tmpOf[a.a] = logical(a.b) + ".tmp"
		}
	}
	logical := func(name string) string {
		if l, ok := tmpOf[name]; ok {
			return l
		}
		return logical(name)
	}
	var trace []string
	var out []cut
	cur := before.clone()
	emptied := map[string]bool{}
	writing := map[string]bool{}
	emit := func(label string) {
		out = append(out, cut{label: label, groups: cur.clone()})
	}
	for i, a := range acts {
		ln := logical(a.a)
		switch a.kind {
		case "create":
			cur[a.a] = []byte{}
			emptied[a.a] = true
			trace = append(trace, "Create("+ln+")")
			emit("Create(" + ln + ")")
		case "modify":
			if !emptied[a.a] {
				// first modification of an existing file inside this call: os.Create truncated it
				cur[a.a] = []byte{}
				emptied[a.a] = true
				trace = append(trace, "Create("+ln+")")
				emit("Create(" + ln + ")")
			}
			if lastModify[a.a] == i {
				fin := finalOf(i, a.a)
				if len(fin) > 0 {
					writing[a.a] = true
					trace = append(trace, "Write("+ln+")")
					for _, o := range tornOffsets(fin, tornMode) {
						img := cur.clone()
						img[a.a] = fin[:o]
						out = append(out, cut{label: fmt.Sprintf("Write(%s)@%d/%d", ln, o, len(fin)), groups: img, torn: ln, off: o, total: len(fin)})
					}
				}
			}
		case "closew":
			if writing[a.a] {
				cur[a.a] = finalOf(i, a.a)
				writing[a.a] = false
				emit("Write(" + ln + ")")
			}
		case "chmod":
			trace = append(trace, "Chmod("+ln+")")
			emit("Chmod(" + ln + ")")
		case "remove":
			delete(cur, a.a)
			trace = append(trace, "Remove("+ln+")")
			emit("Remove(" + ln + ")")
		case "rename":
			if c, ok := cur[a.a]; ok {
				if writing[a.a] || len(c) == 0 {
					c = after[a.b]
				}
				cur[a.b] = c
			}
			delete(cur, a.a)
			trace = append(trace, "Rename("+ln+","+logical(a.b)+")")
			emit("Rename(" + ln + "," + logical(a.b) + ")")
		}
	}
	return out, trace
}

// ---------------------------------------------------------------------------------------------
// the world: identities, epochs

type epochInfo struct {
	group  *key.Group
	share  *key.Share
	state  *dkg.DBState
	member bool
	saved  bool // SaveFinished was called with this state on this node
}

type crashNode struct {
	tornMode string
	root     string // scratch root of this node
	cfg      string // config folder (live)
	beaconID string
	sch      *crypto.Scheme
	pairs    []*key.Pair
	thr      int
	period   time.Duration
	genesis  int64
	seed     []byte
	secretR  *rng
	epochs   map[int]*epochInfo
	lastEp   int
	stagedAll []*dkg.DBState // every state SaveCurrent stored
	expanded  map[string]bool // per op: (fin, g, s) states whose reconciling start-up was already killed step by step

	dd       *core.DrandDaemon
	bp       *core.BeaconProcess
	dkgStore *dkg.BoltStore
	round    uint64
	lastSig  []byte
	ctx      context.Context
}

func (n *crashNode) mbDir() string     { return filepath.Join(n.cfg, "multibeacon") }
func (n *crashNode) groupsDir() string { return filepath.Join(n.mbDir(), n.beaconID, "groups") }
func (n *crashNode) keyDir() string    { return filepath.Join(n.mbDir(), n.beaconID, "key") }
func (n *crashNode) chainFile() string {
	return filepath.Join(n.mbDir(), n.beaconID, "db", boltdb.BoltFileName)
}
func (n *crashNode) dkgFile() string { return filepath.Join(n.cfg, dkg.BoltFileName) }

func (n *crashNode) shutdown() {
	if n.dd != nil {
		n.dd.VerifShutdown(n.ctx)
		n.dd, n.bp, n.dkgStore = nil, nil, nil
	}
}

func (n *crashNode) destroy() {
	n.shutdown()
	if n.root != "" {
		os.RemoveAll(n.root)
	}
}

func readOpt(path string) []byte {
	b, err := os.ReadFile(path)
	if err != nil {
		return nil
	}
	return b
}

// boot starts the live node with the real start-up path on the live directory.
func (n *crashNode) boot() string {
	dd, st, err := core.VerifNewDaemon(n.ctx, quietLogger(), n.cfg, deafClient{})
	if err != nil {
		return "err:" + err.Error()
	}
	n.dd, n.dkgStore = dd, st
	bp, err := dd.LoadBeaconFromStore(n.ctx, n.beaconID, dd.VerifKeyStore(n.beaconID))
	n.bp = bp
	if err != nil && bp != nil {
		return "load-err:start-beacon-failed"
	}
	if err != nil {
		return "load-err:" + classifyLoadErr(err)
	}
	if n.bp != nil {
		if _, _, _, running := n.bp.VerifView(); running {
			if last, err := n.bp.VerifDBStore().Last(n.ctx); err == nil {
				n.round, n.lastSig = last.Round, last.Signature
			}
		}
	}
	return "ok"
}

func classifyLoadErr(err error) string {
	s := err.Error()
	switch {
	case errors.Is(err, core.ErrDKGNotStarted):
		return "dkg-not-started"
	case strings.Contains(s, "scheme mismatch"):
		return "scheme-mismatch"
	case strings.Contains(s, "could not restore beacon info for the given identity"):
		return "identity-not-in-group"
	case strings.Contains(s, "keypair not included") || strings.Contains(s, "not found in group"):
		return "identity-not-in-group"
	case strings.Contains(s, "INVALID SELF SIGNATURE"):
		return "bad-self-signature"
	case strings.Contains(s, "cannot migrate"):
		return "migrate-refused"
	case errors.Is(err, iofs.ErrNotExist):
		return "file-missing"
	}
	return "decode-error"
}

// newEpoch fabricates what a completed DKG of the next epoch hands over: a group, this node's share and the
// Complete DBState (built with the real DBState.Complete).
func (n *crashNode) newEpoch(members []int, thr int, transition int64) *epochInfo {
	e := n.lastEp + 1
	// one fixed group secret across epochs (resharing keeps the public key), fresh polynomial per epoch
	secret := n.sch.KeyGroup.Scalar().SetBytes(n.seed)
	pri := share.NewPriPoly(n.sch.KeyGroup, thr, secret, n.secretR.stream())
	pub := pri.Commit(n.sch.KeyGroup.Point().Base())
	_, commits := pub.Info()
	var nodes []*key.Node
	member := false
	myIdx := -1
	for pos, m := range members {
		nodes = append(nodes, &key.Node{Identity: n.pairs[m].Public, Index: uint32(pos)})
		if m == 0 {
			member = true
			myIdx = pos
		}
	}
	g := &key.Group{
		ID:            n.beaconID,
		Threshold:     thr,
		Period:        n.period,
		CatchupPeriod: n.period / 2,
		Scheme:        n.sch,
		Nodes:         nodes,
		GenesisTime:   n.genesis,
		GenesisSeed:   n.seed,
		PublicKey:     &key.DistPublic{Coefficients: commits},
	}
	if e > 1 {
		g.TransitionTime = transition
	} else {
		g.TransitionTime = n.genesis
	}
	shIdx := myIdx
	if shIdx < 0 {
		shIdx = len(members) // a share nobody in the group owns
	}
	sh := &key.Share{DistKeyShare: kdkg.DistKeyShare{Commits: commits, Share: pri.Eval(shIdx)}, Scheme: n.sch}

	part := func(i int) *pdkg.Participant {
		p, err := util.PublicKeyAsParticipant(n.pairs[i].Public)
		if err != nil {
			panic(err)
		}
		return p
	}
	var remaining, joining, leaving []*pdkg.Participant
	prev := n.epochs[n.lastEp]
	inPrev := map[int]bool{}
	if prev != nil {
		for i, p := range n.pairs {
			if prev.group.Find(p.Public) != nil {
				inPrev[i] = true
			}
		}
	}
	inNew := map[int]bool{}
	for _, m := range members {
		inNew[m] = true
		if inPrev[m] {
			remaining = append(remaining, part(m))
		} else {
			joining = append(joining, part(m))
		}
	}
	for i := range n.pairs {
		if inPrev[i] && !inNew[i] {
			// a node that runs the protocol but is not in the final group is still "remaining" in the proposal
			if i == 0 {
				remaining = append(remaining, part(i))
			} else {
				leaving = append(leaving, part(i))
			}
		}
	}
	leaderIdx := members[0]
	exec := &dkg.DBState{
		BeaconID:      n.beaconID,
		Epoch:         uint32(e),
		State:         dkg.Executing,
		Threshold:     uint32(thr),
		Timeout:       time.Now().Add(time.Hour).UTC().Truncate(time.Second),
		SchemeID:      n.sch.Name,
		GenesisTime:   time.Unix(n.genesis, 0).UTC(),
		GenesisSeed:   n.seed,
		CatchupPeriod: n.period / 2,
		BeaconPeriod:  n.period,
		Leader:        part(leaderIdx),
		Remaining:     remaining,
		Joining:       joining,
		Leaving:       leaving,
		Acceptors:     remaining,
	}
	return &epochInfo{group: g, share: sh, state: exec, member: member}
}

// ---------------------------------------------------------------------------------------------
// recovery of one crash image with the real loaders

func writeImage(dir string, n *crashNode, c cut) {
	mk := func(p string) {
		if err := os.MkdirAll(p, 0o740); err != nil {
			panic(err)
		}
		os.Chmod(p, 0o740)
	}
	mk(dir)
	mb := filepath.Join(dir, "multibeacon")
	mk(mb)
	mk(filepath.Join(mb, n.beaconID))
	kd := filepath.Join(mb, n.beaconID, "key")
	gd := filepath.Join(mb, n.beaconID, "groups")
	mk(kd)
	mk(gd)
	for name, b := range readDir(n.keyDir()) {
		os.WriteFile(filepath.Join(kd, name), b, 0o600)
	}
	for name, b := range c.groups {
		os.WriteFile(filepath.Join(gd, name), b, 0o600)
	}
	if c.dkgDb != nil {
		os.WriteFile(filepath.Join(dir, dkg.BoltFileName), c.dkgDb, 0o660)
	}
	if c.chain != nil {
		dbd := filepath.Join(mb, n.beaconID, "db")
		mk(dbd)
		os.WriteFile(filepath.Join(dbd, boltdb.BoltFileName), c.chain, 0o660)
	}
}

func (n *crashNode) epochOfGroup(g *key.Group) string {
	if g == nil {
		return "nil"
	}
	for e, ei := range n.epochs {
		if ei.group.Equal(g) && bytes.Equal(ei.group.Hash(), g.Hash()) {
			return "E" + strconv.Itoa(e)
		}
	}
	me := "nomember"
	if g.Find(n.pairs[0].Public) != nil {
		me = "member"
	}
	pk := "nopk"
	if g.PublicKey != nil {
		pk = "pk"
	}
	return fmt.Sprintf("partial[%dnodes,%s,%s]", len(g.Nodes), me, pk)
}

func (n *crashNode) epochOfShare(s *key.Share) string {
	if s == nil {
		return "nil"
	}
	for e, ei := range n.epochs {
		if s.Share != nil && s.Share.I == ei.share.Share.I && s.Share.V.Equal(ei.share.Share.V) && len(s.Commits) == len(ei.share.Commits) &&
			s.Scheme != nil && s.Scheme.Name == ei.share.Scheme.Name {
			same := true
			for i := range s.Commits {
				if !s.Commits[i].Equal(ei.share.Commits[i]) {
					same = false
				}
			}
			if same {
				return "E" + strconv.Itoa(e)
			}
		}
	}
	return fmt.Sprintf("partial[%dcommits]", len(s.Commits))
}

func fileErr(err error) string {
	if errors.Is(err, iofs.ErrNotExist) {
		return "absent"
	}
	return "err"
}

func sameParts(a, b []*pdkg.Participant) bool {
	if len(a) != len(b) {
		return false
	}
	for i := range a {
		if (a[i] == nil) != (b[i] == nil) {
			return false
		}
		if a[i] != nil && (a[i].Address != b[i].Address || !bytes.Equal(a[i].Key, b[i].Key) || !bytes.Equal(a[i].Signature, b[i].Signature)) {
			return false
		}
	}
	return true
}

// sameState: every part of the record read back is the part of ONE saved record (own comparison: DBState.Equals
// uses reflect.DeepEqual on protobuf structs, which distinguishes nil from empty slices)
func (n *crashNode) sameState(s, w *dkg.DBState) bool {
	if s.BeaconID != w.BeaconID || s.Epoch != w.Epoch || s.State != w.State || s.Threshold != w.Threshold ||
		s.Timeout.Unix() != w.Timeout.Unix() || s.SchemeID != w.SchemeID || s.GenesisTime.Unix() != w.GenesisTime.Unix() ||
		!bytes.Equal(s.GenesisSeed, w.GenesisSeed) || s.CatchupPeriod != w.CatchupPeriod || s.BeaconPeriod != w.BeaconPeriod {
		return false
	}
	if !sameParts([]*pdkg.Participant{s.Leader}, []*pdkg.Participant{w.Leader}) || !sameParts(s.Remaining, w.Remaining) ||
		!sameParts(s.Joining, w.Joining) || !sameParts(s.Leaving, w.Leaving) || !sameParts(s.Acceptors, w.Acceptors) ||
		!sameParts(s.Rejectors, w.Rejectors) {
		return false
	}
	if (s.FinalGroup == nil) != (w.FinalGroup == nil) || (s.KeyShare == nil) != (w.KeyShare == nil) {
		return false
	}
	if s.FinalGroup != nil && !(s.FinalGroup.Equal(w.FinalGroup) && bytes.Equal(s.FinalGroup.Hash(), w.FinalGroup.Hash())) {
		return false
	}
	if s.KeyShare != nil {
		if s.KeyShare.Share == nil || s.KeyShare.Share.I != w.KeyShare.Share.I || !s.KeyShare.Share.V.Equal(w.KeyShare.Share.V) ||
			len(s.KeyShare.Commits) != len(w.KeyShare.Commits) {
			return false
		}
		for i := range s.KeyShare.Commits {
			if !s.KeyShare.Commits[i].Equal(w.KeyShare.Commits[i]) {
				return false
			}
		}
	}
	return true
}

func (n *crashNode) epochOfState(s *dkg.DBState) string {
	if s == nil {
		return "none"
	}
	for e, ei := range n.epochs {
		if ei.saved && n.sameState(s, ei.state) {
			return "E" + strconv.Itoa(e)
		}
	}
	for _, st := range n.stagedAll {
		if n.sameState(s, st) {
			return fmt.Sprintf("staged%d:%s", s.Epoch, s.State.String())
		}
	}
	if s.State == dkg.Fresh && s.Epoch == 0 {
		return "fresh"
	}
	return fmt.Sprintf("mixed[epoch%d,%s]", s.Epoch, s.State.String())
}

func rangesOf(rs []uint64) string {
	if len(rs) == 0 {
		return "empty"
	}
	var parts []string
	start, prev := rs[0], rs[0]
	for _, r := range rs[1:] {
		if r == prev+1 {
			prev = r
			continue
		}
		parts = append(parts, fmt.Sprintf("%d-%d", start, prev))
		start, prev = r, r
	}
	parts = append(parts, fmt.Sprintf("%d-%d", start, prev))
	return strings.Join(parts, ",")
}

// scanChain opens a copy of drand.db the way the node does and lists what a restart finds.
func scanChain(ctx context.Context, dir string, chained bool) string {
	if chained {
		ctx = chain.SetPreviousRequiredOnContext(ctx)
	}
	st, err := boltdb.NewBoltStore(ctx, quietLogger(), dir)
	if err != nil {
		return "open-err"
	}
	defer st.Close()
	var rounds []uint64
	bad := ""
	err = st.Cursor(ctx, func(ctx context.Context, c chain.Cursor) error {
		for b, err := c.First(ctx); err == nil && b != nil; b, err = c.Next(ctx) {
			rounds = append(rounds, b.Round)
			if b.Round > 0 && !bytes.Equal(b.Signature, sigOf(b.Round)) {
				bad = fmt.Sprintf(",wrong-sig@%d", b.Round)
			}
		}
		return nil
	})
	if err != nil {
		return "scan-err"
	}
	last := "none"
	if l, err := st.Last(ctx); err == nil && l != nil {
		last = strconv.FormatUint(l.Round, 10)
	} else if len(rounds) > 0 {
		last = "err"
	}
	return rangesOf(rounds) + ",last=" + last + bad
}

func sigOf(r uint64) []byte {
	b := make([]byte, 16)
	binary.BigEndian.PutUint64(b, r)
	binary.BigEndian.PutUint64(b[8:], r*0x9E3779B97F4A7C15+1)
	return b
}

// recoverImage runs the real start-up on a materialised crash image and reports what it found:
//   fin, cur   the DKG database records as the crash left them (raw store reads BEFORE start-up),
//   load       what the real DrandDaemon.LoadBeaconFromStore did with the image,
//   g, s       the key files as the raw loaders read them once that start-up path has run to its end (a start-up that
//              writes nothing — the as-is path — leaves them as the crash did),
//   pre        (only when start-up changed a key file) what the raw loaders read before it ran,
//   r2         (only when start-up wrote into the groups folder) the start-up path was itself killed at every one of
//              its own persistence steps — reconstructed from the inotify stream like those of a DKG completion — and
//              restarted: one item per such second-level crash image "<step>~<fin>~<g>~<s>~<load>[~r3:…]".
func (n *crashNode) recoverImage(c cut, withChain bool) string { return n.recoverImageAt(c, withChain, 0) }

// how deep crash-during-start-up images are followed: quick 1 (crash inside the first restart), every-offset mode 2
func (n *crashNode) restartDepth() int {
	if n.tornMode == "all" {
		return 2
	}
	return 1
}

func (n *crashNode) rawKeyFiles(dir string) (string, string) {
	ks := key.NewFileStore(filepath.Join(dir, "multibeacon"), n.beaconID)
	gl := safely(func() string {
		g, err := ks.LoadGroup()
		if err != nil {
			return fileErr(err)
		}
		return n.epochOfGroup(g)
	})
	sl := safely(func() string {
		s, err := ks.LoadShare()
		if err != nil {
			return fileErr(err)
		}
		return n.epochOfShare(s)
	})
	if strings.HasPrefix(gl, "panic:") {
		gl = "panic"
	}
	if strings.HasPrefix(sl, "panic:") {
		sl = "panic"
	}
	return gl, sl
}

func (n *crashNode) recoverImageAt(c cut, withChain bool, depth int) string {
	dir, err := os.MkdirTemp(n.root, "img")
	if err != nil {
		panic(err)
	}
	defer os.RemoveAll(dir)
	writeImage(dir, n, c)
	gd := filepath.Join(dir, "multibeacon", n.beaconID, "groups")
	return safely(func() string {
		var f []string
		// raw loaders first (labels), on the image
		fin, curS := "none", "none"
		if c.dkgDb != nil {
			st, err := dkg.NewDKGStore(dir)
			if err != nil {
				fin, curS = "open-err", "open-err"
			} else {
				if s, err := st.GetFinished(n.beaconID); err != nil {
					fin = "err"
				} else {
					fin = n.epochOfState(s)
				}
				if s, err := st.GetCurrent(n.beaconID); err != nil {
					curS = "err"
				} else {
					curS = n.epochOfState(s)
				}
				st.Close()
			}
		}
		gl0, sl0 := n.rawKeyFiles(dir)
		// the real start-up path, its own writes into the groups folder observed
		var evs []fsEvent
		load := safely(func() string {
			dd, _, err := core.VerifNewDaemon(n.ctx, quietLogger(), dir, deafClient{})
			if err != nil {
				return "daemon-err"
			}
			panicked := true
			defer func() {
				if panicked {
					// Load panicked while holding the process lock: only release the database
					dd.VerifAbandon()
				} else {
					dd.VerifShutdown(n.ctx)
				}
			}()
			w := newWatcher(gd)
			defer w.close()
			w.drain()
			bp, err := dd.LoadBeaconFromStore(n.ctx, n.beaconID, dd.VerifKeyStore(n.beaconID))
			evs = w.drain()
			panicked = false
			if err != nil && bp != nil {
				// Load succeeded, StartBeacon (createDBStore / NewHandler) failed
				return "err:start-beacon-failed"
			}
			if err != nil {
				return "err:" + classifyLoadErr(err)
			}
			g, s, idx, running := bp.VerifView()
			if g == nil {
				return "fresh"
			}
			eg, es := n.epochOfGroup(g), n.epochOfShare(s)
			res := "ok:" + eg + "/" + es
			node := g.Find(n.pairs[0].Public)
			if node == nil || int(node.Index) != idx {
				res += ",index-mismatch"
			} else if s != nil && s.Share != nil && s.Share.I != idx {
				res += ",share-index-differs"
			}
			// "the node resumes": the share it signs with lies on the public polynomial of the group it loaded
			if eg == es && strings.HasPrefix(eg, "E") && (g.PublicKey == nil || s == nil || !g.PublicKey.Equal(s.Public())) {
				res += ",share-not-on-group-polynomial"
			}
			if !running {
				res += ",not-running"
			}
			return res
		})
		if strings.HasPrefix(load, "panic:") {
			if strings.Contains(load, "nil pointer dereference") {
				load = "panic:nil-dereference"
			} else {
				load = "panic:other[" + strings.ReplaceAll(load, " ", "_") + "]"
			}
		}
		gl, sl := n.rawKeyFiles(dir)
		f = append(f, "fin="+fin, "cur="+curS, "g="+gl, "s="+sl, "load="+load)
		if withChain {
			ch := "nodb"
			if c.chain != nil {
				ch = scanChain(n.ctx, filepath.Join(dir, "multibeacon", n.beaconID, "db"), n.sch.Name == crypto.DefaultSchemeID)
			}
			f = append(f, "chain="+ch)
		}
		if gl != gl0 || sl != sl0 {
			f = append(f, "pre="+gl0+"/"+sl0)
		}
		// start-up wrote into the groups folder: kill it at each of its own steps and restart
		wrote := false
		for _, e := range evs {
			if e.mask&(syscall.IN_CREATE|syscall.IN_MODIFY|syscall.IN_DELETE|syscall.IN_MOVED_TO|syscall.IN_ATTRIB) != 0 {
				wrote = true
			}
		}
		if wrote {
			after := readDir(gd)
			mode := "few"
			if n.tornMode == "all" && depth == 0 {
				mode = "quick"
			}
			cs, tr := cutsFromEvents(c.groups, after, evs, mode)
			items := []string{"trace:" + strings.Join(tr, ",")}
			// (not below the torn images of the first level: their key files are those of the step before; in the sampled
			// modes once per distinct state (completed record, group file, share) of an op's crash images)
			expand := depth < n.restartDepth() && c.torn == ""
			if expand && depth == 0 && n.tornMode != "all" {
				k := fin + "|" + gl0 + "|" + sl0
				if n.expanded[k] {
					expand = false
				}
				n.expanded[k] = true
			}
			if expand {
				for _, c2 := range cs {
					c2.dkgDb, c2.chain = c.dkgDb, c.chain
					if c2.torn != "" && depth > 0 {
						continue
					}
					rec := parseRecFields(n.recoverImageAt(c2, false, depth+1))
					it := c2.label + "~" + rec["fin"] + "~" + rec["g"] + "~" + rec["s"] + "~" + rec["load"]
					if r, ok := rec["r2"]; ok {
						it += "~r3:" + strings.ReplaceAll(strings.ReplaceAll(r, "~", "^"), "+", "&")
					}
					items = append(items, it)
				}
			}
			f = append(f, "r2="+strings.Join(items, "+"))
		}
		return strings.Join(f, ";")
	})
}

func parseRecFields(s string) map[string]string {
	out := map[string]string{}
	for _, x := range strings.Split(s, ";") {
		if i := strings.Index(x, "="); i > 0 {
			out[x[:i]] = x[i+1:]
		}
	}
	return out
}

// previousCommitImage returns the image of a bolt file as it was before its most recent commit:
// bbolt keeps two meta pages and picks the valid one with the highest txid, pages of the previous
// transaction are not reused before the next-but-one commit; invalidating the newest meta's checksum
// therefore yields exactly the state a crash just before the last commit leaves behind.
func previousCommitImage(img []byte) []byte {
	if len(img) < 2*4096 {
		return nil
	}
	ps := int(binary.LittleEndian.Uint32(img[16+8:]))
	if ps <= 0 || len(img) < 2*ps {
		return nil
	}
	tx0 := binary.LittleEndian.Uint64(img[16+48:])
	tx1 := binary.LittleEndian.Uint64(img[ps+16+48:])
	out := append([]byte{}, img...)
	newest := 0
	if tx1 > tx0 {
		newest = ps
	}
	out[newest+16+56] ^= 0xff // checksum
	return out
}

// ---------------------------------------------------------------------------------------------

func (r *rng) stream() *rngStream { return &rngStream{r} }

type rngStream struct{ r *rng }

func (s *rngStream) XORKeyStream(dst, src []byte) {
	for i := range src {
		dst[i] = src[i] ^ byte(s.r.next())
	}
}

func (n *crashNode) chainTx() int {
	// transaction id of drand.db, read from the newest meta page of a copy (the live file is locked by the node)
	img := readOpt(n.chainFile())
	if len(img) < 2*4096 {
		return 0
	}
	ps := int(binary.LittleEndian.Uint32(img[16+8:]))
	tx0 := binary.LittleEndian.Uint64(img[16+48:])
	tx1 := binary.LittleEndian.Uint64(img[ps+16+48:])
	if tx1 > tx0 {
		return int(tx1)
	}
	return int(tx0)
}

func crashEngine(args []string, in *bufio.Scanner, out *bufio.Writer) {
	tornMode := "quick"
	if len(args) > 0 {
		tornMode = args[0]
	}
	var n *crashNode
	defer func() {
		if n != nil {
			n.destroy()
		}
	}()
	for in.Scan() {
		f := fields(in.Text())
		if len(f) == 0 {
			continue
		}
		if n != nil {
			n.expanded = map[string]bool{}
		}
		res := safely(func() string {
			switch f[0] {
			case "init":
				// init <scheme> <nodes> <period-seconds> <seed>
				if n != nil {
					n.destroy()
				}
				nn, _ := strconv.Atoi(f[2])
				per, _ := strconv.Atoi(f[3])
				seed, _ := strconv.ParseUint(f[4], 10, 64)
				n = &crashNode{tornMode: tornMode, beaconID: "default", sch: mustScheme(f[1]), period: time.Duration(per) * time.Second,
					epochs: map[int]*epochInfo{}, ctx: context.Background(), expanded: map[string]bool{}}
				n.root = tmpDir()
				n.cfg = filepath.Join(n.root, "live")
				r := &rng{s: seed}
				n.secretR = &rng{s: seed ^ 0x5eed}
				n.seed = r.bytes(32)
				now := time.Now().Unix()
				n.genesis = now - int64(per)*1000 // the chain is 1000 rounds old
				for i := 0; i < nn; i++ {
					p, err := key.NewKeyPair(fmt.Sprintf("127.0.0.1:%d", 18000+i), n.sch)
					if err != nil {
						panic(err)
					}
					n.pairs = append(n.pairs, p)
				}
				ks := key.NewFileStore(n.mbDir(), n.beaconID)
				if err := ks.SaveKeyPair(n.pairs[0]); err != nil {
					return "err:" + err.Error()
				}
				return n.boot()
			case "beacon":
				// beacon <k>: store the next k rounds through the running handler; after each Put snapshot drand.db
				// while it is open and recover from the copy, and from the copy rolled back by one commit
				k, _ := strconv.Atoi(f[1])
				if n.bp == nil {
					return "no-node"
				}
				if _, _, _, running := n.bp.VerifView(); !running {
					return "not-running"
				}
				var parts []string
				groups := readDir(n.groupsDir())
				dkgDb := readOpt(n.dkgFile())
				for i := 0; i < k; i++ {
					txBefore := n.chainTx()
					b := &common.Beacon{Round: n.round + 1, Signature: sigOf(n.round + 1), PreviousSig: n.lastSig}
					if err := n.bp.VerifPut(n.ctx, b); err != nil {
						parts = append(parts, fmt.Sprintf("put%d:err:%s", b.Round, strings.ReplaceAll(err.Error(), " ", "_")))
						break
					}
					n.round, n.lastSig = b.Round, b.Signature
					img := readOpt(n.chainFile())
					tx := n.chainTx() - txBefore
					after := n.recoverImage(cut{groups: groups, dkgDb: dkgDb, chain: img}, true)
					before := n.recoverImage(cut{groups: groups, dkgDb: dkgDb, chain: previousCommitImage(img)}, true)
					pick := func(s string) string {
						var keep []string
						for _, x := range strings.Split(s, ";") {
							if strings.HasPrefix(x, "chain=") || strings.HasPrefix(x, "load=") {
								keep = append(keep, x)
							}
						}
						return strings.Join(keep, ";")
					}
					parts = append(parts, fmt.Sprintf("put%d:tx=%d:before{%s}:after{%s}", b.Round, tx, pick(before), pick(after)))
				}
				return strings.Join(parts, " | ")
			case "dkg":
				// dkg <kind> <members csv> <thr> [order=SaveFinished,send]
				return n.dkgOp(f[1:])
			case "staged":
				// staged <status>: a DKG step that only touches the staged bucket (proposal, acceptance, failure, leaving)
				return n.stagedOp(f[1])
			case "stray":
				// stray <group|share>: what an earlier run that died inside a Save may have left behind — a stale sibling
				// "<file>.tmp", longer than any real encoding, undecodable, with a loose mode. Nothing may ever load it,
				// and a later Save must not be confused by it.
				if n == nil || n.dkgStore == nil || n.bp == nil {
					return "no-node"
				}
				name := map[string]string{"group": "drand_group.toml", "share": "dist_key.private"}[f[1]]
				if name == "" {
					return "bad-op"
				}
				junk := bytes.Repeat([]byte("Stale = \"left by an interrupted save\"\n[[[\n"), 400)
				if cur := readOpt(filepath.Join(n.groupsDir(), name)); len(cur) > 0 {
					junk = append(append([]byte{}, cur[:len(cur)/2]...), junk...)
				}
				if err := os.WriteFile(filepath.Join(n.groupsDir(), name+".tmp"), junk, 0o644); err != nil {
					return "err:" + err.Error()
				}
				return "ok"
			case "load":
				c := cut{label: "rest", groups: readDir(n.groupsDir()), dkgDb: readOpt(n.dkgFile()), chain: readOpt(n.chainFile())}
				return "rest;" + n.recoverImage(c, true)
			case "restart":
				n.shutdown()
				return n.boot()
			}
			return "bad-op"
		})
		fmt.Fprintln(out, res)
		out.Flush()
	}
}

func (n *crashNode) stagedOp(status string) string {
	if n.dkgStore == nil {
		return "no-node"
	}
	var st dkg.Status
	switch status {
	case "proposed":
		st = dkg.Proposed
	case "accepted":
		st = dkg.Accepted
	case "executing":
		st = dkg.Executing
	case "failed":
		st = dkg.Failed
	case "left":
		st = dkg.Left
	case "aborted":
		st = dkg.Aborted
	default:
		return "bad-op"
	}
	cur, err := n.dkgStore.GetCurrent(n.beaconID)
	if err != nil {
		return "err:" + err.Error()
	}
	next := *cur
	next.BeaconID = n.beaconID
	next.Epoch = uint32(n.lastEp + 1)
	next.State = st
	next.Timeout = time.Now().Add(time.Hour).UTC().Truncate(time.Second)
	next.SchemeID = n.sch.Name
	next.GenesisTime = time.Unix(n.genesis, 0).UTC()
	next.BeaconPeriod = n.period
	next.CatchupPeriod = n.period / 2
	next.Threshold = 2
	next.FinalGroup, next.KeyShare = nil, nil
	groups := readDir(n.groupsDir())
	chainImg := readOpt(n.chainFile())
	tx0 := n.dkgStore.VerifTxID()
	before := readOpt(n.dkgFile())
	if err := n.dkgStore.SaveCurrent(n.beaconID, &next); err != nil {
		return "err:" + err.Error()
	}
	n.stagedAll = append(n.stagedAll, &next)
	after := readOpt(n.dkgFile())
	tx := n.dkgStore.VerifTxID() - tx0
	var parts []string
	parts = append(parts, "start;"+n.recoverImage(cut{groups: groups, dkgDb: before, chain: chainImg}, false))
	if tx != 1 {
		parts = append(parts, fmt.Sprintf("SaveCurrent~prev-commit;%s", n.recoverImage(cut{groups: groups, dkgDb: previousCommitImage(after), chain: chainImg}, false)))
	}
	parts = append(parts, fmt.Sprintf("SaveCurrent;%s", n.recoverImage(cut{groups: groups, dkgDb: after, chain: chainImg}, false)))
	return fmt.Sprintf("tx=%d | ", tx) + strings.Join(parts, " | ")
}

func (n *crashNode) dkgOp(a []string) string {
	if n.dkgStore == nil || n.bp == nil {
		return "no-node"
	}
	kind := a[0]
	var members []int
	for _, s := range strings.Split(a[1], ",") {
		m, _ := strconv.Atoi(s)
		members = append(members, m)
	}
	thr, _ := strconv.Atoi(a[2])
	order := []string{"SaveFinished", "send"}
	ahead := 10
	for _, x := range a[3:] {
		if strings.HasPrefix(x, "order=") {
			order = strings.Split(x[6:], ",")
		}
		if strings.HasPrefix(x, "tt=") {
			ahead, _ = strconv.Atoi(x[3:])
		}
	}
	// transition time: aligned on a round, ahead of now (stay/join) or already past (evicted: StopAt must not sleep)
	now := time.Now().Unix()
	cr := common.CurrentRound(now, n.period, n.genesis)
	tt := common.TimeOfRound(n.period, n.genesis, uint64(int64(cr)+int64(ahead)))
	ei := n.newEpoch(members, thr, tt)
	e := n.lastEp + 1
	if kind == "skip" {
		// the network moves on without this node: nothing is persisted here
		final, err := ei.state.Complete(ei.group, ei.share)
		if err != nil {
			return "err:complete:" + err.Error()
		}
		ei.state = final
		n.epochs[e] = ei
		n.lastEp = e
		return "skipped"
	}
	// executeAndFinishDKG reads lastCompleted from the node's own store before it executes
	old, err := n.dkgStore.GetFinished(n.beaconID)
	if err != nil {
		return "err:GetFinished:" + err.Error()
	}
	final, err := ei.state.Complete(ei.group, ei.share)
	if err != nil {
		return "err:complete:" + err.Error()
	}
	ei.state = final
	ei.saved = true
	n.epochs[e] = ei
	n.lastEp = e

	groups0 := readDir(n.groupsDir())
	chainImg := readOpt(n.chainFile())
	var cuts []cut
	dkgImg := readOpt(n.dkgFile())
	cuts = append(cuts, cut{label: "start", groups: groups0, dkgDb: dkgImg, chain: chainImg})
	var trace []string
	txs := ""
	curGroups := groups0
	for _, step := range order {
		switch step {
		case "SaveFinished":
			tx0 := n.dkgStore.VerifTxID()
			if err := n.dkgStore.SaveFinished(n.beaconID, final); err != nil {
				return "err:SaveFinished:" + err.Error()
			}
			tx := n.dkgStore.VerifTxID() - tx0
			txs = fmt.Sprintf("tx=%d", tx)
			img := readOpt(n.dkgFile())
			if tx != 1 {
				// more than one commit: the state before the last commit is a reachable crash image
				cuts = append(cuts, cut{label: "SaveFinished~prev-commit", groups: curGroups, dkgDb: previousCommitImage(img), chain: chainImg})
			} else if pc := previousCommitImage(img); pc != nil {
				// sanity of the roll-back trick itself: one commit back must be the state before the call
				cuts = append(cuts, cut{label: "SaveFinished~rollback", groups: curGroups, dkgDb: pc, chain: chainImg})
			}
			dkgImg = img
			trace = append(trace, "SaveFinished")
			cuts = append(cuts, cut{label: "SaveFinished", groups: curGroups, dkgDb: dkgImg, chain: chainImg})
		case "send":
			w := newWatcher(n.groupsDir())
			w.drain()
			oerr := n.bp.VerifOnDKGCompleted(n.ctx, &dkg.SharingOutput{BeaconID: n.beaconID, Old: old, New: *final})
			evs := w.drain()
			w.close()
			_ = oerr
			after := readDir(n.groupsDir())
			cs, tr := cutsFromEvents(curGroups, after, evs, n.tornMode)
			for i := range cs {
				cs[i].dkgDb, cs[i].chain = dkgImg, chainImg
			}
			// the chain db may have been created by joinNetwork -> StartBeacon
			chainImg = readOpt(n.chainFile())
			cuts = append(cuts, cs...)
			trace = append(trace, tr...)
			curGroups = after
			if len(cs) > 0 && !sameFiles(cs[len(cs)-1].groups, after) {
				cuts = append(cuts, cut{label: "unexplained-final-state", groups: after, dkgDb: dkgImg, chain: chainImg})
			}
		default:
			return "bad-order"
		}
	}
	var parts []string
	parts = append(parts, txs+";trace="+strings.Join(trace, ","))
	for _, c := range cuts {
		parts = append(parts, c.label+";"+n.recoverImage(c, false))
	}
	// the live node follows its own state: a node that joined now has a running handler
	if _, _, _, running := n.bp.VerifView(); running {
		if last, err := n.bp.VerifDBStore().Last(n.ctx); err == nil {
			n.round, n.lastSig = last.Round, last.Signature
		}
	}
	return strings.Join(parts, " | ")
}

func sameFiles(a, b files) bool {
	if len(a) != len(b) {
		return false
	}
	for k, v := range a {
		if w, ok := b[k]; !ok || !bytes.Equal(v, w) {
			return false
		}
	}
	return true
}
