//go:build verif

package main

type c14BeaconWorld struct{}

func (b *c14BeaconWorld) close() {}

func beaconOp(w *c14World, f []string) (string, bool) { return "", false }
