//go:build verif

package main

// Beacon side of the "dispatch" engine (C14): a real beacon.Handler over a real (trimmed bolt) store with a
// three-node group, wrapped in a core.BeaconProcess / core.DrandDaemon assembled by export shims, served by the
// real peer-facing gRPC listener on loopback.
//
// ops:
//   bphase <running|nodkg|stopped>                                              -> ok
//   partial  <layer> <P> <META> <ROUND> <PSIG> <PREV>     layer ∈ handler|bp|daemon|grpc
//   sync     <layer> <R> <META> <FROM>                    layer ∈ fn|bp|daemon|grpc
//   pubrand  <layer> <R> <META> <ROUND>                   layer ∈ bp|daemon|grpc
//   pubstream <layer> <R> <META> <FROM>                   layer ∈ bp|daemon|grpc
//   chaininfo|identity <layer> <R> <META>                 layer ∈ bp|daemon|grpc
//   pstatus  <layer> <R> <META> <CONN>                    layer ∈ bp|daemon|grpc
//   http <PREFIX> <EP>     the real public HTTP handler (handler/http) over the production REST listener on loopback;
//                          PREFIX ∈ none|known|unknown|malformed|odd|huge, EP ∈ latest|info|health|chains|round:<class>
// META = nil | <id>/<hash>/<ver>, id ∈ absent|known|unknown|malformed, hash ∈ absent|known|unknown|malformed, ver ∈ none|ok|bad
// result: <outcome> bplock=… hlock=… ci=… pb=…     (streams: outcome stream:<beacons received>)

import (
	"context"
	"fmt"
	"encoding/hex"
	"errors"
	"io"
	"net"
	"net/http"
	"os"
	"strings"
	"sync"
	"time"

	clock "github.com/jonboulle/clockwork"
	"google.golang.org/grpc"
	"google.golang.org/grpc/codes"
	"google.golang.org/grpc/credentials/insecure"
	"google.golang.org/grpc/peer"
	"google.golang.org/grpc/status"

	"github.com/drand/drand/v2/common"
	chain2 "github.com/drand/drand/v2/common/chain"
	"github.com/drand/drand/v2/common/key"
	dhttp "github.com/drand/drand/v2/handler/http"
	"github.com/drand/drand/v2/internal/chain"
	"github.com/drand/drand/v2/internal/chain/beacon"
	"github.com/drand/drand/v2/internal/chain/boltdb"
	"github.com/drand/drand/v2/internal/core"
	dnet "github.com/drand/drand/v2/internal/net"
	"github.com/drand/drand/v2/protobuf/drand"
	"github.com/drand/kyber/share"
	kdkg "github.com/drand/kyber/share/dkg"
	"github.com/drand/kyber/util/random"
)

const (
	c14N       = 3
	c14Thr     = 2
	c14Period  = 3 * time.Second
	c14Genesis = int64(1_700_000_000)
	c14Stored  = 5 // rounds 0..5 are in the store; the clock stands in round 5
)

type c14BeaconWorld struct {
	w       *c14World
	phase   string
	pairs   []*key.Pair
	group   *key.Group
	shares  []*key.Share
	pub     *share.PubPoly
	me      int
	clk     *clock.FakeClock
	dir     string
	h       *beacon.Handler
	bp      *core.BeaconProcess
	dd      *core.DrandDaemon
	gw      *dnet.PrivateGateway
	rest    *dnet.PublicGateway
	hcancel context.CancelFunc
	conn    *grpc.ClientConn
	beacons []*common.Beacon
	hash    []byte
	wedged  bool
	nops    int
}

func (b *c14BeaconWorld) close() {
	if b == nil {
		return
	}
	if b.conn != nil {
		b.conn.Close()
	}
	if b.gw != nil {
		b.gw.StopAll(context.Background())
	}
	if b.rest != nil {
		b.hcancel()
		sctx, c := context.WithTimeout(context.Background(), time.Second)
		b.rest.StopAll(sctx)
		c()
	}
	done := make(chan struct{})
	go func() {
		defer close(done)
		defer func() { _ = recover() }()
		if b.h != nil && b.phase != "stopped" {
			b.h.Stop(context.Background())
		}
	}()
	select {
	case <-done:
	case <-time.After(3 * time.Second):
	}
	os.RemoveAll(b.dir)
}

func newC14BeaconWorld(w *c14World, phase string) *c14BeaconWorld {
	sch := w.sch
	b := &c14BeaconWorld{w: w, phase: phase, me: 0}
	// distributed key: one polynomial, shares 0..n-1 (what a DKG would have produced)
	pri := share.NewPriPoly(sch.KeyGroup, c14Thr, sch.KeyGroup.Scalar().Pick(random.New()), random.New())
	b.pub = pri.Commit(sch.KeyGroup.Point().Base())
	_, commits := b.pub.Info()
	var nodes []*key.Node
	for i := 0; i < c14N; i++ {
		p, err := key.NewKeyPair(fmt.Sprintf("127.0.0.1:%d", 4201+i), sch)
		mustOK("NewKeyPair", err)
		b.pairs = append(b.pairs, p)
		nodes = append(nodes, &key.Node{Identity: p.Public, Index: uint32(i)})
	}
	for _, s := range pri.Shares(c14N) {
		b.shares = append(b.shares, &key.Share{DistKeyShare: kdkg.DistKeyShare{Share: s, Commits: commits}, Scheme: sch})
	}
	b.group = key.LoadGroup(nodes, c14Genesis, &key.DistPublic{Coefficients: commits}, c14Period, 0, sch, c14BeaconID)
	b.group.Threshold = c14Thr
	b.group.GenesisSeed = b.group.GetGenesisSeed()
	info := chain2.NewChainInfo(b.group)
	b.hash = info.Hash()
	// chain 0..5 signed by the group key
	b.beacons = []*common.Beacon{chain.GenesisBeacon(b.group.GenesisSeed)}
	for r := uint64(1); r <= c14Stored; r++ {
		prev := b.beacons[r-1].Signature
		nb := &common.Beacon{Round: r, PreviousSig: prev}
		msg := sch.DigestBeacon(nb)
		var parts [][]byte
		for i := 0; i < c14Thr; i++ {
			ps, err := sch.ThresholdScheme.Sign(b.shares[i].PrivateShare(), msg)
			mustOK("sign partial", err)
			parts = append(parts, ps)
		}
		sig, err := sch.ThresholdScheme.Recover(b.pub, msg, parts, c14Thr, c14N)
		mustOK("recover", err)
		nb.Signature = sig
		b.beacons = append(b.beacons, nb)
	}
	b.clk = clock.NewFakeClockAt(time.Unix(c14Genesis+int64(c14Stored-1)*int64(c14Period/time.Second)+1, 0))
	b.dir = tmpDir()
	ctx := chain.SetPreviousRequiredOnContext(context.Background())
	st, err := boltdb.NewBoltStore(ctx, quietLogger(), b.dir)
	mustOK("NewBoltStore", err)
	for _, bc := range b.beacons {
		mustOK("store put", st.Put(ctx, bc))
	}
	var gw *dnet.PrivateGateway
	if phase != "nodkg" {
		conf := &beacon.Config{Public: nodes[b.me], Share: b.shares[b.me], Group: b.group, Clock: b.clk}
		b.h, err = beacon.NewHandler(ctx, dnet.NewGrpcClient(quietLogger()), st, conf, quietLogger(), common.GetAppVersion())
		mustOK("NewHandler", err)
		b.bp = core.VerifNewBeaconProcess(c14BeaconID, b.pairs[b.me], b.group, b.shares[b.me], b.h, b.hash, quietLogger(), b.clk, gw)
	} else {
		st.Close()
		b.bp = core.VerifNewBeaconProcess(c14BeaconID, b.pairs[b.me], nil, nil, nil, nil, quietLogger(), b.clk, gw)
	}
	if phase == "stopped" {
		b.bp.StopBeacon(context.Background())
	}
	b.dd = core.VerifNewDaemonC14(quietLogger(), nil, map[string]*core.BeaconProcess{c14BeaconID: b.bp})
	// the production constructor of the peer-facing gateway (listener with its interceptor chain + clients)
	b.gw, err = dnet.NewGRPCPrivateGateway(context.Background(), "127.0.0.1:0", b.dd)
	mustOK("NewGRPCPrivateGateway", err)
	b.gw.StartAll()
	b.bp.VerifSetGateway(b.gw)
	// the public HTTP API as the daemon assembles it: handler/http in front of the beacon process, production REST listener
	hctx, hcancel := context.WithCancel(context.Background())
	b.hcancel = hcancel
	hh, err := dhttp.New(hctx, "verif")
	mustOK("dhttp.New", err)
	if phase != "nodkg" { // AddBeaconHandler runs once the group exists
		bh := hh.RegisterNewBeaconHandler(core.Proxy(b.bp), hex.EncodeToString(b.hash))
		hh.RegisterDefaultBeaconHandler(bh)
	}
	b.rest, err = dnet.NewRESTPublicGateway(hctx, "127.0.0.1:0", hh.GetHTTPHandler())
	mustOK("NewRESTPublicGateway", err)
	b.rest.StartAll()
	return b
}

func (b *c14BeaconWorld) httpPath(prefix, ep string) string {
	p := ""
	switch prefix {
	case "none":
	case "known":
		p = "/" + hex.EncodeToString(b.hash)
	case "unknown":
		p = "/" + hex.EncodeToString(b.w.junk(32))
	case "malformed":
		p = "/zz"
	case "odd":
		p = "/abc"
	case "huge":
		p = "/" + strings.Repeat("ab", 4096)
	default:
		panic("bad http prefix " + prefix)
	}
	switch {
	case ep == "latest":
		return p + "/public/latest"
	case ep == "info" || ep == "health" || ep == "chains":
		return p + "/" + ep
	case strings.HasPrefix(ep, "round:"):
		r := map[string]string{"zero": "0", "one": "1", "last": fmt.Sprint(c14Stored), "beyond": fmt.Sprint(c14Stored + 2),
			"far": "4611686018427387904", "max": "18446744073709551615", "overflow": "18446744073709551616", "neg": "-1", "alpha": "latest%00x"}[ep[6:]]
		if r == "" {
			panic("bad http round class " + ep)
		}
		return p + "/public/" + r
	}
	panic("bad http endpoint " + ep)
}

// callHTTP: ok = 2xx, err = any other status, contained = the connection was dropped without a response (net/http recovered
// a handler panic), hang = no response within watchdog + confirmation window
func (b *c14BeaconWorld) callHTTP(prefix, ep string) (string, string) {
	cl := &http.Client{Timeout: c14Watchdog + c14Confirm, Transport: &http.Transport{DisableKeepAlives: true}}
	resp, err := cl.Get("http://" + b.rest.Listener.Addr() + b.httpPath(prefix, ep))
	if err != nil {
		var ne net.Error
		if errors.As(err, &ne) && ne.Timeout() {
			return "hang", err.Error()
		}
		return "contained", err.Error()
	}
	defer resp.Body.Close()
	_, _ = io.Copy(io.Discard, resp.Body)
	if resp.StatusCode >= 200 && resp.StatusCode < 300 {
		return "ok", ""
	}
	return "err", resp.Status
}

func (b *c14BeaconWorld) grpcConn() *grpc.ClientConn {
	if b.conn != nil {
		return b.conn
	}
	conn, err := grpc.NewClient(b.gw.Listener.Addr(), grpc.WithTransportCredentials(insecure.NewCredentials()),
		grpc.WithDefaultCallOptions(grpc.MaxCallSendMsgSize(64<<20), grpc.MaxCallRecvMsgSize(64<<20)))
	mustOK("grpc.NewClient", err)
	b.conn = conn
	return conn
}

// ---------------------------------------------------------------- request builders

func (b *c14BeaconWorld) meta(class string) *drand.Metadata {
	if class == "nil" {
		return nil
	}
	f := strings.Split(class, "/")
	if len(f) != 3 {
		panic("bad meta class " + class)
	}
	m := &drand.Metadata{BeaconID: idOf(f[0])}
	switch f[1] {
	case "absent":
	case "known":
		m.ChainHash = append([]byte{}, b.hash...)
	case "unknown":
		m.ChainHash = b.w.junk(32)
	case "malformed":
		m.ChainHash = b.w.junk(5)
	case "big":
		m.ChainHash = b.w.junk(1 << 20)
	default:
		panic("bad hash class " + f[1])
	}
	v := common.GetAppVersion()
	switch f[2] {
	case "none":
	case "ok":
		m.NodeVersion = v.ToProto()
	case "bad":
		m.NodeVersion = &drand.NodeVersion{Major: v.Major + 7, Minor: 99}
	case "pre":
		s := strings.Repeat("x", 1<<16)
		m.NodeVersion = &drand.NodeVersion{Major: v.Major + 7, Minor: 99, Prerelease: &s}
	default:
		panic("bad version class " + f[2])
	}
	return m
}

func (b *c14BeaconWorld) roundOf(class string) uint64 {
	switch class {
	case "zero":
		return 0
	case "one":
		return 1
	case "past":
		return 3
	case "last":
		return c14Stored
	case "next":
		return c14Stored + 1
	case "future", "beyond":
		return c14Stored + 2
	case "max":
		return ^uint64(0)
	}
	panic("bad round class " + class)
}

func (b *c14BeaconWorld) partial(f []string) *drand.PartialBeaconPacket {
	// f = P META ROUND PSIG PREV
	if f[0] == "nil" {
		return nil
	}
	p := &drand.PartialBeaconPacket{Metadata: b.meta(f[1]), Round: b.roundOf(f[2])}
	right := b.beacons[c14Stored].Signature
	switch f[4] {
	case "right":
		p.PreviousSignature = append([]byte{}, right...)
	case "empty":
	case "junk":
		p.PreviousSignature = b.w.junk(len(right))
	case "big":
		p.PreviousSignature = b.w.junk(1 << 20)
	default:
		panic("bad prev class " + f[4])
	}
	sign := func(idx int) []byte {
		msg := b.w.sch.DigestBeacon(&common.Beacon{Round: p.Round, PreviousSig: right})
		s, err := b.w.sch.ThresholdScheme.Sign(b.shares[idx].PrivateShare(), msg)
		mustOK("sign partial", err)
		return s
	}
	switch f[3] {
	case "empty":
	case "b1":
		p.PartialSig = b.w.junk(1)
	case "b2":
		p.PartialSig = []byte{0, 1}
	case "valid":
		p.PartialSig = sign(1)
	case "own":
		p.PartialSig = sign(b.me)
	case "outidx":
		s := sign(1)
		s[0], s[1] = 0, 9
		p.PartialSig = s
	case "hugeidx":
		s := sign(1)
		s[0], s[1] = 0xff, 0xff
		p.PartialSig = s
	case "badsig":
		s := b.w.junk(len(sign(1)))
		s[0], s[1] = 0, 1
		p.PartialSig = s
	case "trunc":
		s := sign(1)
		p.PartialSig = s[:len(s)-1]
	case "big":
		s := b.w.junk(1 << 20)
		s[0], s[1] = 0, 1
		p.PartialSig = s
	default:
		panic("bad psig class " + f[3])
	}
	return p
}

// ---------------------------------------------------------------- streams

type fakeSyncStream struct {
	grpc.ServerStream
	ctx context.Context
	mu  sync.Mutex
	n   int
}

func (s *fakeSyncStream) Context() context.Context { return s.ctx }
func (s *fakeSyncStream) Send(*drand.BeaconPacket) error {
	s.mu.Lock()
	s.n++
	s.mu.Unlock()
	return nil
}

type fakeRandStream struct {
	grpc.ServerStream
	ctx context.Context
	mu  sync.Mutex
	n   int
}

func (s *fakeRandStream) Context() context.Context { return s.ctx }
func (s *fakeRandStream) Send(*drand.PublicRandResponse) error {
	s.mu.Lock()
	s.n++
	s.mu.Unlock()
	return nil
}

const c14StreamIdle = 150 * time.Millisecond

// guardedStream runs a server-streaming handler: lets it run for a quiet period, then cancels its context and expects it to
// return. Outcome: err (returned by itself with an error) | stream:<n> (served n beacons until cancelled) | panic:… | contained | hang.
func guardedStream(f func(ctx context.Context) error, count func() int, remote bool) (string, string) {
	// in-process streams get a peer address of their own: SyncChain keys its store callback by the remote address, and the
	// HTTP handler's in-process watcher already uses the empty one
	base := peer.NewContext(context.Background(), &peer.Peer{Addr: &net.TCPAddr{IP: net.IPv4(198, 51, 100, 7), Port: 4711}})
	ctx, cancel := context.WithCancel(base)
	defer cancel()
	ch := make(chan [2]string, 1)
	go func() {
		defer func() {
			if r := recover(); r != nil {
				ch <- [2]string{"panic:" + panicSite(), fmt.Sprint(r)}
			}
		}()
		err := f(ctx)
		switch {
		case err == nil || err == io.EOF:
			ch <- [2]string{"ok", ""}
		case status.Code(err) == codes.Internal:
			ch <- [2]string{"contained", err.Error()}
		case ctx.Err() != nil:
			ch <- [2]string{"cancelled", err.Error()}
		default:
			ch <- [2]string{"err", err.Error()}
		}
	}()
	// quiet period: over the real listener an error only reaches the client with the first Recv, so a stream that
	// has delivered nothing yet is given longer before it is taken to be "open and waiting"
	idle := c14StreamIdle
	waited := time.Duration(0)
	for {
		select {
		case r := <-ch:
			return r[0], r[1]
		case <-time.After(idle):
		}
		waited += idle
		if !remote || count() > 0 || waited >= 8*c14StreamIdle {
			break
		}
	}
	cancel()
	select {
	case r := <-ch:
		if r[0] == "cancelled" || r[0] == "ok" {
			return fmt.Sprintf("stream:%d", count()), r[1]
		}
		return r[0], r[1]
	case <-time.After(c14Watchdog + c14Confirm):
		return "hang", ""
	}
}

// ---------------------------------------------------------------- calls

func (b *c14BeaconWorld) callPartial(layer string, p *drand.PartialBeaconPacket) (string, string) {
	return guarded(c14Watchdog, func(ctx context.Context) error {
		var err error
		switch layer {
		case "handler":
			_, err = b.h.ProcessPartialBeacon(ctx, p)
		case "bp":
			_, err = b.bp.PartialBeacon(ctx, p)
		case "daemon":
			_, err = b.dd.PartialBeacon(ctx, p)
		case "grpc":
			_, err = drand.NewProtocolClient(b.grpcConn()).PartialBeacon(ctx, p)
		default:
			panic("bad layer " + layer)
		}
		return err
	})
}

func (b *c14BeaconWorld) callSync(layer string, r *drand.SyncRequest) (string, string) {
	var fs *fakeSyncStream
	n := 0
	var mu sync.Mutex
	return guardedStream(func(ctx context.Context) error {
		fs = &fakeSyncStream{ctx: ctx}
		switch layer {
		case "fn":
			return beacon.SyncChain(quietLogger(), b.h.Store(), r, fs)
		case "bp":
			return b.bp.SyncChain(r, fs)
		case "daemon":
			return b.dd.SyncChain(r, fs)
		case "grpc":
			st, err := drand.NewProtocolClient(b.grpcConn()).SyncChain(ctx, r)
			if err != nil {
				return err
			}
			for {
				if _, err := st.Recv(); err != nil {
					return err
				}
				mu.Lock()
				n++
				mu.Unlock()
			}
		}
		panic("bad layer " + layer)
	}, func() int {
		if layer == "grpc" {
			mu.Lock()
			defer mu.Unlock()
			return n
		}
		fs.mu.Lock()
		defer fs.mu.Unlock()
		return fs.n
	}, layer == "grpc")
}

func (b *c14BeaconWorld) callPubStream(layer string, r *drand.PublicRandRequest) (string, string) {
	var fs *fakeRandStream
	n := 0
	var mu sync.Mutex
	return guardedStream(func(ctx context.Context) error {
		fs = &fakeRandStream{ctx: ctx}
		switch layer {
		case "bp":
			return b.bp.PublicRandStream(r, fs)
		case "daemon":
			return b.dd.PublicRandStream(r, fs)
		case "grpc":
			st, err := drand.NewPublicClient(b.grpcConn()).PublicRandStream(ctx, r)
			if err != nil {
				return err
			}
			for {
				if _, err := st.Recv(); err != nil {
					return err
				}
				mu.Lock()
				n++
				mu.Unlock()
			}
		}
		panic("bad layer " + layer)
	}, func() int {
		if layer == "grpc" {
			mu.Lock()
			defer mu.Unlock()
			return n
		}
		fs.mu.Lock()
		defer fs.mu.Unlock()
		return fs.n
	}, layer == "grpc")
}

func (b *c14BeaconWorld) callUnary(op, layer string, f []string) (string, string) {
	return guarded(c14Watchdog, func(ctx context.Context) error {
		var err error
		isNil := f[0] == "nil"
		switch op {
		case "pubrand":
			var r *drand.PublicRandRequest
			if !isNil {
				r = &drand.PublicRandRequest{Metadata: b.meta(f[1]), Round: b.roundOf(f[2])}
			}
			switch layer {
			case "bp":
				_, err = b.bp.PublicRand(ctx, r)
			case "daemon":
				_, err = b.dd.PublicRand(ctx, r)
			case "grpc":
				_, err = drand.NewPublicClient(b.grpcConn()).PublicRand(ctx, r)
			}
		case "chaininfo":
			var r *drand.ChainInfoRequest
			if !isNil {
				r = &drand.ChainInfoRequest{Metadata: b.meta(f[1])}
			}
			switch layer {
			case "bp":
				_, err = b.bp.ChainInfo(ctx, r)
			case "daemon":
				_, err = b.dd.ChainInfo(ctx, r)
			case "grpc":
				_, err = drand.NewPublicClient(b.grpcConn()).ChainInfo(ctx, r)
			}
		case "identity":
			var r *drand.IdentityRequest
			if !isNil {
				r = &drand.IdentityRequest{Metadata: b.meta(f[1])}
			}
			switch layer {
			case "bp":
				_, err = b.bp.GetIdentity(ctx, r)
			case "daemon":
				_, err = b.dd.GetIdentity(ctx, r)
			case "grpc":
				_, err = drand.NewProtocolClient(b.grpcConn()).GetIdentity(ctx, r)
			}
		case "pstatus":
			var r *drand.StatusRequest
			if !isNil {
				r = &drand.StatusRequest{Metadata: b.meta(f[1])}
				switch f[2] {
				case "none":
				case "self":
					r.CheckConn = []*drand.Address{{Address: b.pairs[b.me].Public.Addr}}
				case "empty":
					r.CheckConn = []*drand.Address{{}, {Address: ""}}
				case "nilelem":
					r.CheckConn = []*drand.Address{nil}
				case "closed3":
					for i := 0; i < 3; i++ {
						r.CheckConn = append(r.CheckConn, &drand.Address{Address: "127.0.0.1:1"})
					}
				default:
					panic("bad conn class " + f[2])
				}
			}
			switch layer {
			case "bp":
				_, err = b.bp.Status(ctx, r)
			case "daemon":
				_, err = b.dd.Status(ctx, r)
			case "grpc":
				_, err = drand.NewProtocolClient(b.grpcConn()).Status(ctx, r)
			}
		}
		return err
	})
}

func (b *c14BeaconWorld) probes(layer string, full bool) string {
	bpl, hl := "free", "free"
	if !b.bp.VerifStateLockFree() {
		bpl = "held"
	}
	if b.h != nil && !beacon.VerifHandlerLockFree(b.h) {
		hl = "held"
	}
	if !full && bpl == "free" && hl == "free" {
		return "bplock=free hlock=free ci=- pb=-"
	}
	save := c14Watchdog
	c14Watchdog = c14ProbeWatchdog
	defer func() { c14Watchdog = save }()
	pl := layer
	if pl == "handler" || pl == "fn" {
		pl = "bp"
	}
	okMeta := "known/known/ok"
	ci, _ := b.callUnary("chaininfo", pl, []string{"some", okMeta})
	pb, _ := b.callPartial(pl, b.partial([]string{"some", okMeta, "past", "valid", "right"}))
	return fmt.Sprintf("bplock=%s hlock=%s ci=%s pb=%s", bpl, hl, ci, pb)
}

// tarpitStatus: a Protocol.Status request whose CheckConn lists k times the address of a listener that accepts TCP
// connections and never answers. Reports how long the call took, whether bp.state was read-held meanwhile, and
// whether (with a writer queued on bp.state, as StopBeacon / a DKG transition would be) a PartialBeacon got through.
func (b *c14BeaconWorld) tarpitStatus(layer string, k int) string {
	ln, err := net.Listen("tcp", "127.0.0.1:0")
	mustOK("tarpit listen", err)
	defer ln.Close()
	var conns []net.Conn
	var cmu sync.Mutex
	go func() {
		for {
			c, err := ln.Accept()
			if err != nil {
				return
			}
			cmu.Lock()
			conns = append(conns, c)
			cmu.Unlock()
		}
	}()
	defer func() {
		cmu.Lock()
		for _, c := range conns {
			c.Close()
		}
		cmu.Unlock()
	}()
	r := &drand.StatusRequest{Metadata: b.meta("known/known/ok")}
	for i := 0; i < k; i++ {
		r.CheckConn = append(r.CheckConn, &drand.Address{Address: ln.Addr().String()})
	}
	t0 := time.Now()
	done := make(chan string, 1)
	go func() {
		o, _ := guarded(time.Duration(k)*4*time.Second+5*time.Second, func(ctx context.Context) error {
			var err error
			switch layer {
			case "bp":
				_, err = b.bp.Status(ctx, r)
			case "daemon":
				_, err = b.dd.Status(ctx, r)
			case "grpc":
				_, err = drand.NewProtocolClient(b.grpcConn()).Status(ctx, r)
			}
			return err
		})
		done <- o
	}()
	// wait until the handler is inside its critical section (on a loaded machine the request may take a while to arrive)
	held := "free"
	for i := 0; i < 150 && held == "free"; i++ {
		time.Sleep(20 * time.Millisecond)
		if !b.bp.VerifStateLockFree() {
			held = "rheld"
		}
	}
	// a writer arrives (StopBeacon, newBeacon, storeDKGOutput … take bp.state.Lock)
	wdone := make(chan struct{})
	go func() { b.bp.VerifStateWriteLockUnlock(); close(wdone) }()
	time.Sleep(200 * time.Millisecond)
	// a PartialBeacon arriving now: does it get through before the Status call is over?
	pbStart := time.Now()
	pbDone := make(chan time.Time, 1)
	go func() {
		defer func() { _ = recover(); pbDone <- time.Now() }()
		_, _ = b.bp.PartialBeacon(context.Background(), b.partial([]string{"some", "known/known/ok", "past", "valid", "right"}))
	}()
	o := <-done
	stEnd := time.Now()
	<-wdone
	pbEnd := <-pbDone
	pb := "ok"
	if pbEnd.Sub(pbStart) > time.Second && !pbEnd.Before(stEnd.Add(-100*time.Millisecond)) {
		pb = "hang" // blocked for as long as the Status call lasted
	}
	secs := int(stEnd.Sub(t0).Seconds() + 0.5)
	after, _ := b.callPartial("bp", b.partial([]string{"some", "known/known/ok", "past", "valid", "right"}))
	return fmt.Sprintf("%s secs=%d during=%s partial-behind-writer=%s after=%s", o, secs, held, pb, after)
}

func beaconOp(w *c14World, f []string) (string, bool) {
	verbose := os.Getenv("VERIF_C14_VERBOSE") != ""
	if f[0] == "tarpit" && w.bw != nil {
		k := 2
		fmt.Sscan(f[2], &k)
		return w.bw.tarpitStatus(f[1], k), true
	}
	switch f[0] {
	case "bphase":
		w.bw.close()
		w.bw = newC14BeaconWorld(w, f[1])
		return "ok", true
	case "partial", "sync", "pubstream", "pubrand", "chaininfo", "identity", "pstatus":
	case "http":
		if w.bw == nil {
			return "bad-op no bphase", true
		}
		if w.bw.wedged {
			return "wedged", true
		}
		o, d := w.bw.callHTTP(f[1], f[2])
		w.bw.nops++
		pr := w.bw.probes("bp", o != "err" || w.bw.nops%c14ProbeEvery == 0)
		if o == "hang" || strings.Contains(pr, "hang") || strings.Contains(pr, "held") {
			w.bw.wedged = true
		}
		if verbose && d != "" {
			return o + " " + pr + " #" + strings.ReplaceAll(d, "\n", " "), true
		}
		return o + " " + pr, true
	default:
		return "", false
	}
	b := w.bw
	if b == nil {
		return "bad-op no bphase", true
	}
	if b.wedged {
		return "wedged", true
	}
	if b.h == nil && (f[1] == "handler" || f[1] == "fn") {
		return "bad-op no handler in this phase", true
	}
	var o, d string
	switch f[0] {
	case "partial":
		o, d = b.callPartial(f[1], b.partial(f[2:]))
	case "sync":
		var r *drand.SyncRequest
		if f[2] != "nil" {
			r = &drand.SyncRequest{Metadata: b.meta(f[3]), FromRound: b.roundOf(f[4])}
		}
		o, d = b.callSync(f[1], r)
	case "pubstream":
		var r *drand.PublicRandRequest
		if f[2] != "nil" {
			r = &drand.PublicRandRequest{Metadata: b.meta(f[3]), Round: b.roundOf(f[4])}
		}
		o, d = b.callPubStream(f[1], r)
	default:
		o, d = b.callUnary(f[0], f[1], f[2:])
	}
	b.nops++
	pr := b.probes(f[1], o != "err" || b.nops%c14ProbeEvery == 0)
	if o == "hang" || strings.Contains(pr, "hang") || strings.Contains(pr, "held") {
		b.wedged = true
	}
	if verbose && d != "" {
		if len(d) > 200 {
			d = d[:200]
		}
		return o + " " + pr + " #" + strings.ReplaceAll(d, "\n", " "), true
	}
	return o + " " + pr, true
}
