//go:build verif

// Engine `httpw` (C01, C14): the waiter / watch logic of the public HTTP handler (handler/http/server.go) driven through
// the REAL DrandHandler (its instrumented mux, ServeHTTP) with a scripted fake client.Client.
//
// `verifh httpw` is a supervisor: the scripts (a `new [tmode]` line starts one: fresh handler, client, clock) run in a
// child process (`verifh httpw-child`, re-exec of this binary), because the defects this engine looks for kill the
// process (a panic in the Watch goroutine, `fatal error: concurrent map iteration and map write`). A dead child is the
// outcome `crash:<first line of the Go runtime's report>` for the op that killed it and `dead` for the rest of that
// script; the next `new` starts a new child.
//
// Ops (one result line each; text after " #" is commentary and not compared with the model):
//   new [tmode]            fresh handler, fake client, clock: period 3600 s, "now" in the middle of round 10
//                          (tmode: the first watch subscription runs with a 200 ms idle timeout, see wtimeout)
//   clock <C>              move genesis so that the current round is C
//   req <id> <round>       GET /public/<round> on its own goroutine with a cancellable context
//                            → parked | <status> <body>           body: - (empty) | b<round> | b<round>!sig | junk
//   reqraw <id> <path>     same for an arbitrary path
//   cancel <id>            cancel the request's context → <status> <body> | blocked (watcher holds the lock) | finished | unknown
//   reap <id>              → <status> <body> | parked | blocked | unknown
//   watch <n>              the fake stream delivers round n → ok | gated | nostream
//   watchclose             the fake stream is closed; returns after the handler re-subscribed (300 ms back-off) → ok
//   wtimeout               (tmode) wait until the idle timeout of the first subscription fired and Watch re-subscribed → ok
//   gate                   register an unbuffered channel in front of the waiters: the next `watch` stops the watcher at
//                          the first `waiter <- b` of its notification loop (outcome `gated`), until `ungate`
//   ungate                 let the watcher continue → ok
//   setget <round> <b<k>|err|std>   what client.Get(round) answers (default: the beacon of that round)
//   sethead <k>            what client.Get(0) answers
//   infofail <on|off>, dropinfo     client.Info fails / forget the cached chain info
//   health | latest | chains        the other endpoints
//   settle                 → pend=<k> latest=<L> lock=<free|held> state=<..> info=<..>
//   race <k> <seed>        k requests for latest+1 racing the delivery of latest+1 and random cancellations
//   chainsrace <ms> <w>    w goroutines GET /chains while handlers are registered and removed
package main

import (
	"bufio"
	"bytes"
	"context"
	"crypto/sha256"
	"encoding/hex"
	"encoding/json"
	"errors"
	"fmt"
	"io"
	"net/http"
	"net/http/httptest"
	"os"
	"os/exec"
	"runtime"
	"sort"
	"strconv"
	"strings"
	"sync"
	"sync/atomic"
	"time"

	"github.com/drand/drand/v2/common"
	chain2 "github.com/drand/drand/v2/common/chain"
	"github.com/drand/drand/v2/common/client"
	"github.com/drand/drand/v2/common/log"
	dhttp "github.com/drand/drand/v2/handler/http"
	"github.com/drand/drand/v2/protobuf/drand"
)

func init() {
	engines["httpw"] = httpwParent
	engines["httpw-child"] = httpwChild
}

// ------------------------------------------------------------------------------------------------ supervisor

type hwProc struct {
	cmd   *exec.Cmd
	in    io.WriteCloser
	lines chan string
	errb  *hwBuf
	dead  bool
}

type hwBuf struct {
	mu sync.Mutex
	b  bytes.Buffer
}

func (b *hwBuf) Write(p []byte) (int, error) {
	b.mu.Lock()
	defer b.mu.Unlock()
	if b.b.Len() < 1<<20 {
		b.b.Write(p)
	}
	return len(p), nil
}
func (b *hwBuf) String() string { b.mu.Lock(); defer b.mu.Unlock(); return b.b.String() }

func hwSpawn() *hwProc {
	p := &hwProc{errb: &hwBuf{}, lines: make(chan string, 16)}
	p.cmd = exec.Command(os.Args[0], "httpw-child")
	p.cmd.Env = os.Environ()
	p.cmd.Stderr = p.errb
	var err error
	if p.in, err = p.cmd.StdinPipe(); err != nil {
		panic(err)
	}
	so, err := p.cmd.StdoutPipe()
	if err != nil {
		panic(err)
	}
	if err := p.cmd.Start(); err != nil {
		panic(err)
	}
	go func() {
		sc := bufio.NewScanner(so)
		sc.Buffer(make([]byte, 1<<16), 1<<24)
		for sc.Scan() {
			p.lines <- sc.Text()
		}
		close(p.lines)
	}()
	return p
}

func (p *hwProc) kill() {
	if p == nil {
		return
	}
	_ = p.in.Close()
	if p.cmd.Process != nil {
		_ = p.cmd.Process.Kill()
	}
	_ = p.cmd.Wait()
}

// crashReason: the first line of the runtime's report on the child's stderr.
func (p *hwProc) crashReason() string {
	_ = p.cmd.Wait()
	for _, l := range strings.Split(p.errb.String(), "\n") {
		if strings.HasPrefix(l, "panic: ") || strings.HasPrefix(l, "fatal error: ") {
			return strings.ReplaceAll(strings.ReplaceAll(strings.TrimSpace(l), ": ", ":"), " ", "-")
		}
	}
	return "exit"
}

func (p *hwProc) ask(line string, watchdog time.Duration) string {
	if p.dead {
		return "dead"
	}
	if _, err := io.WriteString(p.in, line+"\n"); err != nil {
		p.dead = true
		return "crash:" + p.crashReason()
	}
	select {
	case l, ok := <-p.lines:
		if !ok {
			p.dead = true
			return "crash:" + p.crashReason()
		}
		return l
	case <-time.After(watchdog):
		p.dead = true
		p.kill()
		return "hang"
	}
}

func httpwParent(_ []string, in *bufio.Scanner, out *bufio.Writer) {
	var p *hwProc
	defer func() { p.kill() }()
	for in.Scan() {
		line := strings.TrimSpace(in.Text())
		if line == "" {
			continue
		}
		f := fields(line)
		var res string
		if f[0] == "new" && (p == nil || p.dead) {
			// a fresh child only when there is none or the last one died; otherwise the child builds a fresh handler itself
			p.kill()
			p = hwSpawn()
		}
		if p == nil {
			p = hwSpawn()
		}
		res = p.ask(line, 30*time.Second)
		fmt.Fprintln(out, res)
		out.Flush()
	}
}

// ------------------------------------------------------------------------------------------------ fake client

const hwPeriod = 3600 // seconds

type hwResult struct {
	*drand.PublicRandResponse
	calls *atomic.Int32
}

func (r hwResult) GetRound() uint64 {
	if r.calls != nil {
		r.calls.Add(1)
	}
	return r.PublicRandResponse.GetRound()
}

type hwClient struct {
	mu      sync.Mutex
	stream  chan client.Result
	subs    int
	over    map[uint64]string
	head    uint64
	infoErr bool
	info    *chain2.Info
}

func hwBeacon(round uint64) *drand.PublicRandResponse {
	s1 := sha256.Sum256([]byte(fmt.Sprintf("verif-httpw-sig-%d", round)))
	s2 := sha256.Sum256(s1[:])
	sig := append(append([]byte{}, s1[:]...), s2[:16]...)
	rnd := sha256.Sum256(sig)
	return &drand.PublicRandResponse{Round: round, Signature: sig, Randomness: rnd[:]}
}

func (c *hwClient) Get(_ context.Context, round uint64) (client.Result, error) {
	c.mu.Lock()
	defer c.mu.Unlock()
	spec, has := c.over[round]
	switch {
	case has && spec == "err":
		return nil, errors.New("scripted Get failure")
	case has && strings.HasPrefix(spec, "b"):
		k, _ := strconv.ParseUint(spec[1:], 10, 64)
		return hwBeacon(k), nil
	case round == 0:
		return hwBeacon(c.head), nil
	}
	return hwBeacon(round), nil
}

func (c *hwClient) Watch(_ context.Context) <-chan client.Result {
	c.mu.Lock()
	defer c.mu.Unlock()
	c.stream = make(chan client.Result)
	c.subs++
	return c.stream
}

func (c *hwClient) Info(_ context.Context) (*chain2.Info, error) {
	c.mu.Lock()
	defer c.mu.Unlock()
	if c.infoErr {
		return nil, errors.New("scripted Info failure")
	}
	cp := *c.info
	return &cp, nil
}

func (c *hwClient) RoundAt(t time.Time) uint64 {
	c.mu.Lock()
	defer c.mu.Unlock()
	return common.CurrentRound(t.Unix(), c.info.Period, c.info.GenesisTime)
}
func (c *hwClient) Close() error { return nil }

func (c *hwClient) cur() (chan client.Result, int) {
	c.mu.Lock()
	defer c.mu.Unlock()
	return c.stream, c.subs
}

// curStream: the current subscription; if start() has run but its Watch goroutine has not subscribed yet, wait for it
func (e *hwEnv) curStream() (chan client.Result, int) {
	st, subs := e.fc.cur()
	if st != nil {
		return st, subs
	}
	started := false
	hwWait(func() bool { _, _, s, ok := e.bh.VerifTryState(); started = s; return ok }, hwWatchdog)
	if !started {
		return nil, 0
	}
	hwWait(func() bool { st, subs = e.fc.cur(); return st != nil }, hwWatchdog)
	return st, subs
}

// ------------------------------------------------------------------------------------------------ the child

type hwReq struct {
	cancel   context.CancelFunc
	done     chan struct{}
	rec      *httptest.ResponseRecorder
	panicked string
	ch       chan []byte // its waiter channel while registered
	slow     chan struct{} // a client that reads slowly: the response writer waits here before the first byte goes out
	atWriter int32
}

// slowWriter stalls in front of the first WriteHeader / Write until the script lets the client read (`unslow`): whatever the
// handler hands to the writer must still be the answer it decided on when the bytes finally leave
type slowWriter struct {
	http.ResponseWriter
	r    *hwReq
	once sync.Once
}

func (w *slowWriter) wait() {
	w.once.Do(func() {
		atomic.StoreInt32(&w.r.atWriter, 1)
		<-w.r.slow
	})
}
func (w *slowWriter) WriteHeader(c int)           { w.wait(); w.ResponseWriter.WriteHeader(c) }
func (w *slowWriter) Write(b []byte) (int, error) { w.wait(); return w.ResponseWriter.Write(b) }

type hwEnv struct {
	nextSlow bool
	h       *dhttp.DrandHandler
	bh      *dhttp.BeaconHandler
	fc      *hwClient
	reqs    map[string]*hwReq
	gate    chan []byte
	holding bool
	tmode   bool
	t0      int64
	cancel  context.CancelFunc
}

const hwWatchdog = 5 * time.Second

func hwWait(cond func() bool, d time.Duration) bool {
	dl := time.Now().Add(d)
	for {
		if cond() {
			return true
		}
		if time.Now().After(dl) {
			return false
		}
		time.Sleep(50 * time.Microsecond)
	}
}

func (e *hwEnv) infoFor(cur uint64, period time.Duration) *chain2.Info {
	// "now" sits in the middle of round cur: time(cur) = genesis + (cur-1)·P = t0 − P/2
	g := e.t0 - int64(cur-1)*hwPeriod - hwPeriod/2
	return &chain2.Info{Period: period, GenesisTime: g, ID: "default", Scheme: "pedersen-bls-chained"}
}

func (e *hwEnv) stop() {
	for _, r := range e.reqs {
		r.cancel()
	}
	if e.gate != nil {
		g := e.gate
		go func() {
			select {
			case <-g:
			case <-time.After(time.Second):
			}
		}()
	}
	e.cancel()
}

func newHwEnv(tmode bool) *hwEnv {
	bg, cancel := context.WithCancel(context.Background())
	ctx := log.ToContext(bg, quietLogger())
	h, err := dhttp.New(ctx, "verif")
	if err != nil {
		panic(err)
	}
	e := &hwEnv{h: h, reqs: map[string]*hwReq{}, tmode: tmode, t0: time.Now().Unix(), cancel: cancel}
	e.fc = &hwClient{over: map[uint64]string{}, head: 10}
	e.fc.info = e.infoFor(10, hwPeriod*time.Second)
	e.bh = h.RegisterNewBeaconHandler(e.fc, "default")
	if tmode {
		// the first subscription reads Period*2 as its idle timeout: 200 ms; the real info is put back once it subscribed
		e.bh.VerifSetChainInfo(&chain2.Info{Period: 100 * time.Millisecond, GenesisTime: e.fc.info.GenesisTime})
	}
	return e
}

func (e *hwEnv) classify(body []byte) string {
	if len(body) == 0 {
		return "-"
	}
	var m struct {
		Round      uint64 `json:"round"`
		Signature  string `json:"signature"`
		Randomness string `json:"randomness"`
	}
	if err := json.Unmarshal(body, &m); err != nil {
		return "junk"
	}
	w := hwBeacon(m.Round)
	if hex.EncodeToString(w.Signature) == m.Signature && hex.EncodeToString(w.Randomness) == m.Randomness {
		return fmt.Sprintf("b%d", m.Round)
	}
	return fmt.Sprintf("b%d!sig", m.Round)
}

func (e *hwEnv) answer(r *hwReq) string {
	if r.panicked != "" {
		return "panic:" + strings.ReplaceAll(r.panicked, " ", "-")
	}
	if r.rec.Code != http.StatusOK {
		return fmt.Sprintf("%d -", r.rec.Code)
	}
	cc := strings.ReplaceAll(r.rec.Header().Get("Cache-Control"), " ", "")
	return "200 " + e.classify(r.rec.Body.Bytes()) + " #cc=" + cc
}

func (e *hwEnv) serve(path string) (*hwReq, string) {
	ctx, cancel := context.WithCancel(context.Background())
	rq, err := http.NewRequestWithContext(ctx, http.MethodGet, "http://verif.local"+path, nil)
	if err != nil {
		cancel()
		return nil, "bad-url"
	}
	r := &hwReq{cancel: cancel, done: make(chan struct{}), rec: httptest.NewRecorder()}
	var w http.ResponseWriter = r.rec
	if e.nextSlow {
		e.nextSlow = false
		r.slow = make(chan struct{})
		w = &slowWriter{ResponseWriter: r.rec, r: r}
	}
	go func() {
		defer close(r.done)
		defer func() {
			if p := recover(); p != nil {
				r.panicked = fmt.Sprint(p)
			}
		}()
		e.h.GetHTTPHandler().ServeHTTP(w, rq)
	}()
	return r, ""
}

func isDone(r *hwReq) bool {
	select {
	case <-r.done:
		return true
	default:
		return false
	}
}

func inPending(p []chan []byte, ch chan []byte) bool {
	for _, c := range p {
		if c == ch {
			return true
		}
	}
	return false
}

// start a request and wait until it either finished or registered itself as a waiter
func (e *hwEnv) request(id, path string) string {
	if e.holding {
		return "refused"
	}
	if _, dup := e.reqs[id]; dup {
		return "refused"
	}
	before, ok := e.bh.VerifTryPending()
	if !ok {
		return "refused"
	}
	subsBefore := 0
	if e.tmode {
		_, subsBefore = e.fc.cur()
	}
	r, bad := e.serve(path)
	if r == nil {
		return bad
	}
	e.reqs[id] = r
	parked := false
	okw := hwWait(func() bool {
		if isDone(r) {
			return true
		}
		now, ok := e.bh.VerifTryPending()
		if ok && len(now) > len(before) {
			for _, c := range now {
				if !inPending(before, c) && c != e.gate {
					r.ch = c
					parked = true
					return true
				}
			}
		}
		return false
	}, hwWatchdog)
	if e.tmode && subsBefore == 0 {
		// this request started the watcher: once it subscribed (with the short timeout), restore the real chain info
		hwWait(func() bool { _, s := e.fc.cur(); return s >= 1 }, hwWatchdog)
		e.bh.VerifSetChainInfo(e.fc.info)
	}
	if !okw {
		return "stuck"
	}
	if parked && !isDone(r) {
		if c := dhttp.VerifWaiterCap(r.ch); c != 1 {
			return fmt.Sprintf("parked-cap%d", c)
		}
		return "parked"
	}
	return e.answer(r)
}

// every request that is neither finished nor still registered was released (or cancelled): wait for it to finish
func (e *hwEnv) settleReleased() bool {
	all := true
	ids := make([]string, 0, len(e.reqs))
	for id := range e.reqs {
		ids = append(ids, id)
	}
	sort.Strings(ids)
	for _, id := range ids {
		r := e.reqs[id]
		if isDone(r) {
			continue
		}
		ok := hwWait(func() bool {
			if isDone(r) {
				return true
			}
			if r.slow != nil && atomic.LoadInt32(&r.atWriter) == 1 {
				return true // released, its answer is waiting for the slow client
			}
			p, ok := e.bh.VerifTryPending()
			return ok && r.ch != nil && inPending(p, r.ch)
		}, hwWatchdog)
		all = all && ok
	}
	return all
}

func (e *hwEnv) deliver(n uint64) string {
	if e.holding {
		return "refused"
	}
	st, _ := e.curStream()
	if st == nil {
		return "nostream"
	}
	calls := &atomic.Int32{}
	res := hwResult{hwBeacon(n), calls}
	// the watcher may have re-subscribed (tmode) between reading the stream and the send: retry on the current one
	sent := false
	dl := time.Now().Add(hwWatchdog)
	for !sent && time.Now().Before(dl) {
		st, _ = e.fc.cur()
		select {
		case st <- res:
			sent = true
		case <-time.After(20 * time.Millisecond):
		}
	}
	if !sent {
		return "stuck"
	}
	if e.gate != nil {
		// the watcher evaluates next.GetRound() under the lock, then reaches the gate within microseconds
		if !hwWait(func() bool { return calls.Load() >= 1 }, hwWatchdog) {
			return "stuck"
		}
		time.Sleep(3 * time.Millisecond)
		e.holding = true
		return "gated"
	}
	ok := hwWait(func() bool {
		if calls.Load() < 1 {
			return false
		}
		_, _, _, free := e.bh.VerifTryState()
		return free
	}, hwWatchdog)
	if !ok || !e.settleReleased() {
		return "stuck"
	}
	return "ok"
}

func (e *hwEnv) simple(path string) (*hwReq, string) {
	r, bad := e.serve(path)
	if r == nil {
		return nil, bad
	}
	select {
	case <-r.done:
	case <-time.After(hwWatchdog):
		return nil, "stuck"
	}
	if r.panicked != "" {
		return nil, "panic:" + strings.ReplaceAll(r.panicked, " ", "-")
	}
	return r, ""
}

func (e *hwEnv) op(f []string) string {
	switch f[0] {
	case "clock":
		c, err := strconv.ParseUint(f[1], 10, 64)
		if err != nil || c == 0 || c > 1<<40 {
			return "refused"
		}
		e.fc.mu.Lock()
		e.fc.info = e.infoFor(c, hwPeriod*time.Second)
		inf := *e.fc.info
		e.fc.mu.Unlock()
		e.bh.VerifSetChainInfoIfCached(&inf)
		return "ok"
	case "req":
		if r, err := strconv.ParseUint(f[2], 10, 64); err != nil || r == 0 {
			return "refused"
		}
		return e.request(f[1], "/public/"+f[2])
	case "reqslow": // like req, but the client reads slowly: nothing leaves the writer before `unslow <id>`
		if r, err := strconv.ParseUint(f[2], 10, 64); err != nil || r == 0 {
			return "refused"
		}
		e.nextSlow = true
		out := e.request(f[1], "/public/"+f[2])
		e.nextSlow = false
		if r := e.reqs[f[1]]; r != nil && r.slow != nil && !isDone(r) && atomic.LoadInt32(&r.atWriter) == 1 {
			return "writing"
		}
		return out
	case "unslow":
		r := e.reqs[f[1]]
		if r == nil || r.slow == nil {
			return "unknown"
		}
		select {
		case <-r.slow:
		default:
			close(r.slow)
		}
		return "ok"
	case "reqraw":
		return e.request(f[1], f[2])
	case "cancel":
		r := e.reqs[f[1]]
		if r == nil {
			return "unknown"
		}
		if isDone(r) {
			return "finished"
		}
		r.cancel()
		if e.holding {
			select {
			case <-r.done:
				return e.answer(r)
			case <-time.After(40 * time.Millisecond):
				return "blocked"
			}
		}
		select {
		case <-r.done:
			return e.answer(r)
		case <-time.After(hwWatchdog):
			return "stuck"
		}
	case "reap":
		r := e.reqs[f[1]]
		if r == nil {
			return "unknown"
		}
		if isDone(r) {
			return e.answer(r)
		}
		if r.slow != nil {
			open := true
			select {
			case <-r.slow:
				open = false
			default:
			}
			if open && hwWait(func() bool { return atomic.LoadInt32(&r.atWriter) == 1 || isDone(r) }, 50*time.Millisecond) && !isDone(r) {
				return "writing"
			}
		}
		if e.holding {
			select {
			case <-r.done:
				return e.answer(r)
			case <-time.After(40 * time.Millisecond):
				return "blocked"
			}
		}
		if p, ok := e.bh.VerifTryPending(); ok && r.ch != nil && inPending(p, r.ch) {
			return "parked"
		}
		select {
		case <-r.done:
			return e.answer(r)
		case <-time.After(hwWatchdog):
			return "stuck"
		}
	case "watch":
		n, err := strconv.ParseUint(f[1], 10, 64)
		if err != nil {
			return "refused"
		}
		return e.deliver(n)
	case "watchclose":
		if e.holding || e.gate != nil {
			return "refused"
		}
		st, subs := e.curStream()
		if st == nil {
			return "nostream"
		}
		close(st)
		if !hwWait(func() bool { _, s := e.fc.cur(); return s > subs }, hwWatchdog) {
			return "stuck"
		}
		return "ok"
	case "wtimeout":
		if !e.tmode || e.holding {
			return "refused"
		}
		if st, _ := e.curStream(); st == nil {
			return "nostream"
		}
		if !hwWait(func() bool { _, s := e.fc.cur(); return s >= 2 }, hwWatchdog) {
			return "stuck"
		}
		return "ok"
	case "gate":
		if e.holding || e.gate != nil {
			return "refused"
		}
		g := make(chan []byte)
		if !e.bh.VerifInjectGate(g) {
			return "refused"
		}
		e.gate = g
		return "ok"
	case "ungate":
		if !e.holding {
			return "refused"
		}
		select {
		case <-e.gate:
		case <-time.After(hwWatchdog):
			return "stuck"
		}
		e.gate = nil
		e.holding = false
		// give the watcher the time to finish its loop even if it notifies outside the lock (then there is no
		// observable signal for "done"): it is runnable now
		for i := 0; i < 8; i++ {
			runtime.Gosched()
		}
		time.Sleep(5 * time.Millisecond)
		ok := hwWait(func() bool { _, _, _, free := e.bh.VerifTryState(); return free }, hwWatchdog)
		if !ok || !e.settleReleased() {
			return "stuck"
		}
		return "ok"
	case "setget":
		r, err := strconv.ParseUint(f[1], 10, 64)
		if err != nil {
			return "refused"
		}
		if f[2] != "std" && f[2] != "err" {
			if !strings.HasPrefix(f[2], "b") {
				return "refused"
			}
			if _, err := strconv.ParseUint(f[2][1:], 10, 64); err != nil {
				return "refused"
			}
		}
		e.fc.mu.Lock()
		if f[2] == "std" {
			delete(e.fc.over, r)
		} else {
			e.fc.over[r] = f[2]
		}
		e.fc.mu.Unlock()
		return "ok"
	case "sethead":
		k, err := strconv.ParseUint(f[1], 10, 64)
		if err != nil {
			return "refused"
		}
		e.fc.mu.Lock()
		e.fc.head = k
		e.fc.mu.Unlock()
		return "ok"
	case "infofail":
		e.fc.mu.Lock()
		e.fc.infoErr = f[1] == "on"
		e.fc.mu.Unlock()
		return "ok"
	case "dropinfo":
		e.bh.VerifSetChainInfo(nil)
		return "ok"
	case "health":
		if e.holding {
			return "refused"
		}
		r, bad := e.simple("/health")
		if r == nil {
			return bad
		}
		var m map[string]uint64
		if err := json.Unmarshal(r.rec.Body.Bytes(), &m); err != nil {
			return fmt.Sprintf("%d junk", r.rec.Code)
		}
		return fmt.Sprintf("%d cur=%d exp=%d", r.rec.Code, m["current"], m["expected"])
	case "latest":
		r, bad := e.simple("/public/latest")
		if r == nil {
			return bad
		}
		return e.answer(r)
	case "chains":
		r, bad := e.simple("/chains")
		if r == nil {
			return bad
		}
		var l []string
		if err := json.Unmarshal(r.rec.Body.Bytes(), &l); err != nil {
			return fmt.Sprintf("%d junk", r.rec.Code)
		}
		sort.Strings(l)
		return fmt.Sprintf("%d [%s]", r.rec.Code, strings.Join(l, ","))
	case "settle":
		lat, pend, _, ok := e.bh.VerifTryState()
		pl, il := e.bh.VerifLocks()
		if e.gate != nil && ok && !e.holding {
			pend-- // the engine's own gate channel
		}
		ps, ls := strconv.Itoa(pend), strconv.FormatUint(lat, 10)
		if !ok {
			ps, ls = "?", "?"
		}
		return fmt.Sprintf("pend=%s latest=%s lock=%s state=%s info=%s", ps, ls, pl, e.h.VerifStateLock(), il)
	case "race":
		return e.race(f)
	case "chainsrace":
		return e.chainsRace(f)
	}
	return "bad-op"
}

// race: k requests for latest+1 (some already parked, some arriving while the round is delivered), the delivery of
// latest+1, and cancellations of a random subset, all at random offsets of up to 300 µs
func (e *hwEnv) race(f []string) string {
	k, _ := strconv.Atoi(f[1])
	seed, _ := strconv.ParseUint(f[2], 10, 64)
	lat, _, started, ok := e.bh.VerifTryState()
	if e.holding || e.gate != nil || !ok || !started || lat == 0 || k <= 0 || k > 64 {
		return "refused"
	}
	r := &rng{s: seed}
	want := lat + 1
	path := fmt.Sprintf("/public/%d", want)
	type rr struct {
		q         *hwReq
		cancelled bool
	}
	rs := make([]*rr, k)
	early := r.below(k + 1)
	for i := 0; i < early; i++ {
		q, _ := e.serve(path)
		rs[i] = &rr{q: q}
	}
	// let the early ones park
	hwWait(func() bool { _, p, _, ok := e.bh.VerifTryState(); return ok && p >= early }, 200*time.Millisecond)
	var wg sync.WaitGroup
	var mu sync.Mutex
	for i := early; i < k; i++ {
		i, d := i, time.Duration(r.below(300))*time.Microsecond
		wg.Add(1)
		go func() {
			defer wg.Done()
			time.Sleep(d)
			q, _ := e.serve(path)
			mu.Lock()
			rs[i] = &rr{q: q}
			mu.Unlock()
		}()
	}
	for i := 0; i < early; i++ {
		if r.below(2) == 0 {
			x, d := rs[i], time.Duration(r.below(300))*time.Microsecond
			x.cancelled = true
			wg.Add(1)
			go func() { defer wg.Done(); time.Sleep(d); x.q.cancel() }()
		}
	}
	dd := time.Duration(r.below(300)) * time.Microsecond
	delivered := make(chan string, 1)
	go func() { time.Sleep(dd); delivered <- e.deliverRaw(want) }()
	wg.Wait()
	if s := <-delivered; s != "ok" {
		return "stuck #deliver " + s
	}
	counts := map[string]int{}
	bad := []string{}
	for _, x := range rs {
		select {
		case <-x.q.done:
		case <-time.After(hwWatchdog):
			bad = append(bad, "unanswered")
			continue
		}
		a := strings.Split(e.answer(x.q), " #")[0]
		counts[a]++
		okAns := a == fmt.Sprintf("200 b%d", want) || a == "404 -" || (x.cancelled && a == "500 -")
		if !okAns {
			bad = append(bad, strings.ReplaceAll(a, " ", "_"))
		}
	}
	hwWait(func() bool { _, _, _, free := e.bh.VerifTryState(); return free }, hwWatchdog)
	keys := make([]string, 0, len(counts))
	for a := range counts {
		keys = append(keys, a)
	}
	sort.Strings(keys)
	parts := []string{}
	for _, a := range keys {
		parts = append(parts, fmt.Sprintf("%s×%d", strings.ReplaceAll(a, " ", "_"), counts[a]))
	}
	if len(bad) > 0 {
		return "race-bad " + strings.Join(bad, ",") + " #" + strings.Join(parts, ",")
	}
	return "race-ok #" + strings.Join(parts, ",")
}

// deliverRaw: push round n and wait until the watcher has released the lock again (no waiting for requests)
func (e *hwEnv) deliverRaw(n uint64) string {
	st, _ := e.curStream()
	calls := &atomic.Int32{}
	select {
	case st <- hwResult{hwBeacon(n), calls}:
	case <-time.After(hwWatchdog):
		return "stuck"
	}
	ok := hwWait(func() bool {
		if calls.Load() < 1 {
			return false
		}
		_, _, _, free := e.bh.VerifTryState()
		return free
	}, hwWatchdog)
	if !ok {
		return "stuck"
	}
	return "ok"
}

// chainsRace: /chains iterates DrandHandler.beacons; Register/RemoveBeaconHandler write it
func (e *hwEnv) chainsRace(f []string) string {
	ms, _ := strconv.Atoi(f[1])
	w, _ := strconv.Atoi(f[2])
	if ms <= 0 || ms > 60000 || w <= 0 || w > 64 {
		return "refused"
	}
	stop := make(chan struct{})
	var wg sync.WaitGroup
	var reads, writes atomic.Int64
	for i := 0; i < w; i++ {
		wg.Add(1)
		go func() {
			defer wg.Done()
			for {
				select {
				case <-stop:
					return
				default:
				}
				rq, _ := http.NewRequest(http.MethodGet, "http://verif.local/chains", nil)
				e.h.GetHTTPHandler().ServeHTTP(httptest.NewRecorder(), rq)
				reads.Add(1)
			}
		}()
	}
	wg.Add(1)
	go func() {
		defer wg.Done()
		for i := 0; ; i++ {
			select {
			case <-stop:
				return
			default:
			}
			k := fmt.Sprintf("%064x", i%16)
			e.h.RegisterNewBeaconHandler(e.fc, k)
			e.h.RemoveBeaconHandler(k)
			writes.Add(1)
		}
	}()
	time.Sleep(time.Duration(ms) * time.Millisecond)
	close(stop)
	wg.Wait()
	return fmt.Sprintf("ok #reads=%d writes=%d", reads.Load(), writes.Load())
}

func httpwChild(_ []string, in *bufio.Scanner, out *bufio.Writer) {
	e := newHwEnv(false)
	for in.Scan() {
		f := fields(in.Text())
		if len(f) == 0 {
			continue
		}
		if f[0] == "new" {
			// a fresh handler, client and clock; the previous handler's context ends (its Watch goroutine returns) and
			// whatever it left parked is cancelled
			e.stop()
			e = newHwEnv(len(f) > 1 && f[1] == "tmode")
			fmt.Fprintln(out, "ok")
			out.Flush()
			continue
		}
		need := map[string]int{"clock": 2, "req": 3, "reqraw": 3, "cancel": 2, "reap": 2, "watch": 2, "setget": 3, "sethead": 2,
			"infofail": 2, "race": 3, "chainsrace": 3}
		res := "bad-op"
		if len(f) >= need[f[0]] {
			res = safely(func() string { return e.op(f) })
		}
		fmt.Fprintln(out, res)
		out.Flush()
	}
}
