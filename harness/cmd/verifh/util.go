//go:build verif

package main

import (
	"encoding/hex"
	"errors"
	"fmt"
	"io"
	"os"

	"go.uber.org/zap/zapcore"

	"github.com/drand/drand/v2/common"
	"github.com/drand/drand/v2/common/log"
	chainerrors "github.com/drand/drand/v2/internal/chain/errors"
)

// quietLogger discards everything below panic level.
func quietLogger() log.Logger {
	return log.New(zapcore.AddSync(io.Discard), int(zapcore.FatalLevel), false)
}

func hx(b []byte) string {
	if len(b) == 0 {
		return "-"
	}
	return hex.EncodeToString(b)
}

func unhx(s string) []byte {
	if s == "-" {
		return nil
	}
	b, err := hex.DecodeString(s)
	if err != nil {
		panic("bad hex " + s)
	}
	return b
}

func showBeacon(b *common.Beacon, err error) string {
	if err != nil {
		if errors.Is(err, chainerrors.ErrNoBeaconStored) {
			return "none"
		}
		return "err:" + err.Error()
	}
	if b == nil {
		return "nil"
	}
	return fmt.Sprintf("%d %s %s", b.Round, hx(b.Signature), hx(b.PreviousSig))
}

func tmpDir() string {
	base := os.Getenv("VERIF_TMP")
	d, err := os.MkdirTemp(base, "verifh")
	if err != nil {
		panic(err)
	}
	return d
}
