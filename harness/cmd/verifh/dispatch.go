//go:build verif

package main

// Engine "dispatch" (C14): the real service objects called in-process (layers proc / daemon) and through the
// real peer-facing gRPC listener on loopback (layer grpc), one request per op line, each under a watchdog with
// recover, followed by liveness probes on the same and on other endpoints.
//
// ops (space separated):
//   phase <fresh|proposed|joined|executing|closed|closedx>                   -> ok
//   packet <layer> <P> <M> <ID> <ADDR> <SIG> <BODY> <DID>                    -> <outcome> lock=… st=… pk=… bc=…
//   bcast  <layer> <P> <DBODY> <DID>                                          -> idem
//   status <layer> <R> <ID>                                                   -> idem
//   (beacon ops: see dispatch_beacon.go)
// outcome ∈ ok | err | panic:<innermost drand function> | contained (gRPC code Internal = recovered panic) | hang | wedged

import (
	"bufio"
	"context"
	"fmt"
	"os"
	"runtime"
	"strings"
	"sync"
	"time"

	"google.golang.org/grpc"
	"google.golang.org/grpc/codes"
	"google.golang.org/grpc/credentials/insecure"
	"google.golang.org/grpc/status"
	"google.golang.org/protobuf/proto"
	"google.golang.org/protobuf/types/known/timestamppb"

	"github.com/drand/drand/v2/common/key"
	"github.com/drand/drand/v2/crypto"
	"github.com/drand/drand/v2/internal/core"
	"github.com/drand/drand/v2/internal/dkg"
	dnet "github.com/drand/drand/v2/internal/net"
	"github.com/drand/drand/v2/internal/util"
	pdkg "github.com/drand/drand/v2/protobuf/dkg"
	"github.com/drand/drand/v2/protobuf/drand"
	kdkg "github.com/drand/kyber/share/dkg"
)

func init() { engines["dispatch"] = dispatchEngine }

const c14BeaconID = "default"

var c14Watchdog = 5 * time.Second
var c14ProbeWatchdog = 2 * time.Second

// a call that missed the watchdog is only reported as `hang` if it still has not returned after this much more time
// (a loaded machine can stall a goroutine for seconds; a deadlock never returns)
var c14Confirm = 15 * time.Second

// ---------------------------------------------------------------- in-memory collaborators

// memDKGClient records what a process sends; with routes set it also delivers to the in-process peers
// (used only to run a real three-node DKG to completion for the phase "complete").
type memDKGClient struct {
	mu      sync.Mutex
	packets []*pdkg.GossipPacket
	dkgs    []*pdkg.DKGPacket
	routes  map[string]*dkg.Process
}

func (c *memDKGClient) route(addr string) *dkg.Process {
	c.mu.Lock()
	defer c.mu.Unlock()
	return c.routes[addr]
}

func (c *memDKGClient) Packet(ctx context.Context, to dnet.Peer, p *pdkg.GossipPacket, _ ...grpc.CallOption) (*pdkg.EmptyDKGResponse, error) {
	c.mu.Lock()
	c.packets = append(c.packets, p)
	c.mu.Unlock()
	if t := c.route(to.Address()); t != nil {
		return t.Packet(ctx, proto.Clone(p).(*pdkg.GossipPacket))
	}
	return &pdkg.EmptyDKGResponse{}, nil
}

func (c *memDKGClient) BroadcastDKG(ctx context.Context, to dnet.Peer, p *pdkg.DKGPacket, _ ...grpc.CallOption) (*pdkg.EmptyDKGResponse, error) {
	c.mu.Lock()
	c.dkgs = append(c.dkgs, p)
	c.mu.Unlock()
	if t := c.route(to.Address()); t != nil {
		return t.BroadcastDKG(ctx, proto.Clone(p).(*pdkg.DKGPacket))
	}
	return &pdkg.EmptyDKGResponse{}, nil
}

func (c *memDKGClient) last() *pdkg.GossipPacket {
	c.mu.Lock()
	defer c.mu.Unlock()
	if len(c.packets) == 0 {
		return nil
	}
	return c.packets[len(c.packets)-1]
}

type stubIdent struct{ pairs map[string]*key.Pair }

func (s stubIdent) KeypairFor(id string) (*key.Pair, error) {
	if p, ok := s.pairs[id]; ok {
		return p, nil
	}
	return nil, fmt.Errorf("no beacon found for ID %s", id)
}

// ---------------------------------------------------------------- world

type c14World struct {
	sch     *crypto.Scheme
	L, M, O *key.Pair
	pL, pM, pO *pdkg.Participant
	rnd     *rng
	bw      *c14BeaconWorld
}

func newC14World(seed uint64) *c14World {
	sch := mustScheme(crypto.DefaultSchemeID)
	w := &c14World{sch: sch, rnd: &rng{s: seed}}
	mk := func(addr string) (*key.Pair, *pdkg.Participant) {
		p, err := key.NewKeyPair(addr, sch)
		if err != nil {
			panic(err)
		}
		pp, err := util.PublicKeyAsParticipant(p.Public)
		if err != nil {
			panic(err)
		}
		return p, pp
	}
	w.L, w.pL = mk("127.0.0.1:4101")
	w.M, w.pM = mk("127.0.0.1:4102")
	w.O, w.pO = mk("127.0.0.1:4103")
	return w
}

// ---------------------------------------------------------------- one node under test in a given phase

type dkgInst struct {
	w          *c14World
	phase      string
	dirs       []string
	M, L, O    *dkg.Process
	cliM, cliL *memDKGClient
	proposal   *pdkg.GossipPacket // valid, signed by the leader
	execute    *pdkg.GossipPacket // valid, signed by the leader
	dd         *core.DrandDaemon
	gw         *dnet.PrivateGateway
	conn       *grpc.ClientConn
	wedged     bool
	nops       int
	seq        uint32
	lastSigned *pdkg.DKGPacket
}

func (in *dkgInst) close() {
	if in == nil {
		return
	}
	if in.conn != nil {
		in.conn.Close()
	}
	if in.gw != nil {
		in.gw.StopAll(context.Background())
	}
	done := make(chan struct{})
	go func() {
		defer close(done)
		defer func() { _ = recover() }()
		if in.phase != "closed" && in.phase != "closedx" && !in.wedged {
			in.M.Close()
		}
		in.L.Close()
		if in.O != nil {
			in.O.Close()
		}
	}()
	select {
	case <-done:
	case <-time.After(3 * time.Second):
	}
	for _, d := range in.dirs {
		os.RemoveAll(d)
	}
}

func mustOK(what string, err error) {
	if err != nil {
		panic(fmt.Sprintf("harness setup: %s: %v", what, err))
	}
}

func newDKGInst(w *c14World, phase string) *dkgInst {
	in := &dkgInst{w: w, phase: phase, cliM: &memDKGClient{}, cliL: &memDKGClient{}}
	kickoff := time.Hour
	if phase == "complete" {
		kickoff = 300 * time.Millisecond
	}
	mkProc := func(pair *key.Pair, cli *memDKGClient) *dkg.Process {
		dir := tmpDir()
		in.dirs = append(in.dirs, dir)
		st, err := dkg.NewDKGStore(dir)
		mustOK("NewDKGStore", err)
		cfg := dkg.Config{Timeout: time.Hour, TimeBetweenDKGPhases: 2 * time.Second, KickoffGracePeriod: kickoff}
		return dkg.NewDKGProcess(st, stubIdent{map[string]*key.Pair{c14BeaconID: pair}}, util.NewFanOutChan[dkg.SharingOutput](),
			cli, nil, cfg, quietLogger())
	}
	in.M = mkProc(w.M, in.cliM)
	in.L = mkProc(w.L, in.cliL)
	ctx := context.Background()
	cmd := func(c *pdkg.DKGCommand) *pdkg.DKGCommand {
		c.Metadata = &pdkg.CommandMetadata{BeaconID: c14BeaconID}
		return c
	}
	if phase == "complete" {
		in.completeDKG(mkProc, cmd)
		bps := map[string]*core.BeaconProcess{c14BeaconID: core.VerifNewBeaconProcess(c14BeaconID, w.M, nil, nil, nil, nil, quietLogger(), nil, nil)}
		in.dd = core.VerifNewDaemonC14(quietLogger(), in.M, bps)
		return in
	}
	// the leader proposes (real Command path: signs and "gossips" into cliL)
	_, err := in.L.Command(ctx, cmd(&pdkg.DKGCommand{Command: &pdkg.DKGCommand_Initial{Initial: &pdkg.FirstProposalOptions{
		Timeout: timestamppb.New(time.Now().Add(time.Hour)), Threshold: 2, PeriodSeconds: 3, Scheme: w.sch.Name,
		CatchupPeriodSeconds: 1, GenesisTime: timestamppb.New(time.Now().Add(time.Hour)),
		Joining: []*pdkg.Participant{w.pL, w.pM, w.pO}}}}))
	mustOK("leader Initial", err)
	in.proposal = proto.Clone(in.cliL.last()).(*pdkg.GossipPacket)
	_, err = in.L.Command(ctx, cmd(&pdkg.DKGCommand{Command: &pdkg.DKGCommand_Execute{Execute: &pdkg.ExecutionOptions{}}}))
	mustOK("leader Execute", err)
	// the Execute gossip is sent from goroutines Command does not wait for
	for i := 0; i < 2000 && in.cliL.last().GetExecute() == nil; i++ {
		time.Sleep(time.Millisecond)
	}
	in.execute = proto.Clone(in.cliL.last()).(*pdkg.GossipPacket)
	if in.execute.GetExecute() == nil || in.proposal.GetProposal() == nil {
		panic("harness setup: templates not captured")
	}
	rank := map[string]int{"fresh": 0, "proposed": 1, "closed": 1, "joined": 2, "executing": 3, "closedx": 3}
	r, ok := rank[phase]
	if !ok {
		panic("unknown phase " + phase)
	}
	if r >= 1 {
		_, err = in.M.Packet(ctx, proto.Clone(in.proposal).(*pdkg.GossipPacket))
		mustOK("deliver proposal", err)
	}
	if r >= 2 {
		_, err = in.M.Command(ctx, cmd(&pdkg.DKGCommand{Command: &pdkg.DKGCommand_Join{Join: &pdkg.JoinOptions{}}}))
		mustOK("join", err)
	}
	if r >= 3 {
		_, err = in.M.Packet(ctx, proto.Clone(in.execute).(*pdkg.GossipPacket))
		mustOK("deliver execute", err)
		if in.M.Executions[c14BeaconID] == nil {
			panic("harness setup: no execution entry")
		}
	}
	if phase == "closed" || phase == "closedx" {
		in.M.Close()
	}
	// daemon proxy layer and the real peer-facing listener in front of it
	bps := map[string]*core.BeaconProcess{c14BeaconID: core.VerifNewBeaconProcess(c14BeaconID, w.M, nil, nil, nil, nil, quietLogger(), nil, nil)}
	in.dd = core.VerifNewDaemonC14(quietLogger(), in.M, bps)
	return in
}

// completeDKG runs a real three-node initial DKG (leader, node under test, a third member), all in-process, the
// processes talking through routing in-memory clients, and waits until the node under test has stored the finished state.
func (in *dkgInst) completeDKG(mkProc func(*key.Pair, *memDKGClient) *dkg.Process, cmd func(*pdkg.DKGCommand) *pdkg.DKGCommand) {
	w := in.w
	cliO := &memDKGClient{}
	in.O = mkProc(w.O, cliO)
	routes := map[string]*dkg.Process{w.L.Public.Addr: in.L, w.M.Public.Addr: in.M, w.O.Public.Addr: in.O}
	for _, c := range []*memDKGClient{in.cliL, in.cliM, cliO} {
		c.routes = routes
	}
	ctx := context.Background()
	_, err := in.L.Command(ctx, cmd(&pdkg.DKGCommand{Command: &pdkg.DKGCommand_Initial{Initial: &pdkg.FirstProposalOptions{
		Timeout: timestamppb.New(time.Now().Add(time.Hour)), Threshold: 2, PeriodSeconds: 3, Scheme: w.sch.Name,
		CatchupPeriodSeconds: 1, GenesisTime: timestamppb.New(time.Now().Add(time.Hour)),
		Joining: []*pdkg.Participant{w.pL, w.pM, w.pO}}}}))
	mustOK("leader Initial", err)
	for _, c := range in.cliL.packets {
		if c.GetProposal() != nil {
			in.proposal = proto.Clone(c).(*pdkg.GossipPacket)
		}
	}
	_, err = in.M.Command(ctx, cmd(&pdkg.DKGCommand{Command: &pdkg.DKGCommand_Join{Join: &pdkg.JoinOptions{}}}))
	mustOK("join M", err)
	_, err = in.O.Command(ctx, cmd(&pdkg.DKGCommand{Command: &pdkg.DKGCommand_Join{Join: &pdkg.JoinOptions{}}}))
	mustOK("join O", err)
	_, err = in.L.Command(ctx, cmd(&pdkg.DKGCommand{Command: &pdkg.DKGCommand_Execute{Execute: &pdkg.ExecutionOptions{}}}))
	mustOK("leader Execute", err)
	deadline := time.Now().Add(30 * time.Second)
	for {
		st, err := in.M.DKGStatus(ctx, &pdkg.DKGStatusRequest{BeaconID: c14BeaconID})
		if err == nil && st.GetComplete() != nil && st.GetComplete().GetState() == uint32(dkg.Complete) {
			break
		}
		if time.Now().After(deadline) {
			panic(fmt.Sprintf("harness setup: three-node DKG did not complete: %v %v", st, err))
		}
		time.Sleep(20 * time.Millisecond)
	}
	in.cliL.mu.Lock()
	for _, c := range in.cliL.packets {
		if c.GetExecute() != nil {
			in.execute = proto.Clone(c).(*pdkg.GossipPacket)
		}
	}
	in.cliL.mu.Unlock()
	if in.execute == nil || in.proposal == nil {
		panic("harness setup: templates not captured (complete)")
	}
	// stop delivering: from here on the node under test only hears from the op stream
	for _, c := range []*memDKGClient{in.cliL, in.cliM, cliO} {
		c.mu.Lock()
		c.routes = nil
		c.mu.Unlock()
	}
}

func (in *dkgInst) grpcConn() *grpc.ClientConn {
	if in.conn != nil {
		return in.conn
	}
	// the production constructor of the peer-facing gateway (listener with its interceptor chain + clients)
	gw, err := dnet.NewGRPCPrivateGateway(context.Background(), "127.0.0.1:0", in.dd)
	mustOK("NewGRPCPrivateGateway", err)
	gw.StartAll()
	in.gw = gw
	conn, err := grpc.NewClient(gw.Listener.Addr(), grpc.WithTransportCredentials(insecure.NewCredentials()),
		grpc.WithDefaultCallOptions(grpc.MaxCallSendMsgSize(64<<20), grpc.MaxCallRecvMsgSize(64<<20)))
	mustOK("grpc.NewClient", err)
	in.conn = conn
	return conn
}

// ---------------------------------------------------------------- guarded calls

// panicSite names the innermost function of the drand module on the panicking goroutine's stack.
func panicSite() string {
	pcs := make([]uintptr, 64)
	n := runtime.Callers(3, pcs)
	frames := runtime.CallersFrames(pcs[:n])
	for {
		f, more := frames.Next()
		fn := f.Function
		if strings.HasPrefix(fn, "github.com/drand/drand/v2/") && !strings.Contains(fn, "/internal/verifh") {
			fn = strings.TrimPrefix(fn, "github.com/drand/drand/v2/")
			if i := strings.LastIndex(fn, "/"); i >= 0 {
				fn = fn[i+1:]
			}
			// a closure inside a method (`Status.func1`) is reported as the method: the site is the enclosing named function
			for {
				j := strings.LastIndex(fn, ".func")
				if j < 0 || strings.Trim(fn[j+5:], "0123456789.") != "" {
					break
				}
				fn = fn[:j]
			}
			return fn
		}
		if !more {
			break
		}
	}
	return "?"
}

// guarded runs f under a watchdog with recover. Outcome classes: ok | err | panic:<site> | contained | hang.
func guarded(wd time.Duration, f func(ctx context.Context) error) (out string, detail string) {
	ch := make(chan [2]string, 1)
	ctx, cancel := context.WithCancel(context.Background())
	go func() {
		defer func() {
			if r := recover(); r != nil {
				ch <- [2]string{"panic:" + panicSite(), fmt.Sprint(r)}
			}
		}()
		err := f(ctx)
		switch {
		case err == nil:
			ch <- [2]string{"ok", ""}
		case status.Code(err) == codes.Internal:
			ch <- [2]string{"contained", err.Error()}
		default:
			ch <- [2]string{"err", err.Error()}
		}
	}()
	select {
	case r := <-ch:
		cancel()
		return r[0], r[1]
	case <-time.After(wd):
	}
	select {
	case r := <-ch:
		cancel()
		return r[0], r[1] + " (slow: missed the watchdog, returned during the confirmation window)"
	case <-time.After(c14Confirm):
		cancel()
		return "hang", ""
	}
}

// ---------------------------------------------------------------- request builders

func (w *c14World) junk(n int) []byte { return w.rnd.bytes(n) }

func idOf(class string) string {
	switch class {
	case "absent":
		return ""
	case "known":
		return c14BeaconID
	case "unknown":
		return "no-such-beacon"
	case "malformed":
		return "../../etc/passwd\x00‮" + strings.Repeat("A", 4096)
	}
	panic("bad id class " + class)
}

func (in *dkgInst) addrOf(class string) string {
	switch class {
	case "empty":
		return ""
	case "leader":
		return in.w.L.Public.Addr
	case "me":
		return in.w.M.Public.Addr
	case "other":
		return in.w.O.Public.Addr
	case "stranger":
		return "203.0.113.9:1"
	}
	panic("bad addr class " + class)
}

func (in *dkgInst) sigOf(class string, tpl []byte) []byte {
	switch class {
	case "empty":
		return nil
	case "b1":
		return in.w.junk(1)
	case "b3":
		return in.w.junk(3)
	case "b4":
		return in.w.junk(4)
	case "right":
		return in.w.junk(len(tpl))
	case "big":
		return in.w.junk(1 << 20)
	case "trunc":
		return append([]byte{}, tpl[:len(tpl)-1]...)
	case "flip":
		b := append([]byte{}, tpl...)
		b[len(b)/2] ^= 1
		return b
	case "tpl":
		return append([]byte{}, tpl...)
	}
	panic("bad sig class " + class)
}

func (in *dkgInst) signedResponse(fresh bool) *pdkg.DKGPacket {
	if !fresh && in.lastSigned != nil {
		return proto.Clone(in.lastSigned).(*pdkg.DKGPacket)
	}
	var cfg *kdkg.Config
	if b := in.M.Executions[c14BeaconID]; b != nil {
		cfg = dkg.VerifEchoConfig(b)
	}
	idx := uint32(0)
	if cfg != nil {
		for _, n := range cfg.NewNodes {
			if n.Public.Equal(in.w.O.Public.Key) {
				idx = n.Index
			}
		}
	}
	in.seq++
	rb := &kdkg.ResponseBundle{ShareIndex: idx, SessionID: []byte("verif"),
		Responses: []kdkg.Response{{DealerIndex: in.seq, Status: true}}}
	auth := in.w.sch.DKGAuthScheme
	if cfg != nil {
		auth = cfg.Auth
	}
	sig, err := auth.Sign(in.w.O.Key, rb.Hash())
	mustOK("sign response bundle", err)
	p := &pdkg.DKGPacket{Dkg: &pdkg.Packet{
		Metadata: &drand.Metadata{BeaconID: c14BeaconID},
		Bundle: &pdkg.Packet_Response{Response: &pdkg.ResponseBundle{ShareIndex: idx, SessionId: rb.SessionID, Signature: sig,
			Responses: []*pdkg.Response{{DealerIndex: in.seq, Status: true}}}}}}
	in.lastSigned = proto.Clone(p).(*pdkg.DKGPacket)
	return p
}

func (in *dkgInst) dkgPacket(body, did string) *pdkg.DKGPacket {
	md := &drand.Metadata{BeaconID: idOf(did)}
	pk := func(b interface{}) *pdkg.DKGPacket {
		p := &pdkg.Packet{Metadata: md}
		switch t := b.(type) {
		case *pdkg.Packet_Deal:
			p.Bundle = t
		case *pdkg.Packet_Response:
			p.Bundle = t
		case *pdkg.Packet_Justification:
			p.Bundle = t
		}
		return &pdkg.DKGPacket{Dkg: p}
	}
	w := in.w
	switch body {
	case "nil":
		return nil
	case "empty":
		return &pdkg.DKGPacket{}
	case "nometa":
		return &pdkg.DKGPacket{Dkg: &pdkg.Packet{Bundle: &pdkg.Packet_Response{Response: &pdkg.ResponseBundle{}}}}
	case "nobundle":
		return pk(nil)
	case "deal.nil":
		return pk(&pdkg.Packet_Deal{})
	case "deal.empty":
		return pk(&pdkg.Packet_Deal{Deal: &pdkg.DealBundle{}})
	case "deal.junk":
		return pk(&pdkg.Packet_Deal{Deal: &pdkg.DealBundle{DealerIndex: 1, Commits: [][]byte{w.junk(3)},
			Deals: []*pdkg.Deal{{ShareIndex: 0, EncryptedShare: w.junk(8)}}, SessionId: w.junk(32), Signature: w.junk(64)}})
	case "deal.nocommit":
		return pk(&pdkg.Packet_Deal{Deal: &pdkg.DealBundle{DealerIndex: 1,
			Deals: []*pdkg.Deal{{ShareIndex: 0, EncryptedShare: w.junk(8)}}, SessionId: w.junk(32), Signature: w.junk(64)}})
	case "deal.nilelem":
		return pk(&pdkg.Packet_Deal{Deal: &pdkg.DealBundle{Deals: []*pdkg.Deal{nil}}})
	case "deal.big":
		return pk(&pdkg.Packet_Deal{Deal: &pdkg.DealBundle{DealerIndex: 0xffffffff, Deals: []*pdkg.Deal{{EncryptedShare: w.junk(1 << 20)}}, Signature: w.junk(64)}})
	case "resp.nil":
		return pk(&pdkg.Packet_Response{})
	case "resp.empty":
		return pk(&pdkg.Packet_Response{Response: &pdkg.ResponseBundle{}})
	case "resp.nilelem":
		return pk(&pdkg.Packet_Response{Response: &pdkg.ResponseBundle{Responses: []*pdkg.Response{nil}}})
	case "resp.junk":
		return pk(&pdkg.Packet_Response{Response: &pdkg.ResponseBundle{ShareIndex: 1, Responses: []*pdkg.Response{{DealerIndex: 7, Status: true}},
			SessionId: w.junk(32), Signature: w.junk(64)}})
	case "resp.signed":
		p := in.signedResponse(true)
		p.Dkg.Metadata = md
		return p
	case "resp.dup":
		p := in.signedResponse(false)
		p.Dkg.Metadata = md
		return p
	case "just.nil":
		return pk(&pdkg.Packet_Justification{})
	case "just.empty":
		return pk(&pdkg.Packet_Justification{Justification: &pdkg.JustificationBundle{}})
	case "just.nilelem":
		return pk(&pdkg.Packet_Justification{Justification: &pdkg.JustificationBundle{Justifications: []*pdkg.Justification{nil}}})
	case "just.junk":
		return pk(&pdkg.Packet_Justification{Justification: &pdkg.JustificationBundle{DealerIndex: 2,
			Justifications: []*pdkg.Justification{{ShareIndex: 1, Share: w.junk(3)}}, SessionId: w.junk(32), Signature: w.junk(64)}})
	case "just.big":
		return pk(&pdkg.Packet_Justification{Justification: &pdkg.JustificationBundle{
			Justifications: []*pdkg.Justification{{ShareIndex: 1, Share: w.junk(1 << 20)}}, Signature: w.junk(64)}})
	}
	panic("bad dkg body " + body)
}

func (in *dkgInst) gossipPacket(f []string) *pdkg.GossipPacket {
	// f = P M ID ADDR SIG BODY DID
	if f[0] == "nil" {
		return nil
	}
	body := f[5]
	tpl := in.proposal
	if strings.HasPrefix(body, "exec") {
		tpl = in.execute
	}
	g := &pdkg.GossipPacket{}
	if f[1] == "some" {
		g.Metadata = &pdkg.GossipMetadata{BeaconID: idOf(f[2]), Address: in.addrOf(f[3]), Signature: in.sigOf(f[4], tpl.Metadata.Signature)}
	}
	terms := func() *pdkg.ProposalTerms { return proto.Clone(in.proposal.GetProposal()).(*pdkg.ProposalTerms) }
	switch {
	case body == "none":
	case body == "prop.nil":
		g.Packet = &pdkg.GossipPacket_Proposal{}
	case body == "prop.empty":
		g.Packet = &pdkg.GossipPacket_Proposal{Proposal: &pdkg.ProposalTerms{}}
	case body == "prop.noleader":
		t := terms()
		t.Leader = nil
		g.Packet = &pdkg.GossipPacket_Proposal{Proposal: t}
	case body == "prop.junk":
		g.Packet = &pdkg.GossipPacket_Proposal{Proposal: &pdkg.ProposalTerms{BeaconID: c14BeaconID, Epoch: 1,
			Leader: &pdkg.Participant{Address: in.addrOf(f[3]), Key: in.w.junk(48), Signature: in.w.junk(96)}, Threshold: 1 << 31,
			Joining: []*pdkg.Participant{{Address: "x", Key: in.w.junk(5)}}}}
	case body == "prop.nilelem":
		t := terms()
		t.Joining = append(t.Joining, nil)
		g.Packet = &pdkg.GossipPacket_Proposal{Proposal: t}
	case body == "prop.epoch2":
		t := terms()
		t.Epoch = 2
		t.Remaining = t.Joining
		t.Joining = nil
		g.Packet = &pdkg.GossipPacket_Proposal{Proposal: t}
	case body == "prop.valid":
		g.Packet = &pdkg.GossipPacket_Proposal{Proposal: terms()}
	case body == "acc.nil":
		g.Packet = &pdkg.GossipPacket_Accept{}
	case body == "acc.empty":
		g.Packet = &pdkg.GossipPacket_Accept{Accept: &pdkg.AcceptProposal{}}
	case body == "acc.stranger":
		g.Packet = &pdkg.GossipPacket_Accept{Accept: &pdkg.AcceptProposal{Acceptor: &pdkg.Participant{Address: "203.0.113.9:1", Key: in.w.junk(48)}}}
	case body == "acc.member":
		g.Packet = &pdkg.GossipPacket_Accept{Accept: &pdkg.AcceptProposal{Acceptor: proto.Clone(in.w.pO).(*pdkg.Participant)}}
	case body == "rej.nil":
		g.Packet = &pdkg.GossipPacket_Reject{}
	case body == "rej.empty":
		g.Packet = &pdkg.GossipPacket_Reject{Reject: &pdkg.RejectProposal{}}
	case body == "rej.stranger":
		g.Packet = &pdkg.GossipPacket_Reject{Reject: &pdkg.RejectProposal{Rejector: &pdkg.Participant{Address: "203.0.113.9:1", Key: in.w.junk(48)}}}
	case body == "rej.member":
		g.Packet = &pdkg.GossipPacket_Reject{Reject: &pdkg.RejectProposal{Rejector: proto.Clone(in.w.pO).(*pdkg.Participant)}}
	case body == "abort.nil":
		g.Packet = &pdkg.GossipPacket_Abort{}
	case body == "abort.empty":
		g.Packet = &pdkg.GossipPacket_Abort{Abort: &pdkg.AbortDKG{}}
	case body == "abort.reason":
		g.Packet = &pdkg.GossipPacket_Abort{Abort: &pdkg.AbortDKG{Reason: strings.Repeat("r", 1<<16)}}
	case body == "exec.nil":
		g.Packet = &pdkg.GossipPacket_Execute{}
	case body == "exec.empty":
		g.Packet = &pdkg.GossipPacket_Execute{Execute: &pdkg.StartExecution{}}
	case body == "exec.time":
		g.Packet = &pdkg.GossipPacket_Execute{Execute: &pdkg.StartExecution{Time: &timestamppb.Timestamp{Seconds: -1 << 62, Nanos: -5}}}
	case body == "exec.valid":
		g.Packet = &pdkg.GossipPacket_Execute{Execute: proto.Clone(in.execute.GetExecute()).(*pdkg.StartExecution)}
	case body == "dkg.nil":
		g.Packet = &pdkg.GossipPacket_Dkg{}
	case strings.HasPrefix(body, "dkg."):
		g.Packet = &pdkg.GossipPacket_Dkg{Dkg: in.dkgPacket(body[4:], f[6])}
	default:
		panic("bad body " + body)
	}
	return g
}

// ---------------------------------------------------------------- calls and probes

func (in *dkgInst) callPacket(layer string, g *pdkg.GossipPacket) (string, string) {
	return guarded(c14Watchdog, func(ctx context.Context) error {
		var err error
		switch layer {
		case "proc":
			_, err = in.M.Packet(ctx, g)
		case "daemon":
			_, err = in.dd.Packet(ctx, g)
		case "grpc":
			_, err = pdkg.NewDKGPublicClient(in.grpcConn()).Packet(ctx, g)
		default:
			panic("bad layer " + layer)
		}
		return err
	})
}

func (in *dkgInst) callBcast(layer string, p *pdkg.DKGPacket) (string, string) {
	return guarded(c14Watchdog, func(ctx context.Context) error {
		var err error
		switch layer {
		case "proc":
			_, err = in.M.BroadcastDKG(ctx, p)
		case "daemon":
			_, err = in.dd.BroadcastDKG(ctx, p)
		case "grpc":
			_, err = pdkg.NewDKGPublicClient(in.grpcConn()).BroadcastDKG(ctx, p)
		default:
			panic("bad layer " + layer)
		}
		return err
	})
}

func (in *dkgInst) callStatus(layer string, r *pdkg.DKGStatusRequest) (string, string) {
	return guarded(c14Watchdog, func(ctx context.Context) error {
		var err error
		switch layer {
		case "proc":
			_, err = in.M.DKGStatus(ctx, r)
		case "daemon":
			_, err = in.dd.DKGStatus(ctx, r)
		default:
			panic("bad layer " + layer)
		}
		return err
	})
}

// probes: is the lock free, and do a status request, a gossip packet and a broadcast (all for benign inputs) still get their usual answer
// c14ProbeEvery: the request probes (each costs a few store reads) run after every op whose outcome is not a plain
// error and after every c14ProbeEvery-th op; the lock probe runs after every op. The Lean driver applies the same rule.
const c14ProbeEvery = 4

func (in *dkgInst) probes(layer string, full bool) string {
	lock := "free"
	if !in.M.VerifLockFree() {
		lock = "held"
	}
	if !full && lock == "free" {
		return "lock=free st=- pk=- bc=-"
	}
	save := c14Watchdog
	c14Watchdog = c14ProbeWatchdog
	defer func() { c14Watchdog = save }()
	pl := layer
	if pl == "grpc" {
		pl = "daemon" // DKGStatus is not served on the peer-facing listener
	}
	st, _ := in.callStatus(pl, &pdkg.DKGStatusRequest{BeaconID: c14BeaconID})
	pk, _ := in.callPacket(layer, &pdkg.GossipPacket{Metadata: &pdkg.GossipMetadata{BeaconID: c14BeaconID, Address: "203.0.113.9:1", Signature: []byte{1, 2, 3, 4}},
		Packet: &pdkg.GossipPacket_Abort{Abort: &pdkg.AbortDKG{Reason: "probe"}}})
	bc, _ := in.callBcast(layer, &pdkg.DKGPacket{Dkg: &pdkg.Packet{Metadata: &drand.Metadata{BeaconID: c14BeaconID}}})
	return fmt.Sprintf("lock=%s st=%s pk=%s bc=%s", lock, st, pk, bc)
}

func dispatchEngine(args []string, in *bufio.Scanner, out *bufio.Writer) {
	seed := uint64(1)
	if len(args) > 0 {
		fmt.Sscan(args[0], &seed)
	}
	if len(args) > 1 { // confirmation window in seconds (replays of known hanging witnesses use a short one)
		var c int
		fmt.Sscan(args[1], &c)
		c14Confirm = time.Duration(c) * time.Second
	}
	verbose := os.Getenv("VERIF_C14_VERBOSE") != ""
	w := newC14World(seed)
	var inst *dkgInst
	defer func() {
		// tear down with a cap: a wedged instance must not keep the harness process alive
		out.Flush()
		done := make(chan struct{})
		go func() {
			defer close(done)
			defer func() { _ = recover() }()
			inst.close()
			if w.bw != nil {
				w.bw.close()
			}
		}()
		select {
		case <-done:
		case <-time.After(5 * time.Second):
		}
		os.Exit(0)
	}()
	for in.Scan() {
		f := fields(in.Text())
		if len(f) == 0 {
			continue
		}
		res := safely(func() string {
			switch f[0] {
			case "phase":
				inst.close()
				inst = newDKGInst(w, f[1])
				return "ok"
			case "packet", "bcast", "status":
				if inst == nil {
					return "bad-op no phase"
				}
				if inst.wedged {
					return "wedged"
				}
				var o, d string
				switch f[0] {
				case "packet":
					o, d = inst.callPacket(f[1], inst.gossipPacket(f[2:]))
				case "bcast":
					var p *pdkg.DKGPacket
					if f[2] != "nil" {
						p = inst.dkgPacket(f[3], f[4])
					}
					o, d = inst.callBcast(f[1], p)
				case "status":
					var r *pdkg.DKGStatusRequest
					if f[2] != "nil" {
						r = &pdkg.DKGStatusRequest{BeaconID: idOf(f[3])}
					}
					o, d = inst.callStatus(f[1], r)
				}
				if o == "hang" { // the call is stuck for good: do not wait long for the probes behind it
					saved := c14Confirm
					c14Confirm = time.Second
					defer func() { c14Confirm = saved }()
				}
				inst.nops++
				pr := inst.probes(f[1], o != "err" || inst.nops%c14ProbeEvery == 0)
				if o == "hang" || strings.Contains(pr, "hang") || strings.Contains(pr, "held") {
					inst.wedged = true
				}
				if verbose && d != "" {
					if len(d) > 200 {
						d = d[:200]
					}
					return o + " " + pr + " #" + strings.ReplaceAll(d, "\n", " ")
				}
				return o + " " + pr
			}
			if r, ok := beaconOp(w, f); ok {
				return r
			}
			return "bad-op"
		})
		fmt.Fprintln(out, res)
		out.Flush()
	}
}
