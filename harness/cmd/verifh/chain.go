//go:build verif

package main

import (
	"bufio"
	"context"
	"errors"
	"fmt"
	"os"
	"runtime"
	"strconv"
	"strings"
	"sync"
	"sync/atomic"

	"github.com/drand/drand/v2/common"
	"github.com/drand/drand/v2/crypto"
	"github.com/drand/drand/v2/internal/chain"
	"github.com/drand/drand/v2/internal/chain/beacon"
	"github.com/drand/drand/v2/internal/chain/boltdb"
	"github.com/drand/drand/v2/internal/chain/memdb"
)

func init() { engines["chain"] = chainEngine }

type chainSUT struct {
	backend string
	scheme  string
	seed    []byte
	chained bool
	dir     string
	base    chain.Store
	top     chain.Store
	ctx     context.Context
}

func (c *chainSUT) openBase() {
	ctx := context.Background()
	if c.chained {
		ctx = chain.SetPreviousRequiredOnContext(ctx)
	}
	c.ctx = ctx
	switch c.backend {
	case "trimmed":
		s, err := boltdb.NewBoltStore(ctx, quietLogger(), c.dir)
		if err != nil {
			panic(err)
		}
		c.base = s
	case "bolt":
		s, err := boltdb.NewBoltStore(boltdb.IsATest(ctx), quietLogger(), c.dir)
		if err != nil {
			panic(err)
		}
		c.base = s
	default:
		if c.base == nil { // memdb survives only within the process
			capa := 2000
			if len(c.backend) > 3 {
				capa, _ = strconv.Atoi(c.backend[3:])
			}
			c.base = memdb.NewStore(capa)
		}
	}
}

// build assembles the wrappers exactly like newChainStore: append(scheme(base)).
func (c *chainSUT) build() {
	ss, err := beacon.NewSchemeStore(c.ctx, c.base, mustScheme(c.scheme))
	if err != nil {
		panic(err)
	}
	as, err := beacon.VerifNewAppendStore(c.ctx, ss)
	if err != nil {
		panic(err)
	}
	c.top = as
}

func classifyPut(err error) string {
	if err == nil {
		return "ok"
	}
	if errors.Is(err, beacon.ErrBeaconAlreadyStored) {
		return "already"
	}
	m := err.Error()
	switch {
	case strings.Contains(m, "but the previous signature"):
		return "dup-diff-prev"
	case strings.Contains(m, "but the signature"):
		return "dup-diff-sig"
	case strings.Contains(m, "invalid round inserted"):
		return "bad-round"
	case strings.Contains(m, "invalid previous signature"):
		return "bad-prev"
	}
	return "err:" + m
}

// chain <backend: trimmed|bolt|mem>
func chainEngine(args []string, in *bufio.Scanner, out *bufio.Writer) {
	var c *chainSUT
	closeAll := func() {
		if c != nil && c.base != nil {
			c.base.Close()
			if c.dir != "" {
				os.RemoveAll(c.dir)
			}
		}
	}
	defer closeAll()
	for in.Scan() {
		f := fields(in.Text())
		if len(f) == 0 {
			continue
		}
		res := safely(func() string {
			switch f[0] {
			case "init":
				closeAll()
				// the daemon asks for previous signatures exactly for the default (chained) scheme
				c = &chainSUT{backend: args[0], scheme: f[1], seed: unhx(f[2]), chained: f[1] == crypto.DefaultSchemeID}
				if !strings.HasPrefix(c.backend, "mem") {
					c.dir = tmpDir()
				}
				c.openBase()
				// NewHandler: genesis beacon goes straight into the base store
				if err := c.base.Put(c.ctx, chain.GenesisBeacon(c.seed)); err != nil {
					return "err:" + err.Error()
				}
				c.build()
				return "ok"
			case "put":
				return classifyPut(c.top.Put(c.ctx, parseBeacon(f[1], f[2], f[3])))
			case "raw":
				if err := c.base.Put(c.ctx, parseBeacon(f[1], f[2], f[3])); err != nil {
					return "err:" + err.Error()
				}
				return "ok"
			case "restart":
				if !strings.HasPrefix(c.backend, "mem") {
					c.base.Close()
					c.openBase()
				}
				// every start goes through NewHandler, which re-puts the genesis beacon into the base store
				if err := c.base.Put(c.ctx, chain.GenesisBeacon(c.seed)); err != nil {
					return "err:" + err.Error()
				}
				c.build()
				return "ok"
			case "failput": // the write reaches the back-end with a cancelled context
				cctx, cancel := context.WithCancel(c.ctx)
				cancel()
				err := c.top.Put(cctx, parseBeacon(f[1], f[2], f[3]))
				if err != nil && errors.Is(err, context.Canceled) {
					return "err-write"
				}
				return classifyPut(err)
			case "race": // race <n> <workers>: goroutines race to append the same n next beacons through the real stack
				n, _ := strconv.Atoi(f[1])
				w, _ := strconv.Atoi(f[2])
				last, err := c.top.Last(c.ctx)
				if err != nil {
					return "err:" + err.Error()
				}
				// the beacons every writer tries to append (identical values, as aggregation and sync would produce)
				bs := make([]*common.Beacon, n)
				prev := last.Signature
				for i := 0; i < n; i++ {
					r := last.Round + 1 + uint64(i)
					sig := []byte{byte(r * 7), byte(r), 0x5a}
					p := prev
					if !c.chained {
						p = nil
					}
					bs[i] = &common.Beacon{Round: r, Signature: sig, PreviousSig: p}
					prev = sig
				}
				var wg sync.WaitGroup
				oks := make([]int32, n)
				var bad int32
				for k := 0; k < w; k++ {
					wg.Add(1)
					go func() {
						defer wg.Done()
						for i := 0; i < n; i++ {
							for tries := 0; ; tries++ {
								b := *bs[i]
								err := c.top.Put(c.ctx, &b)
								cl := classifyPut(err)
								if cl == "ok" {
									atomic.AddInt32(&oks[i], 1)
									break
								}
								if cl == "already" {
									break
								}
								if cl == "bad-round" {
									// either somebody else is behind us (retry) or already past this round (done)
									l, _ := c.top.Last(c.ctx)
									if l != nil && l.Round >= b.Round {
										break
									}
									if tries > 3000 {
										atomic.AddInt32(&bad, 1)
										break
									}
									runtime.Gosched()
									continue
								}
								atomic.AddInt32(&bad, 1)
								break
							}
						}
					}()
				}
				wg.Wait()
				var okl []string
				for _, v := range oks {
					okl = append(okl, strconv.Itoa(int(v)))
				}
				return fmt.Sprintf("race oks=%s bad=%d", strings.Join(okl, ","), bad)
			case "last":
				return showBeacon(c.top.Last(c.ctx))
			case "scan":
				var outs []string
				err := c.top.Cursor(c.ctx, func(ctx context.Context, cur chain.Cursor) error {
					var b *common.Beacon
					var err error
					for b, err = cur.First(ctx); err == nil; b, err = cur.Next(ctx) {
						outs = append(outs, showBeacon(b, nil))
					}
					return nil
				})
				if err != nil {
					return "err:" + err.Error()
				}
				if len(outs) == 0 {
					return "empty"
				}
				return strings.Join(outs, "|")
			}
			return "bad-op"
		})
		fmt.Fprintln(out, res)
	}
}
