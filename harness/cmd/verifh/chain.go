//go:build verif

package main

import (
	"bufio"
	"context"
	"errors"
	"fmt"
	"os"
	"runtime"
	"strconv"
	"strings"
	"sync"
	"sync/atomic"
	"time"

	"github.com/drand/drand/v2/common"
	"github.com/drand/drand/v2/crypto"
	"github.com/drand/drand/v2/internal/chain"
	"github.com/drand/drand/v2/internal/chain/beacon"
	"github.com/drand/drand/v2/internal/chain/boltdb"
	"github.com/drand/drand/v2/internal/chain/memdb"
)

func init() { engines["chain"] = chainEngine }

type chainSUT struct {
	backend string
	scheme  string
	seed    []byte
	chained bool
	dir     string
	base    chain.Store
	top     chain.Store
	cbs     beacon.CallbackStore // callbackStore(appendStore(schemeStore(base))): what newChainStore hands to the aggregator and the sync manager
	ctx     context.Context
}

func (c *chainSUT) openBase() {
	ctx := context.Background()
	if c.chained {
		ctx = chain.SetPreviousRequiredOnContext(ctx)
	}
	c.ctx = ctx
	switch c.backend {
	case "trimmed":
		s, err := boltdb.NewBoltStore(ctx, quietLogger(), c.dir)
		if err != nil {
			panic(err)
		}
		c.base = s
	case "bolt":
		s, err := boltdb.NewBoltStore(boltdb.IsATest(ctx), quietLogger(), c.dir)
		if err != nil {
			panic(err)
		}
		c.base = s
	default:
		if c.base == nil { // memdb survives only within the process
			capa := 2000
			if len(c.backend) > 3 {
				capa, _ = strconv.Atoi(c.backend[3:])
			}
			c.base = memdb.NewStore(capa)
		}
	}
}

// build assembles the wrappers exactly like newChainStore: append(scheme(base)).
func (c *chainSUT) build() {
	ss, err := beacon.NewSchemeStore(c.ctx, c.base, mustScheme(c.scheme))
	if err != nil {
		panic(err)
	}
	as, err := beacon.VerifNewAppendStore(c.ctx, ss)
	if err != nil {
		panic(err)
	}
	c.top = as
	c.cbs = beacon.NewCallbackStore(quietLogger(), as)
}

func classifyPut(err error) string {
	if err == nil {
		return "ok"
	}
	if errors.Is(err, beacon.ErrBeaconAlreadyStored) {
		return "already"
	}
	m := err.Error()
	switch {
	case strings.Contains(m, "but the previous signature"):
		return "dup-diff-prev"
	case strings.Contains(m, "but the signature"):
		return "dup-diff-sig"
	case strings.Contains(m, "invalid round inserted"):
		return "bad-round"
	case strings.Contains(m, "invalid previous signature"):
		return "bad-prev"
	}
	return "err:" + m
}

// chain <backend: trimmed|bolt|mem>
func chainEngine(args []string, in *bufio.Scanner, out *bufio.Writer) {
	var c *chainSUT
	closeAll := func() {
		if c != nil && c.base != nil {
			c.base.Close()
			if c.dir != "" {
				os.RemoveAll(c.dir)
			}
		}
	}
	defer closeAll()
	for in.Scan() {
		f := fields(in.Text())
		if len(f) == 0 {
			continue
		}
		res := safely(func() string {
			switch f[0] {
			case "init":
				closeAll()
				// the daemon asks for previous signatures exactly for the default (chained) scheme
				c = &chainSUT{backend: args[0], scheme: f[1], seed: unhx(f[2]), chained: f[1] == crypto.DefaultSchemeID}
				if !strings.HasPrefix(c.backend, "mem") {
					c.dir = tmpDir()
				}
				c.openBase()
				// NewHandler: genesis beacon goes straight into the base store
				if err := c.base.Put(c.ctx, chain.GenesisBeacon(c.seed)); err != nil {
					return "err:" + err.Error()
				}
				c.build()
				return "ok"
			case "put":
				return classifyPut(c.top.Put(c.ctx, parseBeacon(f[1], f[2], f[3])))
			case "raw":
				if err := c.base.Put(c.ctx, parseBeacon(f[1], f[2], f[3])); err != nil {
					return "err:" + err.Error()
				}
				return "ok"
			case "restart":
				if !strings.HasPrefix(c.backend, "mem") {
					c.base.Close()
					c.openBase()
				}
				// every start goes through NewHandler, which re-puts the genesis beacon into the base store
				if err := c.base.Put(c.ctx, chain.GenesisBeacon(c.seed)); err != nil {
					return "err:" + err.Error()
				}
				c.build()
				return "ok"
			case "failput": // the write reaches the back-end with a cancelled context
				cctx, cancel := context.WithCancel(c.ctx)
				cancel()
				err := c.top.Put(cctx, parseBeacon(f[1], f[2], f[3]))
				if err != nil && errors.Is(err, context.Canceled) {
					return "err-write"
				}
				return classifyPut(err)
			case "race": // race <n> <workers>: goroutines race to append the same n next beacons through the real stack
				n, _ := strconv.Atoi(f[1])
				w, _ := strconv.Atoi(f[2])
				last, err := c.top.Last(c.ctx)
				if err != nil {
					return "err:" + err.Error()
				}
				// the beacons every writer tries to append (identical values, as aggregation and sync would produce)
				bs := make([]*common.Beacon, n)
				prev := last.Signature
				for i := 0; i < n; i++ {
					r := last.Round + 1 + uint64(i)
					sig := []byte{byte(r * 7), byte(r), 0x5a}
					p := prev
					if !c.chained {
						p = nil
					}
					bs[i] = &common.Beacon{Round: r, Signature: sig, PreviousSig: p}
					prev = sig
				}
				var wg sync.WaitGroup
				oks := make([]int32, n)
				var bad int32
				for k := 0; k < w; k++ {
					wg.Add(1)
					go func() {
						defer wg.Done()
						for i := 0; i < n; i++ {
							for tries := 0; ; tries++ {
								b := *bs[i]
								err := c.top.Put(c.ctx, &b)
								cl := classifyPut(err)
								if cl == "ok" {
									atomic.AddInt32(&oks[i], 1)
									break
								}
								if cl == "already" {
									break
								}
								if cl == "bad-round" {
									// either somebody else is behind us (retry) or already past this round (done)
									l, _ := c.top.Last(c.ctx)
									if l != nil && l.Round >= b.Round {
										break
									}
									if tries > 3000 {
										atomic.AddInt32(&bad, 1)
										break
									}
									runtime.Gosched()
									continue
								}
								atomic.AddInt32(&bad, 1)
								break
							}
						}
					}()
				}
				wg.Wait()
				var okl []string
				for _, v := range oks {
					okl = append(okl, strconv.Itoa(int(v)))
				}
				return fmt.Sprintf("race oks=%s bad=%d", strings.Join(okl, ","), bad)
			case "get": // read from the base store
				r, _ := strconv.ParseUint(f[1], 10, 64)
				return showBeacon(c.base.Get(c.ctx, r))
			case "qput": // qput <before|during|after> r sig prev: Put through the stack, its context cancelled at that point
				b := parseBeacon(f[2], f[3], f[4])
				err, note := putUnderCancel(f[1], c.ctx, c.base, func(ctx context.Context) error { return c.top.Put(ctx, b) })
				if note == "hang" {
					return "hang"
				}
				res := classifyPut(err)
				if err != nil && errors.Is(err, context.Canceled) {
					res = "err-write"
				}
				return fmt.Sprintf("%s get=%s", res, showBeacon(c.base.Get(c.ctx, b.Round)))
			case "brace": // brace <k> <n> <same|diff>: n times, k goroutines leave a barrier to Put a beacon of round head+1
				k, _ := strconv.Atoi(f[1])
				n, _ := strconv.Atoi(f[2])
				diff := f[3] == "diff"
				var mu sync.Mutex
				fired := map[uint64]int{}
				var total int64
				c.cbs.AddCallback("verif-brace", func(b *common.Beacon, closed bool) {
					if closed || b == nil {
						return
					}
					mu.Lock()
					fired[b.Round]++
					mu.Unlock()
					atomic.AddInt64(&total, 1)
				})
				defer c.cbs.RemoveCallback("verif-brace")
				var oks, alr, dif, oth, cbn, win []string
				var nils int64
				rounds := make([]uint64, 0, n)
				for i := 0; i < n; i++ {
					last, err := c.top.Last(c.ctx)
					if err != nil {
						return "err:" + err.Error()
					}
					r := last.Round + 1
					rounds = append(rounds, r)
					prev := last.Signature
					if !c.chained {
						prev = nil
					}
					cands := make([]*common.Beacon, k)
					for j := 0; j < k; j++ {
						sig := []byte{byte(r * 7), byte(r), 0x5b}
						if diff {
							sig = append(sig, byte(j))
						}
						cands[j] = &common.Beacon{Round: r, Signature: sig, PreviousSig: append([]byte{}, prev...)}
					}
					start := make(chan struct{})
					var wg, ready sync.WaitGroup
					res := make([]string, k)
					for j := 0; j < k; j++ {
						wg.Add(1)
						ready.Add(1)
						go func(j int) {
							defer wg.Done()
							ready.Done()
							<-start
							res[j] = classifyPut(c.cbs.Put(c.ctx, cands[j]))
						}(j)
					}
					ready.Wait()
					close(start)
					wg.Wait()
					cnt := map[string]int{}
					for _, x := range res {
						switch x {
						case "ok", "already", "dup-diff-sig":
							cnt[x]++
						default:
							cnt["other"]++
						}
					}
					nils += int64(cnt["ok"])
					oks = append(oks, strconv.Itoa(cnt["ok"]))
					alr = append(alr, strconv.Itoa(cnt["already"]))
					dif = append(dif, strconv.Itoa(cnt["dup-diff-sig"]))
					oth = append(oth, strconv.Itoa(cnt["other"]))
					// whose beacon is the stored one
					w := "-"
					if st, err := c.base.Get(c.ctx, r); err == nil {
						for j := 0; j < k; j++ {
							if string(st.Signature) == string(cands[j].Signature) {
								w = strconv.Itoa(j)
								break
							}
						}
					}
					win = append(win, w)
				}
				// every Put that returned nil handed one job to the callback's worker: wait for them
				deadline := time.Now().Add(5 * time.Second)
				for atomic.LoadInt64(&total) < nils && time.Now().Before(deadline) {
					time.Sleep(100 * time.Microsecond)
				}
				time.Sleep(200 * time.Microsecond)
				mu.Lock()
				for _, r := range rounds {
					cbn = append(cbn, strconv.Itoa(fired[r]))
				}
				mu.Unlock()
				j := func(l []string) string { return strings.Join(l, ",") }
				return fmt.Sprintf("brace ok=%s already=%s diffsig=%s other=%s cb=%s win=%s", j(oks), j(alr), j(dif), j(oth), j(cbn), j(win))
			case "last":
				return showBeacon(c.top.Last(c.ctx))
			case "scan":
				var outs []string
				err := c.top.Cursor(c.ctx, func(ctx context.Context, cur chain.Cursor) error {
					var b *common.Beacon
					var err error
					for b, err = cur.First(ctx); err == nil; b, err = cur.Next(ctx) {
						outs = append(outs, showBeacon(b, nil))
					}
					return nil
				})
				if err != nil {
					return "err:" + err.Error()
				}
				if len(outs) == 0 {
					return "empty"
				}
				return strings.Join(outs, "|")
			}
			return "bad-op"
		})
		fmt.Fprintln(out, res)
	}
}
