//go:build verif

package main

// Engine "handler" (C04): ONE real beacon.Handler of a real n-member group (real shares dealt by the
// harness), a fake clock, an in-memory ProtocolClient that records every outgoing PartialBeacon packet
// stamped with the fake clock's Now() at the moment PartialBeacon is called, a one-shot gate on the base
// store's Last() (lets the script hold the run loop between taking a tick and reading the head), and the
// node's own debug log as a second observation channel (which tick the run loop processed with which
// head; which appended beacon it saw with which `current`).
//
// Ops (one result line each):
//   init <n> <thr> <period_s> <catchup_s> <chained|unchained> <lead_s> <mem|bolt> [transRound]
//        clock := genesis - lead (lead may be negative); builds the Handler (NewHandler)
//   start | catchup | transition | stop | restart
//   adv <seconds>            fake clock Advance, then settle
//   put <k>                  k valid beacons head+1.. through h.Store().Put (the path the sync manager uses)
//   gate | release           arm the one-shot gate on base.Last() / release the blocked caller
//   partial <signer> <round|c+K|c-K|h+K> <good|badsig|badidx>   h.ProcessPartialBeacon with a real partial
//                            signature; the status is followed by :<resolved round>
//   agg                      thr good partials of members 1..thr for round head+1
//   reshare <round>          TransitionNewGroup to fresh shares of the same secret at <round>
//   settle                   wait again (collect stragglers)
// Result: "<status> T=<round:head,…> A=<b:current:launch,…> E=<round@dt*k,…> S=<from,…> H=<head> C=<dt>"
//   T ticks processed by the run loop (log), A appended-beacon notifications seen by the run loop (log),
//   E emissions (dt = stamp - genesis, k = packets/(n-1)), S FromRound of SyncChain calls, H stored head,
//   C clock - genesis. Everything after " # " is informational and not compared with the model.

import (
	"bufio"
	"context"
	"crypto/sha256"
	"encoding/json"
	"errors"
	"fmt"
	"os"
	"path/filepath"
	"runtime"
	"sort"
	"strconv"
	"strings"
	"sync"
	"sync/atomic"
	"time"

	clock "github.com/jonboulle/clockwork"
	"google.golang.org/grpc"

	"github.com/drand/drand/v2/common"
	"github.com/drand/drand/v2/common/key"
	"github.com/drand/drand/v2/common/log"
	"github.com/drand/drand/v2/crypto"
	"github.com/drand/drand/v2/internal/chain"
	"github.com/drand/drand/v2/internal/chain/beacon"
	"github.com/drand/drand/v2/internal/chain/boltdb"
	"github.com/drand/drand/v2/internal/chain/memdb"
	"github.com/drand/drand/v2/internal/net"
	proto "github.com/drand/drand/v2/protobuf/drand"
	"github.com/drand/kyber"
	"github.com/drand/kyber/share"
	"github.com/drand/kyber/share/dkg"
	"github.com/drand/kyber/util/random"
)

func init() { engines["handler"] = handlerEngine }

const hGenesis = int64(1700000000)

// ---- observation: clock wrapper ---------------------------------------------------------------

// obsClock delegates to a clockwork.FakeClock and counts Sleep calls (started / returned) with their
// deadlines, and remembers when the period ticker was created, so that the harness knows whether an
// Advance made something due. It changes no timing.
type obsClock struct {
	*clock.FakeClock
	mu        sync.Mutex
	deadlines []time.Time // of sleeps not yet returned
	started   int64
	ended     int64
	tickerAt  time.Time
	tickerD   time.Duration
	hasTicker bool
	activity  *int64
}

func (c *obsClock) Sleep(d time.Duration) {
	dl := c.FakeClock.Now().Add(d)
	c.mu.Lock()
	c.deadlines = append(c.deadlines, dl)
	c.started++
	c.mu.Unlock()
	atomic.AddInt64(c.activity, 1)
	c.FakeClock.Sleep(d)
	c.mu.Lock()
	for i, x := range c.deadlines {
		if x.Equal(dl) {
			c.deadlines = append(c.deadlines[:i], c.deadlines[i+1:]...)
			break
		}
	}
	c.ended++
	c.mu.Unlock()
	atomic.AddInt64(c.activity, 1)
}

func (c *obsClock) NewTicker(d time.Duration) clock.Ticker {
	t := c.FakeClock.NewTicker(d)
	c.mu.Lock()
	c.tickerAt, c.tickerD, c.hasTicker = c.FakeClock.Now(), d, true
	c.mu.Unlock()
	atomic.AddInt64(c.activity, 1)
	return t
}

// due reports whether a sleep deadline or a ticker expiry lies in (from, to].
func (c *obsClock) due(from, to time.Time) bool {
	c.mu.Lock()
	defer c.mu.Unlock()
	for _, d := range c.deadlines {
		if !d.After(to) {
			return true
		}
	}
	if c.hasTicker && c.tickerD > 0 {
		a := from.Sub(c.tickerAt) / c.tickerD
		if from.Before(c.tickerAt) {
			a = -1
		}
		b := to.Sub(c.tickerAt) / c.tickerD
		if !to.Before(c.tickerAt) && b > a && b >= 1 {
			return true
		}
	}
	return false
}

// ---- observation: outgoing packets ------------------------------------------------------------

type emission struct {
	to    string
	round uint64
	stamp int64
	prev  []byte
	sig   []byte
}

type tapClient struct {
	mu       sync.Mutex
	clk      clock.Clock
	emits    []emission
	syncFrom []uint64
	activity *int64
}

func (t *tapClient) GetIdentity(context.Context, net.Peer, *proto.IdentityRequest, ...net.CallOption) (*proto.IdentityResponse, error) {
	return nil, errors.New("verif: no identity service")
}

func (t *tapClient) SyncChain(_ context.Context, _ net.Peer, in *proto.SyncRequest, _ ...net.CallOption) (chan *proto.BeaconPacket, error) {
	t.mu.Lock()
	t.syncFrom = append(t.syncFrom, in.GetFromRound())
	t.mu.Unlock()
	atomic.AddInt64(t.activity, 1)
	return nil, errors.New("verif: peer has no beacons")
}

func (t *tapClient) PartialBeacon(_ context.Context, p net.Peer, in *proto.PartialBeaconPacket, _ ...net.CallOption) error {
	stamp := t.clk.Now().Unix() // the sender's clock at call time
	t.mu.Lock()
	t.emits = append(t.emits, emission{to: p.Address(), round: in.GetRound(), stamp: stamp,
		prev: append([]byte{}, in.GetPreviousSignature()...), sig: append([]byte{}, in.GetPartialSig()...)})
	t.mu.Unlock()
	atomic.AddInt64(t.activity, 1)
	return nil
}

func (t *tapClient) Status(context.Context, net.Peer, *proto.StatusRequest, ...grpc.CallOption) (*proto.StatusResponse, error) {
	return nil, errors.New("verif: no status service")
}

func (t *tapClient) Check(context.Context, net.Peer) error { return nil }

// ---- observation: the node's own debug log ----------------------------------------------------

type logTap struct {
	mu       sync.Mutex
	ticks    []string // round:head of every tick the run loop processed
	appended []string // b:current:launch
	c        map[string]int64
	activity *int64
}

func num(v interface{}) string {
	switch x := v.(type) {
	case float64:
		return strconv.FormatUint(uint64(x), 10)
	case bool:
		if x {
			return "1"
		}
		return "0"
	}
	return fmt.Sprint(v)
}

var hLogDump = os.Getenv("VERIF_HLOG") != ""

// Write receives the node's JSON log lines. Only a handful of lines are interpreted; they are the node's
// own statements about what it just did (no behaviour is added to the node).
func (l *logTap) Write(p []byte) (int, error) {
	if hLogDump {
		os.Stderr.Write(p)
	}
	for _, line := range strings.Split(string(p), "\n") {
		if len(line) == 0 || line[0] != '{' {
			continue
		}
		var m map[string]interface{}
		if json.Unmarshal([]byte(line), &m) != nil {
			continue
		}
		msg, _ := m["msg"].(string)
		bl, _ := m["beacon_loop"].(string)
		l.mu.Lock()
		switch {
		case bl == "new_round":
			l.ticks = append(l.ticks, num(m["round"])+":"+num(m["lastbeacon"]))
			l.c["tick"]++
		case bl == "catchupmode" && m["catchup_launch"] != nil:
			// what the run loop saw; whether it launched the catch-up goroutine is taken from that
			// goroutine's own first line ("sleeping now"), not from the value printed here
			l.appended = append(l.appended, num(m["last_is"])+":"+num(m["current"])+":0")
			l.c["appseen"]++
			if m["catchup_launch"] == true {
				l.c["launch"]++
			}
		case bl == "catchupmode" && msg == "sleeping now":
			l.c["sleeping"]++
			for i := len(l.appended) - 1; i >= 0; i-- {
				if strings.HasPrefix(l.appended[i], num(m["last_is"])+":") && strings.HasSuffix(l.appended[i], ":0") {
					l.appended[i] = strings.TrimSuffix(l.appended[i], ":0") + ":1"
					break
				}
			}
		case bl == "catchupmode" && msg == "broadcast next partial":
			l.c["cbroadcast"]++
		case msg == "ignoring past partial":
			l.c["past"]++
		case msg == "ignoring future partial":
			l.c["future"]++
		case m["broadcast_partial"] != nil:
			l.c["nv"]++ // own partial handed to the aggregator right after this line
			l.c["own"]++
		case m["process_partial"] != nil && m["status"] == "OK":
			l.c["nv"]++
		case m["store_partial"] != nil:
			l.c["ag"]++
			var a, b int
			if lp, ok := m["len_partials"].(string); ok {
				if _, err := fmt.Sscanf(lp, "%d/%d", &a, &b); err == nil && a >= b {
					l.c["full"]++
				}
			}
		case m["ignoring_partial"] != nil:
			l.c["ag"]++
		case msg == "unable to append partial to cache" || msg == "no round cache":
			l.c["ag"]++
		case m["aggregated_beacon"] != nil:
			l.c["aggdone"]++
			l.c["aggregated"]++
		case msg == "invalid_recovery" || msg == "invalid_sig":
			l.c["aggdone"]++
		case m["new_aggregated"] == "not_appendable":
			l.c["notapp"]++
		case m["chain_store"] == "catchup" && m["channel"] == "full":
			l.c["chanfull"]++
		}
		l.mu.Unlock()
		atomic.AddInt64(l.activity, 1)
	}
	return len(p), nil
}
func (l *logTap) Sync() error { return nil }

// ---- the gate -----------------------------------------------------------------------------------

// gatedStore is the base store handed to NewHandler. Last() of every wrapper the node builds ends here
// (none of them overrides Last). When armed, the next Last() call made by the run loop (Handler.run, tick
// branch) blocks until release; one-shot. Other callers (aggregator, sync manager, ProcessPartialBeacon) pass.
type gatedStore struct {
	chain.Store
	armed    int32
	blocked  int32
	rel      chan struct{}
	activity *int64
}

// fromRunLoop reports whether the caller's stack contains Handler.run (the tick branch reading the head).
func fromRunLoop() bool {
	pc := make([]uintptr, 32)
	n := runtime.Callers(2, pc)
	fr := runtime.CallersFrames(pc[:n])
	for {
		f, more := fr.Next()
		if strings.Contains(f.Function, "beacon.(*Handler).run") {
			return true
		}
		if !more {
			return false
		}
	}
}

func (g *gatedStore) Last(ctx context.Context) (*common.Beacon, error) {
	if atomic.LoadInt32(&g.armed) == 1 && fromRunLoop() && atomic.CompareAndSwapInt32(&g.armed, 1, 0) {
		atomic.StoreInt32(&g.blocked, 1)
		atomic.AddInt64(g.activity, 1)
		<-g.rel
		atomic.StoreInt32(&g.blocked, 0)
	}
	return g.Store.Last(ctx)
}

// Close is a no-op: Handler.Stop closes its store stack; the harness keeps the base store for restarts.
func (g *gatedStore) Close() error { return nil }

// ---- the system under test --------------------------------------------------------------------

type hKeys struct {
	pairs  []*key.Pair
	pri    *share.PriPoly
	shares []*key.Share
	pub    *share.PubPoly
	commit []kyber.Point
	truth  [][]byte // the one valid chain of this key set (genesis seed is fixed), extended on demand
}

var hKeyCache = map[string]*hKeys{}

func dealShares(sch *crypto.Scheme, n, thr int, secret kyber.Scalar) (*share.PriPoly, []*key.Share, *share.PubPoly, []kyber.Point) {
	if secret == nil {
		secret = sch.KeyGroup.Scalar().Pick(random.New())
	}
	pri := share.NewPriPoly(sch.KeyGroup, thr, secret, random.New())
	pub := pri.Commit(sch.KeyGroup.Point().Base())
	_, commits := pub.Info()
	out := make([]*key.Share, n)
	for i, s := range pri.Shares(n) {
		out[i] = &key.Share{DistKeyShare: dkg.DistKeyShare{Share: s, Commits: commits}, Scheme: sch}
	}
	return pri, out, pub, commits
}

func getKeys(sch *crypto.Scheme, n, thr int) *hKeys {
	id := fmt.Sprintf("%s/%d/%d", sch.Name, n, thr)
	if k, ok := hKeyCache[id]; ok {
		return k
	}
	k := &hKeys{}
	for i := 0; i < n; i++ {
		p, err := key.NewKeyPair(fmt.Sprintf("127.0.0.1:%d", 41000+i), sch)
		if err != nil {
			panic(err)
		}
		k.pairs = append(k.pairs, p)
	}
	k.pri, k.shares, k.pub, k.commit = dealShares(sch, n, thr, nil)
	hKeyCache[id] = k
	return k
}

type hSUT struct {
	n, thr          int
	period, catchup time.Duration
	chained         bool
	sch             *crypto.Scheme
	keys            *hKeys
	shares          []*key.Share // shares currently held by the vault (switches at a reshare)
	pub             *share.PubPoly
	newShares       []*key.Share
	newPub          *share.PubPoly
	reshareRound    uint64
	reshareDone     bool
	group           *key.Group
	clk             *obsClock
	baseKind        string
	dir             string
	base            chain.Store
	gate            *gatedStore
	h               *beacon.Handler
	client          *tapClient
	logs            *logTap
	truth           [][]byte
	activity        int64
	seenEmit        int
	seenSync        int
	seenTick        int
	seenApp         int
	quiet, maxWait  time.Duration
	procs           int
	started         bool
}

func (s *hSUT) digest(round uint64, prev []byte) []byte {
	return s.sch.DigestBeacon(&common.Beacon{Round: round, PreviousSig: prev})
}

// prevOf is the previous signature an honest member puts into its packet for `round`: the signature of
// round-1, for both kinds of scheme (broadcastNextPartial sends upon.Signature also when the scheme is
// unchained; the aggregator keys its cache by (round, previous signature)).
func (s *hSUT) prevOf(round uint64) []byte {
	return s.sig(round - 1)
}

// sig returns the unique valid group signature of round r on the one valid chain (the harness dealt the
// shares, so it can recover it from thr partials).
func (s *hSUT) sig(r uint64) []byte {
	if len(s.keys.truth) > len(s.truth) {
		s.truth = s.keys.truth
	}
	defer func() { s.keys.truth = s.truth }()
	for uint64(len(s.truth)) <= r {
		round := uint64(len(s.truth))
		msg := s.digest(round, s.prevOfTruth(round))
		var parts [][]byte
		for i := 0; i < s.thr; i++ {
			p, err := s.sch.ThresholdScheme.Sign(s.keys.shares[i].PrivateShare(), msg)
			if err != nil {
				panic(err)
			}
			parts = append(parts, p)
		}
		full, err := s.sch.ThresholdScheme.Recover(s.keys.pub, msg, parts, s.thr, s.n)
		if err != nil {
			panic(err)
		}
		s.truth = append(s.truth, full)
	}
	return s.truth[r]
}

func (s *hSUT) prevOfTruth(round uint64) []byte {
	if !s.chained {
		return nil
	}
	return s.truth[round-1]
}

func (s *hSUT) head() uint64 {
	b, err := s.base.Last(context.Background())
	if err != nil {
		return 0
	}
	return b.Round
}

func (s *hSUT) openBase() {
	ctx := context.Background()
	if s.baseKind == "bolt" {
		if s.chained {
			ctx = chain.SetPreviousRequiredOnContext(ctx)
		}
		st, err := boltdb.NewBoltStore(ctx, quietLogger(), s.dir)
		if err != nil {
			panic(err)
		}
		s.base = st
	} else if s.base == nil {
		s.base = memdb.NewStore(4000)
	}
}

func (s *hSUT) newHandler() error {
	s.activity = 0
	s.logs = &logTap{activity: &s.activity, c: map[string]int64{}}
	s.client = &tapClient{clk: s.clk, activity: &s.activity}
	s.clk.activity = &s.activity
	s.gate = &gatedStore{Store: s.base, rel: make(chan struct{}), activity: &s.activity}
	s.seenEmit, s.seenSync, s.seenTick, s.seenApp = 0, 0, 0, 0
	lg := log.New(s.logs, log.DebugLevel, true)
	node := s.group.Find(s.keys.pairs[0].Public)
	conf := &beacon.Config{Public: node, Share: s.shares[0], Group: s.group, Clock: s.clk}
	ctx := context.Background()
	if s.chained {
		ctx = chain.SetPreviousRequiredOnContext(ctx)
	}
	h, err := beacon.NewHandler(ctx, s.client, s.gate, conf, lg, common.GetAppVersion())
	if err != nil {
		return err
	}
	s.h = h
	s.started = false
	return nil
}

func (s *hSUT) close() {
	if s.h != nil {
		if atomic.LoadInt32(&s.gate.blocked) == 1 {
			s.gate.rel <- struct{}{}
		}
		s.h.Stop(context.Background())
		s.h = nil
	}
	if s.base != nil && s.baseKind == "bolt" {
		s.base.Close()
	}
	if s.dir != "" {
		os.RemoveAll(s.dir)
	}
}

// pending reports whether the node's own log says that work is still in flight: a signed partial that has
// not reached its n-1 recipients yet, a partial handed to the aggregator that it has not
// looked at yet, a full round cache not yet aggregated, an aggregated beacon the run loop has not been
// told about yet, a launched catch-up goroutine that is not sleeping yet, a sleeper whose deadline passed.
func (s *hSUT) pending() bool {
	blocked := atomic.LoadInt32(&s.gate.blocked) == 1
	s.client.mu.Lock()
	got := int64(len(s.client.emits))
	s.client.mu.Unlock()
	s.logs.mu.Lock()
	c := s.logs.c
	p := got < c["own"]*int64(s.n-1) ||
		c["nv"] > c["ag"] || c["full"] > c["aggdone"] || c["launch"] > c["sleeping"] ||
		(s.started && !blocked && c["aggregated"] > c["notapp"]+c["appseen"]+c["chanfull"])
	s.logs.mu.Unlock()
	if p {
		return true
	}
	now := s.clk.Now()
	s.clk.mu.Lock()
	defer s.clk.mu.Unlock()
	for _, d := range s.clk.deadlines {
		if !d.After(now) {
			return true
		}
	}
	return false
}

// settle waits (bounded) until the node is quiescent.
//
// The engine runs with GOMAXPROCS=1 by default: the harness goroutine yields (runtime.Gosched) and every
// runnable goroutine of the node runs until it blocks before the harness runs again, so "nothing observable
// happened during several consecutive yields and the node's own log says nothing is in flight" means that all
// goroutines of the node are blocked — independent of how loaded the machine is. (With VERIF_HPROCS > 1 the
// node's goroutines run in parallel and a quiet window of wall time is used instead.)
func (s *hSUT) settle(due bool) {
	start := time.Now()
	last := atomic.LoadInt64(&s.activity)
	if s.procs == 1 {
		idle := 0
		for {
			runtime.Gosched()
			a := atomic.LoadInt64(&s.activity)
			if a != last {
				last, idle = a, 0
				continue
			}
			if time.Since(start) < s.maxWait && s.pending() {
				idle = 0
				time.Sleep(50 * time.Microsecond) // something is in a system call or being computed
				continue
			}
			idle++
			if idle >= 12 {
				if s.baseKind == "bolt" && idle < 14 {
					time.Sleep(300 * time.Microsecond)
					continue
				}
				return
			}
		}
	}
	lastChange := start
	sawAny := false
	for {
		time.Sleep(200 * time.Microsecond)
		now := time.Now()
		a := atomic.LoadInt64(&s.activity)
		if a != last {
			last, lastChange, sawAny = a, now, true
		}
		if now.Sub(start) < s.maxWait && s.pending() {
			lastChange = now
			continue
		}
		if due && !sawAny && now.Sub(start) < s.maxWait/2 {
			continue
		}
		if now.Sub(lastChange) >= s.quiet {
			return
		}
	}
}

func (s *hSUT) report(status string) string {
	// packets first, then the log: the log line of a tick precedes its packets, so every packet reported here has
	// its tick reported here or earlier
	s.client.mu.Lock()
	em := append([]emission{}, s.client.emits[s.seenEmit:]...)
	sy := append([]uint64{}, s.client.syncFrom[s.seenSync:]...)
	s.seenEmit, s.seenSync = len(s.client.emits), len(s.client.syncFrom)
	s.client.mu.Unlock()
	s.logs.mu.Lock()
	ticks := append([]string{}, s.logs.ticks[s.seenTick:]...)
	apps := append([]string{}, s.logs.appended[s.seenApp:]...)
	s.seenTick, s.seenApp = len(s.logs.ticks), len(s.logs.appended)
	past, fut := s.logs.c["past"], s.logs.c["future"]
	s.logs.mu.Unlock()
	// emissions: group by (round, stamp); k = packets / (n-1)
	type ek struct {
		r  uint64
		dt int64
	}
	cnt := map[ek]int{}
	for _, e := range em {
		cnt[ek{e.round, e.stamp - hGenesis}]++
	}
	var keys []ek
	for k := range cnt {
		keys = append(keys, k)
	}
	sort.Slice(keys, func(i, j int) bool {
		if keys[i].r != keys[j].r {
			return keys[i].r < keys[j].r
		}
		return keys[i].dt < keys[j].dt
	})
	var es []string
	for _, k := range keys {
		c := cnt[k]
		if c%(s.n-1) == 0 {
			es = append(es, fmt.Sprintf("%d@%d*%d", k.r, k.dt, c/(s.n-1)))
		} else {
			es = append(es, fmt.Sprintf("%d@%d*%d/%d", k.r, k.dt, c, s.n-1))
		}
	}
	fs := map[uint64]bool{}
	for _, f := range sy {
		fs[f] = true
	}
	var fl []int
	for f := range fs {
		fl = append(fl, int(f))
	}
	sort.Ints(fl)
	var ss []string
	for _, f := range fl {
		ss = append(ss, strconv.Itoa(f))
	}
	j := func(x []string) string {
		if len(x) == 0 {
			return "-"
		}
		return strings.Join(x, ",")
	}
	// every emitted partial is checked against the real verifier: own index, valid over (round, prev)
	bad := 0
	for _, e := range em {
		if err := s.sch.ThresholdScheme.VerifyPartial(s.curPub(), s.digest(e.round, e.prev), e.sig); err != nil {
			bad++
		}
	}
	return fmt.Sprintf("%s T=%s A=%s E=%s S=%s H=%d C=%d # pastlog=%d futurelog=%d badpartials=%d",
		status, j(ticks), j(apps), j(es), j(ss), s.head(), s.clk.Now().Unix()-hGenesis, past, fut, bad)
}

func (s *hSUT) curShares() []*key.Share {
	if s.newShares != nil && s.head()+1 >= s.reshareRound {
		return s.newShares
	}
	return s.shares
}

func (s *hSUT) curPub() *share.PubPoly {
	if s.newShares != nil && s.head()+1 >= s.reshareRound {
		return s.newPub
	}
	return s.pub
}

// roundSpec resolves "c+K" / "c-K" (relative to the round of the node's clock, 0 before genesis),
// "h+K" (relative to the stored head) or an absolute round.
func (s *hSUT) roundSpec(spec string) (uint64, bool) {
	if len(spec) > 1 && (spec[0] == 'c' || spec[0] == 'h') {
		k, err := strconv.Atoi(spec[1:])
		if err != nil {
			return 0, false
		}
		base := int64(s.head())
		if spec[0] == 'c' {
			now := s.clk.Now().Unix()
			base = 0
			if now >= hGenesis {
				base = (now-hGenesis)/int64(s.period/time.Second) + 1
			}
		}
		if base+int64(k) < 0 {
			return 0, false
		}
		return uint64(base + int64(k)), true
	}
	r, err := strconv.ParseUint(spec, 10, 64)
	return r, err == nil
}

func (s *hSUT) partial(signer int, round uint64, kind string) string {
	prev := s.prevOf(round)
	msg := s.digest(round, prev)
	var sigb []byte
	var err error
	switch kind {
	case "badidx":
		// a share with an index outside the group (dealt from the same polynomial)
		ps := s.keys.pri.Eval(s.n + 3)
		sigb, err = s.sch.ThresholdScheme.Sign(ps, msg)
	default:
		sigb, err = s.sch.ThresholdScheme.Sign(s.curShares()[signer].PrivateShare(), msg)
	}
	if err != nil {
		return "err:sign:" + err.Error()
	}
	if kind == "badsig" {
		// a validly encoded partial of the same signer over another message
		other := s.digest(round+1000003, prev)
		sigb, _ = s.sch.ThresholdScheme.Sign(s.curShares()[signer].PrivateShare(), other)
	}
	s.logs.mu.Lock()
	past0 := s.logs.c["past"]
	s.logs.mu.Unlock()
	pk := &proto.PartialBeaconPacket{Round: round, PreviousSignature: prev, PartialSig: sigb,
		Metadata: &proto.Metadata{BeaconID: common.GetCanonicalBeaconID(s.group.ID)}}
	_, perr := s.h.ProcessPartialBeacon(context.Background(), pk)
	if perr != nil {
		m := perr.Error()
		switch {
		case strings.HasPrefix(m, "invalid round:"):
			return "future"
		case strings.Contains(m, "invalid own index"):
			return "own"
		case strings.Contains(m, "not in the group file"):
			return "notingroup"
		case strings.Contains(m, "invalid index"):
			return "badindex"
		}
		return "invalid"
	}
	s.logs.mu.Lock()
	past1 := s.logs.c["past"]
	s.logs.mu.Unlock()
	if past1 > past0 {
		return "past"
	}
	return "accepted"
}

func handlerEngine(args []string, in *bufio.Scanner, out *bufio.Writer) {
	var s *hSUT
	quiet := 10 * time.Millisecond
	if v := os.Getenv("VERIF_SETTLE_MS"); v != "" {
		if x, err := strconv.Atoi(v); err == nil && x > 0 {
			quiet = time.Duration(x) * time.Millisecond
		}
	}
	maxWait := 3 * time.Second // bound on waiting for work the node's log says is in flight
	procs := 1
	if v := os.Getenv("VERIF_HPROCS"); v != "" {
		if x, err := strconv.Atoi(v); err == nil && x > 0 {
			procs = x
		}
	}
	runtime.GOMAXPROCS(procs)
	defer func() {
		if s != nil {
			s.close()
		}
	}()
	for in.Scan() {
		f := fields(in.Text())
		if len(f) == 0 {
			continue
		}
		opStart := time.Now()
		res := safely(func() string {
			if f[0] != "init" && (s == nil || (s.h == nil && f[0] != "restart")) {
				return "bad-op"
			}
			switch f[0] {
			case "init":
				if s != nil {
					s.close()
				}
				n, _ := strconv.Atoi(f[1])
				thr, _ := strconv.Atoi(f[2])
				per, _ := strconv.Atoi(f[3])
				cat, _ := strconv.Atoi(f[4])
				lead, _ := strconv.Atoi(f[6])
				s = &hSUT{n: n, thr: thr, period: time.Duration(per) * time.Second, catchup: time.Duration(cat) * time.Second,
					chained: f[5] == "chained", baseKind: f[7], quiet: quiet, maxWait: maxWait, procs: procs}
				name := crypto.UnchainedSchemeID
				if s.chained {
					name = crypto.DefaultSchemeID
				}
				s.sch = mustScheme(name)
				s.keys = getKeys(s.sch, n, thr)
				s.shares, s.pub = s.keys.shares, s.keys.pub
				var nodes []*key.Node
				for i, p := range s.keys.pairs {
					nodes = append(nodes, &key.Node{Identity: p.Public, Index: uint32(i)})
				}
				seed := sha256.Sum256([]byte("verif C04 genesis seed"))
				s.group = &key.Group{Threshold: thr, Period: s.period, Scheme: s.sch, ID: "default", CatchupPeriod: s.catchup,
					Nodes: nodes, GenesisTime: hGenesis, GenesisSeed: seed[:], PublicKey: &key.DistPublic{Coefficients: s.keys.commit}}
				if len(f) > 8 {
					tr, _ := strconv.ParseUint(f[8], 10, 64)
					s.group.TransitionTime = common.TimeOfRound(s.period, hGenesis, tr)
				}
				s.truth = [][]byte{seed[:]}
				s.clk = &obsClock{FakeClock: clock.NewFakeClockAt(time.Unix(hGenesis-int64(lead), 0))}
				if s.baseKind == "bolt" {
					s.dir = filepath.Join(tmpDir(), "multibeacon", "default", "db")
					if err := os.MkdirAll(s.dir, 0o755); err != nil {
						panic(err)
					}
				}
				s.openBase()
				if err := s.newHandler(); err != nil {
					return "err:" + err.Error()
				}
				s.settle(true)
				return s.report("ok")
			case "start":
				if err := s.h.Start(context.Background()); err != nil {
					s.settle(false)
					return s.report("genesis-passed")
				}
				s.started = true
				s.settle(true)
				return s.report("ok")
			case "catchup":
				s.h.Catchup(context.Background())
				s.started = true
				s.settle(true)
				return s.report("ok")
			case "transition":
				if s.group.TransitionTime == 0 {
					return "bad-op"
				}
				if err := s.h.Transition(context.Background(), s.group); err != nil {
					return "err:" + err.Error()
				}
				s.started = true
				s.settle(true)
				return s.report("ok")
			case "stop":
				if atomic.LoadInt32(&s.gate.blocked) == 1 {
					return "bad-op"
				}
				s.h.Stop(context.Background())
				s.settle(false)
				r := s.report("ok")
				s.h = nil
				return r
			case "restart":
				if s.h != nil {
					if atomic.LoadInt32(&s.gate.blocked) == 1 {
						return "bad-op"
					}
					s.h.Stop(context.Background())
					s.h = nil
				}
				if s.baseKind == "bolt" {
					s.base.Close()
					s.openBase()
				}
				// a restarted daemon loads the share it holds now
				s.shares, s.pub = s.curShares(), s.curPub()
				if s.newShares != nil && s.head()+1 >= s.reshareRound {
					s.newShares = nil
				}
				if err := s.newHandler(); err != nil {
					return "err:" + err.Error()
				}
				s.settle(true)
				return s.report("ok")
			case "adv":
				d, _ := strconv.Atoi(f[1])
				if d < 0 {
					return "bad-op"
				}
				from := s.clk.Now()
				s.clk.Advance(time.Duration(d) * time.Second)
				s.settle(s.clk.due(from, s.clk.Now()))
				return s.report("ok")
			case "put":
				k, _ := strconv.Atoi(f[1])
				st := "ok"
				for i := 0; i < k; i++ {
					r := s.head() + 1
					b := &common.Beacon{Round: r, Signature: s.sig(r), PreviousSig: s.prevOf(r)}
					if err := s.h.Store().Put(context.Background(), b); err != nil {
						st = "err:" + err.Error()
						break
					}
				}
				s.settle(false)
				return s.report(st)
			case "gate":
				if atomic.LoadInt32(&s.gate.blocked) == 1 {
					return "bad-op"
				}
				atomic.StoreInt32(&s.gate.armed, 1)
				return s.report("ok")
			case "release":
				if atomic.LoadInt32(&s.gate.blocked) == 1 {
					s.gate.rel <- struct{}{}
					s.settle(true)
					return s.report("ok")
				}
				atomic.StoreInt32(&s.gate.armed, 0)
				return s.report("idle")
			case "partial":
				signer, _ := strconv.Atoi(f[1])
				round, ok := s.roundSpec(f[2])
				if signer < 0 || signer >= s.n || !ok || round == 0 {
					return "bad-op"
				}
				st := s.partial(signer, round, f[3])
				s.settle(false)
				return s.report(fmt.Sprintf("%s:%d", st, round))
			case "agg":
				r := s.head() + 1
				var sts []string
				for i := 1; i <= s.thr && i < s.n; i++ {
					sts = append(sts, s.partial(i, r, "good"))
					s.settle(false) // the aggregator is asynchronous: let it finish before the next packet
				}
				return s.report(strings.Join(sts, "+"))
			case "reshare":
				round, _ := strconv.ParseUint(f[1], 10, 64)
				if s.reshareDone || round < 2 {
					return "bad-op"
				}
				_, ns, np, nc := dealShares(s.sch, s.n, s.thr, s.keys.pri.Secret())
				g2 := *s.group
				g2.PublicKey = &key.DistPublic{Coefficients: nc}
				g2.TransitionTime = common.TimeOfRound(s.period, hGenesis, round)
				s.newShares, s.newPub, s.reshareRound, s.reshareDone = ns, np, round, true
				s.h.TransitionNewGroup(context.Background(), ns[0], &g2)
				s.settle(false)
				return s.report("ok")
			case "settle":
				s.settle(true)
				return s.report("ok")
			}
			return "bad-op"
		})
		if strings.Contains(res, " # ") {
			res += fmt.Sprintf(" ms=%d", time.Since(opStart).Milliseconds())
		}
		fmt.Fprintln(out, res)
		out.Flush()
	}
}
