//go:build verif

//go:debug randseednop=0

package main

// Engine "sync" (C10): a real beacon.SyncManager over a real store stack, against scripted peers served by an
// in-memory net.ProtocolClient. The chain is signed by a real distributed key (kyber share + tbls); every packet
// kind is labelled with the answer of the real VerifyBeacon. Beacons cross the line protocol in symbolic form
// ([1,r] true signature of round r, [2,r] corrupted, [3,r] foreign key, [0,0] seed, [9,9] junk).

import (
	"bufio"
	"context"
	"encoding/hex"
	"errors"
	"fmt"
	"math/rand"
	"os"
	"runtime/pprof"
	"strconv"
	"strings"
	"sync"
	"sync/atomic"
	"time"

	clock "github.com/jonboulle/clockwork"
	"google.golang.org/grpc"

	"github.com/drand/drand/v2/common"
	public "github.com/drand/drand/v2/common/chain"
	"github.com/drand/drand/v2/common/log"
	"github.com/drand/drand/v2/crypto"
	"github.com/drand/drand/v2/internal/chain"
	"github.com/drand/drand/v2/internal/chain/beacon"
	"github.com/drand/drand/v2/internal/chain/boltdb"
	"github.com/drand/drand/v2/internal/net"
	"github.com/drand/drand/v2/protobuf/drand"
	"github.com/drand/kyber"
	"github.com/drand/kyber/share"
	"github.com/drand/kyber/util/random"
)

func init() { engines["sync"] = syncEngine }

const syncBeaconID = "verif"

// ---------------------------------------------------------------- the true chain

type truth struct {
	chained   bool
	sch       *crypto.Scheme
	pub       kyber.Point
	seed      []byte
	sigs      [][]byte // sigs[0] = seed, sigs[r] = group signature of round r
	other     [][]byte // signatures on the same messages by a foreign key
	junk      []byte
	toSym     map[string][]byte
	labelMemo map[int]string
}

func thresholdSign(sch *crypto.Scheme, pub *share.PubPoly, shares []*share.PriShare, thr, n int, msg []byte) []byte {
	var parts [][]byte
	for i := 0; i < thr; i++ {
		p, err := sch.ThresholdScheme.Sign(shares[i], msg)
		if err != nil {
			panic(err)
		}
		parts = append(parts, p)
	}
	sig, err := sch.ThresholdScheme.Recover(pub, msg, parts, thr, n)
	if err != nil {
		panic(err)
	}
	return sig
}

func newTruth(chained bool, n int) *truth {
	name := crypto.UnchainedSchemeID
	if chained {
		name = crypto.DefaultSchemeID
	}
	sch := mustScheme(name)
	const thr, nodes = 2, 3
	mk := func() (*share.PubPoly, []*share.PriShare) {
		pri := share.NewPriPoly(sch.KeyGroup, thr, sch.KeyGroup.Scalar().Pick(random.New()), random.New())
		return pri.Commit(sch.KeyGroup.Point().Base()), pri.Shares(nodes)
	}
	pub, shares := mk()
	opub, oshares := mk()
	t := &truth{chained: chained, sch: sch, pub: pub.Commit(), seed: []byte("verif-genesis-seed-0123456789abc"), toSym: map[string][]byte{}}
	t.junk = []byte("junk-junk-junk-junk-junk-junk-jk")
	t.sigs = append(t.sigs, t.seed)
	t.other = append(t.other, nil)
	for r := 1; r <= n; r++ {
		b := &common.Beacon{Round: uint64(r)}
		if chained {
			b.PreviousSig = t.sigs[r-1]
		}
		msg := sch.DigestBeacon(b)
		t.sigs = append(t.sigs, thresholdSign(sch, pub, shares, thr, nodes, msg))
		t.other = append(t.other, thresholdSign(sch, opub, oshares, thr, nodes, msg))
	}
	for r := 0; r <= n; r++ {
		for tag := byte(0); tag <= 4; tag++ {
			s := []byte{tag, byte(r)}
			if real := t.real(s); real != nil {
				t.toSym[string(real)] = s
			}
		}
	}
	t.toSym[string(t.junk)] = []byte{9, 9}
	return t
}

func flipped(b []byte) []byte {
	o := append([]byte{}, b...)
	o[len(o)/2] ^= 0x01
	return o
}

// real maps a symbolic byte string to the real bytes (nil when there are none).
func (t *truth) real(s []byte) []byte {
	if len(s) == 0 {
		return nil
	}
	if len(s) == 2 {
		r := int(s[1])
		switch {
		case s[0] == 0 && r == 0:
			return t.seed
		case s[0] == 9 && r == 9:
			return t.junk
		case r >= 1 && r < len(t.sigs) && s[0] == 1:
			return t.sigs[r]
		case r >= 1 && r < len(t.sigs) && s[0] == 2:
			return flipped(t.sigs[r])
		case r >= 1 && r < len(t.sigs) && s[0] == 3:
			return t.other[r]
		case r >= 1 && r < len(t.sigs) && s[0] == 4: // the torn record of round r: the first half of its signature
			return t.sigs[r][:len(t.sigs[r])/2]
		}
		if s[0] <= 4 {
			return nil
		}
	}
	return append([]byte{0xee}, s...) // unknown symbol: some bytes that are no signature
}

func (t *truth) sym(b []byte) string {
	if len(b) == 0 {
		return "-"
	}
	if s, ok := t.toSym[string(b)]; ok {
		return hex.EncodeToString(s)
	}
	if b[0] == 0xee {
		return hex.EncodeToString(b[1:])
	}
	return "ff" + hex.EncodeToString(b[:4])
}

func (t *truth) truePrev(r uint64) []byte {
	if !t.chained {
		return nil
	}
	if r <= 1 {
		return t.seed
	}
	if int(r-1) < len(t.sigs) {
		return t.sigs[r-1]
	}
	return []byte("no-such-round")
}

func (t *truth) sig(tag byte, r uint64) []byte {
	if r >= 1 && int(r) < len(t.sigs) {
		return t.real([]byte{tag, byte(r)})
	}
	return []byte("no-such-round")
}

// packet builds the packet of a script kind at round r; ok=false for an unknown kind.
func (t *truth) packet(kind byte, r uint64) (*drand.BeaconPacket, bool) {
	p := &drand.BeaconPacket{Round: r, PreviousSignature: t.truePrev(r), Signature: t.sig(1, r),
		Metadata: &drand.Metadata{BeaconID: syncBeaconID}}
	switch kind {
	case 't':
	case 'n':
		p.Metadata = nil
	case 'f':
		p.Metadata = &drand.Metadata{BeaconID: "foreign"}
	case 's':
		p.Signature = t.sig(2, r)
	case 'o':
		p.Signature = t.sig(3, r)
	case 'w':
		p.Signature = t.sig(1, r+1)
	case 'p':
		p.PreviousSignature = t.junk
	case 'e':
		p.Signature = nil
	default:
		return nil, false
	}
	return p, true
}

func (t *truth) verify(b *common.Beacon) (ok bool) {
	defer func() {
		if recover() != nil {
			ok = false
		}
	}()
	return t.sch.VerifyBeacon(b, t.pub) == nil
}

// labels evaluates the real verifier on every packet kind at every round 1..n; the answer must not depend on the round.
func (t *truth) labels(n int) string {
	if t.labelMemo == nil {
		t.labelMemo = map[int]string{}
	}
	if l, ok := t.labelMemo[n]; ok {
		return l
	}
	l := t.labelsUncached(n)
	t.labelMemo[n] = l
	return l
}

func (t *truth) labelsUncached(n int) string {
	var out []string
	for _, k := range []byte{'t', 'p', 'w', 's', 'o', 'e'} {
		val := -1
		for r := 1; r <= n; r++ {
			p, _ := t.packet(k, uint64(r))
			forms := []*common.Beacon{{Round: p.Round, Signature: p.Signature, PreviousSig: p.PreviousSignature}}
			if k == 'p' { // other wrong previous signatures: a corrupted copy, another round's signature, none
				forms = append(forms, &common.Beacon{Round: p.Round, Signature: p.Signature, PreviousSig: flipped(t.sigs[r])})
				if t.chained {
					forms = append(forms, &common.Beacon{Round: p.Round, Signature: p.Signature, PreviousSig: t.sigs[r]})
					forms = append(forms, &common.Beacon{Round: p.Round, Signature: p.Signature})
				}
			}
			for _, f := range forms {
				v := 0
				if t.verify(f) {
					v = 1
				}
				if val == -1 {
					val = v
				} else if val != v {
					return "nonuniform:" + string(k)
				}
			}
		}
		out = append(out, fmt.Sprintf("%c=%d", k-32, val))
	}
	g := 0
	if t.verify(&common.Beacon{Round: 0, Signature: t.seed}) {
		g = 1
	}
	out = append(out, fmt.Sprintf("G=%d", g))
	return strings.Join(out, " ")
}

// ---------------------------------------------------------------- recording base store

type recStore struct {
	chain.Store
	mu     sync.Mutex
	writes []*common.Beacon
	n      atomic.Int64 // successful Puts so far
}

func (r *recStore) Put(ctx context.Context, b *common.Beacon) error {
	err := r.Store.Put(ctx, b)
	if err == nil {
		r.mu.Lock()
		r.writes = append(r.writes, &common.Beacon{Round: b.Round, Signature: append([]byte{}, b.Signature...), PreviousSig: append([]byte{}, b.PreviousSig...)})
		r.mu.Unlock()
		r.n.Add(1)
	}
	return err
}

func (r *recStore) take() []*common.Beacon {
	r.mu.Lock()
	defer r.mu.Unlock()
	w := r.writes
	r.writes = nil
	return w
}

// ---------------------------------------------------------------- scripted peers

type scriptItem struct {
	pkt   *drand.BeaconPacket
	stall bool
	close bool
}

// resolveScript turns "t+0,s+1,h12,stall" into stream items for a request starting at from.
func (t *truth) resolveScript(script string, from uint64) []scriptItem {
	var items []scriptItem
	for _, tok := range strings.Split(script, ",") {
		if tok == "" {
			continue
		}
		switch {
		case tok == "stall":
			items = append(items, scriptItem{stall: true})
		case tok == "close":
			items = append(items, scriptItem{close: true})
		case tok == "g":
			items = append(items, scriptItem{pkt: &drand.BeaconPacket{Round: 0, Signature: t.seed, Metadata: &drand.Metadata{BeaconID: syncBeaconID}}})
		case tok[0] == 'h':
			h, err := strconv.ParseUint(tok[1:], 10, 64)
			if err != nil {
				items = append(items, scriptItem{close: true})
				continue
			}
			if h < from { // SyncChain on the serving side returns ErrNoBeaconStored: the stream ends
				items = append(items, scriptItem{close: true})
				continue
			}
			for r := from; r <= h; r++ {
				p, _ := t.packet('t', r)
				items = append(items, scriptItem{pkt: p})
			}
		case tok[0] == 'k': // k<H>: the stream starts one round late (rounds from+1 .. H): the peer holds no record of round `from`
			h, err := strconv.ParseUint(tok[1:], 10, 64)
			if err != nil || h < from+1 {
				items = append(items, scriptItem{close: true})
				continue
			}
			for r := from + 1; r <= h; r++ {
				p, _ := t.packet('t', r)
				items = append(items, scriptItem{pkt: p})
			}
		case len(tok) >= 3 && (tok[1] == '+' || tok[1] == '@'):
			v, err := strconv.ParseUint(tok[2:], 10, 64)
			if err != nil {
				items = append(items, scriptItem{close: true})
				continue
			}
			r := v
			if tok[1] == '+' {
				r = from + v
			}
			p, ok := t.packet(tok[0], r)
			if !ok {
				items = append(items, scriptItem{close: true})
				continue
			}
			items = append(items, scriptItem{pkt: p})
		default:
			items = append(items, scriptItem{close: true})
		}
	}
	return items
}

type mockClient struct {
	t       *truth
	mu      sync.Mutex
	scripts map[string][]string // addr -> script per attempt
	nCalls  map[string]int      // "addr@from" -> calls so far in this op
	calls   []string
	upTo    uint64
	upToReq bool               // the target of each inner Sync is the FromRound of its request (CorrectPastBeacons)
	runMode bool               // Run owns the context: a stall just waits
	stalled atomic.Int64       // streams that reached their stall with everything sent dealt with
	active  atomic.Int64       // streams opened and neither finished nor parked in their stall
	nOpen   atomic.Int64       // SyncChain calls so far
	parked  atomic.Int64       // streams currently parked in their stall
	gen     atomic.Int64       // bumped by reset: streams of earlier ops no longer count as parked
	stored  *atomic.Int64      // successful base-store Puts of the node under test
	cancel  context.CancelFunc // cancels the context of the running Sync (what Run does to a stuck sync)
	wg      sync.WaitGroup
}

func (m *mockClient) reset(scripts map[string][]string, upTo uint64, cancel context.CancelFunc) {
	m.mu.Lock()
	defer m.mu.Unlock()

	m.scripts, m.nCalls, m.calls, m.upTo, m.cancel, m.upToReq = scripts, map[string]int{}, nil, upTo, cancel, false
}

func (m *mockClient) SyncChain(ctx context.Context, p net.Peer, in *drand.SyncRequest, _ ...net.CallOption) (chan *drand.BeaconPacket, error) {
	m.mu.Lock()
	addr := p.Address()
	from := in.GetFromRound()
	key := fmt.Sprintf("%s@%d", addr, from)
	m.calls = append(m.calls, key)
	k := m.nCalls[key]
	m.nCalls[key] = k + 1
	ss := m.scripts[addr]
	upTo, cancel := m.upTo, m.cancel
	if m.upToReq {
		upTo = from
	}
	m.mu.Unlock()
	if in.GetMetadata().GetBeaconID() != syncBeaconID {
		return nil, errors.New("verif: request for a foreign beacon id")
	}
	script := "close"
	if len(ss) > 0 {
		if k < len(ss) {
			script = ss[k]
		} else {
			script = ss[len(ss)-1]
		}
	}
	// a waiter that sees nOpen move must already see this stream as active and not parked
	m.parked.Store(0)
	m.active.Add(1)
	myGen := m.nOpen.Add(1) // the id of this stream; only the latest stream counts as "parked"
	if script == "err" {
		m.active.Add(-1)
		return nil, errors.New("verif: scripted dial error")
	}
	items := m.t.resolveScript(script, from)
	ch := make(chan *drand.BeaconPacket) // unbuffered: a send completes when tryNode is in its select
	start := m.stored.Load()
	m.wg.Add(1)
	go func() {
		defer m.wg.Done()
		defer close(ch)
		parked := false
		defer func() {
			if !parked {
				m.active.Add(-1)
			}
		}()
		sent := int64(0)
		var lastSent *drand.BeaconPacket
		for _, it := range items {
			switch {
			case it.close:
				return
			case it.stall:
				// nothing more arrives. Once tryNode has dealt with everything sent, cancel the sync (Run does this
				// after factor*period without progress). Every packet sent was either stored (one base-store Put
				// each, made synchronously by tryNode) or refused (then tryNode has returned and ctx is done); if
				// the last one reached the target tryNode returns true and nothing is cancelled.
				for {
					if ctx.Err() != nil {
						return
					}
					if m.stored.Load()-start >= sent && !(lastSent != nil && lastSent.Round == upTo) {
						if m.runMode {
							m.stalled.Add(1)
							parked = true
							m.active.Add(-1)
							if m.nOpen.Load() == myGen {
								m.parked.Store(1)
							}
							<-ctx.Done()
							if m.nOpen.Load() == myGen {
								m.parked.Store(0)
							}
							return
						}
						cancel()
						<-ctx.Done()
						return
					}
					time.Sleep(50 * time.Microsecond)
				}
			default:
				select {
				case ch <- it.pkt:
					sent++
					lastSent = it.pkt
				case <-ctx.Done():
					return
				}
			}
		}
	}()
	return ch, nil
}

func (m *mockClient) GetIdentity(context.Context, net.Peer, *drand.IdentityRequest, ...net.CallOption) (*drand.IdentityResponse, error) {
	return nil, errors.New("not scripted")
}
func (m *mockClient) PartialBeacon(context.Context, net.Peer, *drand.PartialBeaconPacket, ...net.CallOption) error {
	return errors.New("not scripted")
}
func (m *mockClient) Status(context.Context, net.Peer, *drand.StatusRequest, ...grpc.CallOption) (*drand.StatusResponse, error) {
	return nil, errors.New("not scripted")
}
func (m *mockClient) Check(context.Context, net.Peer) error { return nil }

// ---------------------------------------------------------------- the node under test

type syncSUT struct {
	t       *truth
	chained bool
	follow  bool
	backend string
	dir     string
	ctx     context.Context
	raw     chain.Store
	base    *recStore
	top     chain.Store
	sm      *beacon.SyncManager
	cl      *mockClient
	drained atomic.Int64
	stop    context.CancelFunc
}

func (s *syncSUT) close() {
	if s.stop != nil {
		s.stop()
	}
	if s.sm != nil {
		s.sm.Stop()
	}
	if s.raw != nil {
		s.raw.Close()
	}
	if s.dir != "" {
		os.RemoveAll(s.dir)
	}
}

var truthCache = map[string]*truth{}

func newSyncSUT(chained, follow bool, backend string, n, head int) *syncSUT {
	return newSyncSUTWith(chained, follow, backend, n, head, nil, nil)
}

func newSyncSUTWith(chained, follow bool, backend string, n, head int, clk clock.Clock, lg log.Logger) *syncSUT {
	key := fmt.Sprintf("%v/%d", chained, n)
	t := truthCache[key]
	if t == nil {
		t = newTruth(chained, n)
		truthCache[key] = t
	}
	s := &syncSUT{t: t, chained: chained, follow: follow, backend: backend, dir: tmpDir()}
	ctx := context.Background()
	// createDBStore: previous signatures are required iff the node has a group whose scheme is the chained one;
	// a follower that has no group yet opens the store without
	if chained && !follow {
		ctx = chain.SetPreviousRequiredOnContext(ctx)
	}
	s.ctx = ctx
	octx := ctx
	if backend == "bolt" {
		octx = boltdb.IsATest(ctx)
	}
	st, err := boltdb.NewBoltStore(octx, quietLogger(), s.dir)
	if err != nil {
		panic(err)
	}
	s.raw = st
	s.base = &recStore{Store: st}
	if err := s.base.Put(ctx, chain.GenesisBeacon(t.seed)); err != nil {
		panic(err)
	}
	for r := 1; r <= head; r++ {
		if err := s.base.Put(ctx, &common.Beacon{Round: uint64(r), Signature: t.sigs[r], PreviousSig: t.truePrev(uint64(r))}); err != nil {
			panic(err)
		}
	}
	s.base.take()
	ss, err := beacon.NewSchemeStore(ctx, s.base, t.sch)
	if err != nil {
		panic(err)
	}
	var under chain.Store = ss
	if !follow { // newChainStore: callback(append(scheme(base))); StartFollowChain: callback(scheme(base))
		as, err := beacon.VerifNewAppendStore(ctx, ss)
		if err != nil {
			panic(err)
		}
		under = as
	}
	cbs := beacon.NewCallbackStore(quietLogger(), under)
	s.top = cbs
	s.cl = &mockClient{t: t, stored: &s.base.n}
	period := time.Second
	runMode := clk != nil
	if runMode {
		period = runPeriod * time.Second
		s.cl.runMode = true
	} else {
		clk, lg = clock.NewRealClock(), quietLogger()
	}
	info := &public.Info{PublicKey: t.pub, ID: syncBeaconID, Period: period, Scheme: t.sch.Name,
		GenesisTime: time.Now().Unix() - 1_000_000, GenesisSeed: t.seed}
	mctx, stop := context.WithCancel(context.Background())
	s.stop = stop
	sm, err := beacon.NewSyncManager(mctx, &beacon.SyncConfig{Log: lg, Client: s.cl, Clock: clk,
		Store: cbs, BoltdbStore: s.base, Info: info, NodeAddr: "self"})
	if err != nil {
		panic(err)
	}
	s.sm = sm
	if runMode {
		go sm.Run() // Run drains newSyncedBeacon itself
		return s
	}
	// Run (not started here) is what drains newSyncedBeacon in the daemon
	go func() {
		ch := sm.VerifSyncedChan()
		for {
			select {
			case <-ch:
				s.drained.Add(1)
			case <-mctx.Done():
				return
			}
		}
	}()
	return s
}

// parsePeers: "addr=script[/retryscript]" tokens
func parsePeers(toks []string) (addrs []string, scripts map[string][]string) {
	scripts = map[string][]string{}
	for _, t := range toks {
		i := strings.IndexByte(t, '=')
		if i < 0 {
			continue
		}
		addrs = append(addrs, t[:i])
		scripts[t[:i]] = strings.Split(t[i+1:], "/")
	}
	return
}

func parsePermTok(tok string) []int {
	var out []int
	for _, f := range strings.Split(tok, ".") {
		v, err := strconv.Atoi(f)
		if err == nil {
			out = append(out, v)
		}
	}
	return out
}

func permEq(a, b []int) bool {
	if len(a) != len(b) {
		return false
	}
	for i := range a {
		if a[i] != b[i] {
			return false
		}
	}
	return true
}

// seedFor finds a math/rand seed for which the next len(perms) calls of rand.Perm(n) yield exactly perms.
func seedFor(n int, perms [][]int) (int64, bool) {
	for k := int64(1); k < 4_000_000; k++ {
		rand.Seed(k)
		ok := true
		for _, p := range perms {
			if !permEq(rand.Perm(n), p) {
				ok = false
				break
			}
		}
		if ok {
			return k, true
		}
	}
	return 0, false
}

var seedMemo = map[string]int64{}

func setPerms(n int, perms [][]int) bool {
	key := fmt.Sprint(n, perms)
	k, ok := seedMemo[key]
	if !ok {
		k, ok = seedFor(n, perms)
		if !ok {
			return false
		}
		seedMemo[key] = k
	}
	rand.Seed(k)
	return true
}

func (s *syncSUT) showWrites() string {
	var out []string
	for _, b := range s.base.take() {
		out = append(out, fmt.Sprintf("%d:%s:%s", b.Round, s.t.sym(b.Signature), s.t.sym(b.PreviousSig)))
	}
	if len(out) == 0 {
		return "-"
	}
	return strings.Join(out, ",")
}

func (s *syncSUT) report(res string, dead bool) string {
	s.cl.wg.Wait()
	s.cl.mu.Lock()
	calls := "-"
	if len(s.cl.calls) > 0 {
		calls = strings.Join(s.cl.calls, ",")
	}
	s.cl.mu.Unlock()
	head := "err"
	if l, err := s.top.Last(s.ctx); err == nil {
		head = strconv.FormatUint(l.Round, 10)
	}
	d := 0
	if dead {
		d = 1
	}
	return fmt.Sprintf("%s dead=%d calls=%s w=%s head=%s", res, d, calls, s.showWrites(), head)
}

func classifySync(err error) string {
	switch {
	case err == nil:
		return "ok"
	case errors.Is(err, beacon.ErrFailedAll):
		return "failed-all"
	case strings.Contains(err.Error(), "ctx done: sync canceled"):
		return "cancelled"
	case strings.Contains(err.Error(), "invalid re-sync"):
		return "invalid"
	case errors.Is(err, context.Canceled):
		return "cancelled"
	}
	return "err:" + err.Error()
}

func peersOf(addrs []string) []net.Peer {
	var ps []net.Peer
	for _, a := range addrs {
		ps = append(ps, net.CreatePeer(a))
	}
	return ps
}

func parseU(s string) uint64 {
	v, err := strconv.ParseUint(s, 10, 64)
	if err != nil {
		panic("bad number " + s)
	}
	return v
}

func symBytes(s string) []byte {
	if s == "-" {
		return nil
	}
	b, err := hex.DecodeString(s)
	if err != nil {
		panic("bad hex " + s)
	}
	return b
}

const runPeriod = 3

var (
	runLog    *logBuf
	runClock  *clock.FakeClock
	runStarts int
	runMark   int
	runBase   int
)

// logBuf captures the JSON log lines of the sync manager (zapcore.WriteSyncer).
type logBuf struct {
	mu    sync.Mutex
	lines []string
}

func (b *logBuf) Write(p []byte) (int, error) {
	b.mu.Lock()
	for _, l := range strings.Split(strings.TrimRight(string(p), "\n"), "\n") {
		b.lines = append(b.lines, l)
	}
	b.mu.Unlock()
	return len(p), nil
}
func (b *logBuf) Sync() error { return nil }
func (b *logBuf) len() int {
	b.mu.Lock()
	defer b.mu.Unlock()
	return len(b.lines)
}
func (b *logBuf) slice(i, j int) []string {
	b.mu.Lock()
	defer b.mu.Unlock()
	return append([]string{}, b.lines[i:j]...)
}
func (b *logBuf) waitFor(from int, pred func(string) bool, d time.Duration) int {
	deadline := time.Now().Add(d)
	for time.Now().Before(deadline) {
		b.mu.Lock()
		for i := from; i < len(b.lines); i++ {
			if pred(b.lines[i]) {
				b.mu.Unlock()
				return i
			}
		}
		b.mu.Unlock()
		time.Sleep(200 * time.Microsecond)
	}
	return -1
}
func (b *logBuf) count(pred func(string) bool) int {
	c := 0
	b.mu.Lock()
	for _, l := range b.lines {
		if pred(l) {
			c++
		}
	}
	b.mu.Unlock()
	return c
}
func (b *logBuf) waitCount(pred func(string) bool, n int, d time.Duration) bool {
	deadline := time.Now().Add(d)
	for time.Now().Before(deadline) {
		c := 0
		b.mu.Lock()
		for _, l := range b.lines {
			if pred(l) {
				c++
			}
		}
		b.mu.Unlock()
		if c >= n {
			return true
		}
		time.Sleep(200 * time.Microsecond)
	}
	return false
}

func runEndedPred(l string) bool {
	return strings.Contains(l, "sync was unsuccessful") || strings.Contains(l, "sync completed successfully")
}

// runRequest hands one request to the running `Run` (followed by a sentinel request that is always "already filled") and
// reports what Run decided for it: filled | start | ignore | hang. After "start" the new Sync has made its first move.
func runRequest(s *syncSUT, upTo uint64, peers []net.Peer) string {
	mark := runLog.len()
	opened := s.cl.nOpen.Load()
	s.sm.SendSyncRequest(context.Background(), upTo, peers)
	s.sm.SendSyncRequest(context.Background(), 1, nil) // sentinel: always "already filled", changes nothing
	idx := runLog.waitFor(mark, func(l string) bool {
		return strings.Contains(l, "skipping_request") && (strings.Contains(l, `"request":1}`) || strings.Contains(l, `"request":1,`))
	}, 10*time.Second)
	if idx < 0 {
		return "hang"
	}
	dec := "ignore"
	for _, l := range runLog.slice(mark, idx) {
		if strings.Contains(l, "skipping_request") {
			dec = "filled"
		}
		if strings.Contains(l, "canceling old sync as it took long") {
			dec = "start"
		}
	}
	if dec == "start" {
		runStarts++
		// the new Sync goroutine has asked its first peer (or has returned without asking anybody)
		dl := time.Now().Add(10 * time.Second)
		for time.Now().Before(dl) {
			if s.cl.nOpen.Load() != opened || runLog.count(runEndedPred) >= runStarts {
				break
			}
			time.Sleep(100 * time.Microsecond)
		}
		if s.cl.nOpen.Load() == opened && runLog.count(runEndedPred) < runStarts {
			return "hang-start"
		}
	}
	return dec
}

// runSettle waits until the node is quiescent: every opened stream ended or is parked in its stall, Run consumed the beacons
// reported, and every sync Run started has either logged its end or is the one parked.
func runSettle(s *syncSUT, d time.Duration) (ended int, ok bool) {
	deadline := time.Now().Add(d)
	for time.Now().Before(deadline) {
		ended = runLog.count(runEndedPred)
		if s.cl.active.Load() == 0 && len(s.sm.VerifSyncedChan()) == 0 &&
			(ended == runStarts || (ended == runStarts-1 && s.cl.parked.Load() >= 1)) {
			// Run has RECEIVED every beacon reported, but may not have executed `lastRoundTime = s.clock.Now()` yet: were the
			// fake clock advanced now, that beacon would be stamped with the later time (an artefact of a jumping clock).
			// Run is one goroutine: once it has answered a sentinel request sent now, the beacon arm is behind it.
			if !runBarrier(s, time.Until(deadline)) {
				return ended, false
			}
			return ended, true
		}
		time.Sleep(200 * time.Microsecond)
	}
	return ended, false
}

// runBarrier returns once Run has gone through its loop after everything it had received before the call.
func runBarrier(s *syncSUT, d time.Duration) bool {
	mark := runLog.len()
	s.sm.SendSyncRequest(context.Background(), 1, nil) // always "already filled", changes nothing
	return runLog.waitFor(mark, func(l string) bool {
		return strings.Contains(l, "skipping_request") && (strings.Contains(l, `"request":1}`) || strings.Contains(l, `"request":1,`))
	}, d) >= 0
}

func syncEngine(args []string, in *bufio.Scanner, out *bufio.Writer) {
	if pf := os.Getenv("VERIF_PROF"); pf != "" {
		if f, err := os.Create(pf); err == nil {
			pprof.StartCPUProfile(f)
			defer pprof.StopCPUProfile()
		}
	}
	var s *syncSUT
	defer func() {
		if s != nil {
			s.close()
		}
	}()
	for in.Scan() {
		f := fields(in.Text())
		if len(f) == 0 {
			continue
		}
		res := safely(func() string {
			switch f[0] {
			case "init": // init <chained> <part|follow> <backend> <N> <head>
				if s != nil {
					s.close()
					s = nil
				}
				n, _ := strconv.Atoi(f[4])
				head, _ := strconv.Atoi(f[5])
				s = newSyncSUT(f[1] == "1", f[2] == "follow", f[3], n+10, head)
				return "ok " + s.t.labels(n)
			case "sync": // sync <upTo> <perm> peers…
				upTo := parseU(f[1])
				addrs, scripts := parsePeers(f[3:])
				ctx, cancel := context.WithCancel(context.Background())
				defer cancel()
				s.cl.reset(scripts, upTo, cancel)
				if !setPerms(len(addrs), [][]int{parsePermTok(f[2])}) {
					return "no-seed"
				}
				err := s.sm.Sync(ctx, beacon.NewRequestInfo(ctx, upTo, peersOf(addrs)))
				return s.report(classifySync(err), ctx.Err() != nil)
			case "resync": // resync <from> <to> <perm1> <perm2> peers…
				from, to := parseU(f[1]), parseU(f[2])
				addrs, scripts := parsePeers(f[5:])
				ctx, cancel := context.WithCancel(context.Background())
				defer cancel()
				s.cl.reset(scripts, to, cancel)
				if !setPerms(len(addrs), [][]int{parsePermTok(f[3]), parsePermTok(f[4])}) {
					return "no-seed"
				}
				err := s.sm.ReSync(ctx, from, to, peersOf(addrs))
				return s.report(classifySync(err), ctx.Err() != nil)
			case "correct": // correct <fb> <perm> peers…   (every Sync inside uses the same order)
				var fb []uint64
				if f[1] != "-" {
					for _, x := range strings.Split(f[1], ".") {
						fb = append(fb, parseU(x))
					}
				}
				addrs, scripts := parsePeers(f[3:])
				ctx, cancel := context.WithCancel(context.Background())
				defer cancel()
				// upTo of each inner Sync is the faulty round itself; the mock learns it from the request
				s.cl.reset(scripts, 0, cancel)
				s.cl.upToReq = true
				var perms [][]int
				for i := 0; i < 2*len(fb); i++ {
					perms = append(perms, parsePermTok(f[2]))
				}
				if !setPerms(len(addrs), perms) {
					return "no-seed"
				}
				err := s.sm.CorrectPastBeacons(ctx, fb, peersOf(addrs), func(r, u uint64) {})
				res := classifySync(err)
				if err != nil && strings.Contains(err.Error(), "error while correcting past beacons") {
					m := err.Error()
					k := strings.Count(m, "sync failed: tried all nodes") + strings.Count(m, "ctx done: sync canceled") - 1
					res = fmt.Sprintf("errors:%d", k)
				}
				return s.report(res, ctx.Err() != nil)
			case "runinit": // runinit <chained> <head>: the same node with `go Run()`, a fake clock and a captured log
				if s != nil {
					s.close()
					s = nil
				}
				head, _ := strconv.Atoi(f[2])
				runLog = &logBuf{}
				runClock = clock.NewFakeClockAt(time.Now())
				s = newSyncSUTWith(f[1] == "1", false, "trimmed", 34, head, runClock, log.New(runLog, log.DebugLevel, true))
				runStarts, runMark = 0, 0
				return fmt.Sprintf("ok factor=%d period=%d", beacon.VerifSyncExpiryFactor(), runPeriod)
			case "adv":
				sec, _ := strconv.Atoi(f[1])
				runClock.Advance(time.Duration(sec) * time.Second)
				return "ok"
			case "settle": // wait until the node is quiescent (runSettle)
				ended, ok := runSettle(s, 10*time.Second)
				if !ok {
					return "hang"
				}
				l, _ := s.top.Last(s.ctx)
				return fmt.Sprintf("ok stored=%d head=%d ended=%d", s.base.n.Load(), l.Round, ended)
			case "req": // req <upTo> <end|go> peers…
				upTo := parseU(f[1])
				addrs, scripts := parsePeers(f[3:])
				s.cl.reset(scripts, upTo, func() {})
				s.cl.runMode = true
				return runRequest(s, upTo, peersOf(addrs))
			case "renew": // renew <seed> <upTo> <R> peers…: the daemon re-issues the request (after runinit) every factor*period+1
				// seconds of the fake clock, at most R times, until the head is at the target. math/rand is seeded with <seed>
				// so that what rand.Perm answers inside Sync is reproducible. Answer: reached|exhausted n=<renewals made>
				// head=<h> syncs=<per renewal: the peers asked, in the order asked, a.b.c; renewals separated by |> w=<writes>
				seed := int64(parseU(f[1]))
				upTo := parseU(f[2])
				R, _ := strconv.Atoi(f[3])
				addrs, scripts := parsePeers(f[4:])
				s.cl.reset(scripts, upTo, func() {})
				s.cl.runMode = true
				rand.Seed(seed)
				s.base.take()
				gap := time.Duration(beacon.VerifSyncExpiryFactor()*runPeriod+1) * time.Second
				reached := func() bool {
					l, err := s.top.Last(s.ctx)
					return err == nil && upTo > 0 && l.Round >= upTo
				}
				var syncs []string
				for k := 0; k < R && !reached(); k++ {
					runClock.Advance(gap)
					s.cl.mu.Lock()
					before := len(s.cl.calls)
					s.cl.mu.Unlock()
					dec := runRequest(s, upTo, peersOf(addrs))
					if strings.HasPrefix(dec, "hang") {
						return dec
					}
					if _, ok := runSettle(s, 10*time.Second); !ok {
						return "hang-settle"
					}
					if dec != "start" {
						syncs = append(syncs, "!"+dec)
						continue
					}
					s.cl.mu.Lock()
					var asked []string
					for _, c := range s.cl.calls[before:] {
						asked = append(asked, c[:strings.LastIndexByte(c, '@')])
					}
					s.cl.mu.Unlock()
					if len(asked) == 0 {
						syncs = append(syncs, "-")
					} else {
						syncs = append(syncs, strings.Join(asked, "."))
					}
				}
				res := "exhausted"
				if reached() {
					res = "reached"
				}
				head := "err"
				if l, err := s.top.Last(s.ctx); err == nil {
					head = strconv.FormatUint(l.Round, 10)
				}
				sy := "-"
				if len(syncs) > 0 {
					sy = strings.Join(syncs, "|")
				}
				return fmt.Sprintf("%s n=%d head=%s syncs=%s w=%s", res, len(syncs), head, sy, s.showWrites())
			case "check":
				l, err := s.sm.CheckPastBeacons(s.ctx, parseU(f[1]), nil)
				if err != nil {
					return "err"
				}
				if len(l) == 0 {
					return "faulty=-"
				}
				var xs []string
				for _, r := range l {
					xs = append(xs, strconv.FormatUint(r, 10))
				}
				return "faulty=" + strings.Join(xs, ".")
			case "raw": // raw r sig prev (symbolic): straight into the base store, as a disk corruption would
				b := &common.Beacon{Round: parseU(f[1]), Signature: s.t.real(symBytes(f[2])), PreviousSig: s.t.real(symBytes(f[3]))}
				if err := s.raw.Put(s.ctx, b); err != nil {
					return "err:" + err.Error()
				}
				return "ok"
			case "tear": // tear r: only the first half of the record of round r reached the disk (raw bbolt write under its key)
				r := parseU(f[1])
				key := chain.RoundToBytes(r)
				v, err := boltdb.VerifRawGet(s.raw, key)
				if err != nil {
					return "err:" + err.Error()
				}
				if v == nil {
					return "none"
				}
				half := v[:len(v)/2]
				if boltdb.VerifIsTrimmed(s.raw) {
					// the value is the signature itself; keep the symbolic name of what is left of it
					half = s.t.real([]byte{4, byte(r)})
					if half == nil {
						return "none"
					}
				}
				if err := boltdb.VerifRawPut(s.raw, key, half); err != nil {
					return "err:" + err.Error()
				}
				return "ok"
			case "relabel": // relabel r j: the round written inside the (JSON) record of round r becomes j
				if boltdb.VerifIsTrimmed(s.raw) {
					return "unsupported"
				}
				key := chain.RoundToBytes(parseU(f[1]))
				v, err := boltdb.VerifRawGet(s.raw, key)
				if err != nil {
					return "err:" + err.Error()
				}
				b := &common.Beacon{}
				if v == nil || b.Unmarshal(v) != nil {
					return "none"
				}
				b.Round = parseU(f[2])
				nv, err := b.Marshal()
				if err != nil {
					return "err:" + err.Error()
				}
				if err := boltdb.VerifRawPut(s.raw, key, nv); err != nil {
					return "err:" + err.Error()
				}
				return "ok"
			case "del":
				if err := s.raw.Del(s.ctx, parseU(f[1])); err != nil {
					return "err:" + err.Error()
				}
				return "ok"
			case "scan":
				upTo := parseU(f[1])
				n, _ := s.raw.Len(s.ctx)
				var xs []string
				for r := uint64(0); r <= upTo; r++ {
					b, err := s.raw.Get(s.ctx, r)
					if err != nil {
						continue
					}
					lab := strconv.FormatUint(r, 10)
					if b.Round != r {
						lab += "=" + strconv.FormatUint(b.Round, 10)
					}
					xs = append(xs, fmt.Sprintf("%s:%s:%s", lab, s.t.sym(b.Signature), s.t.sym(b.PreviousSig)))
				}
				body := "-"
				if len(xs) > 0 {
					body = strings.Join(xs, ",")
				}
				return fmt.Sprintf("len=%d %s", n, body)
			}
			return "bad-op"
		})
		fmt.Fprintln(out, res)
	}
}
