//go:build verif

package main

// Engine `secrecy` (C15): runs a scripted life of REAL drand daemons in this process (key generation, DKG,
// beacon production, every control / public / protocol endpoint, HTTP, backup, reshare, restart + sync) with
//   * every gRPC connection (node↔node and harness→node, private and control ports) going through a
//     recording TCP proxy, de-framed afterwards (HTTP/2 + HPACK) into per-RPC request / response byte strings,
//   * one debug-level log sink per node plus the process-wide stdout,
//   * umask 0, so that the mode the code asks for is the mode the file gets,
// and prints everything that left a node (`OUT`), every file below each node's folder (`FILE`) and each node's
// secret scalars (`SECRET`). Nothing is judged here: scanning and the mode oracle are done by vlib/props/C15.py
// and by the Lean model's scanner.
//
// Usage: verifh secrecy <seed> <quick|thorough>      (generator style; stdin is ignored)

import (
	"bufio"
	"bytes"
	"context"
	"errors"
	"fmt"
	"io"
	"net"
	"net/http"
	"net/http/httputil"
	"os"
	"path"
	"path/filepath"
	"sort"
	"strconv"
	"strings"
	"sync"
	"syscall"
	"time"

	"github.com/BurntSushi/toml"
	"go.uber.org/zap/zapcore"
	"golang.org/x/net/http2"
	"golang.org/x/net/http2/hpack"
	"google.golang.org/grpc"
	"google.golang.org/grpc/credentials/insecure"
	"google.golang.org/protobuf/types/known/timestamppb"

	"github.com/drand/drand/v2/common"
	"github.com/drand/drand/v2/common/key"
	"github.com/drand/drand/v2/common/log"
	"github.com/drand/drand/v2/crypto"
	"github.com/drand/drand/v2/internal/chain"
	"github.com/drand/drand/v2/internal/core"
	"github.com/drand/drand/v2/internal/dkg"
	"github.com/drand/drand/v2/internal/util"
	pdkg "github.com/drand/drand/v2/protobuf/dkg"
	"github.com/drand/drand/v2/protobuf/drand"
	"github.com/drand/kyber"
	"github.com/drand/kyber/share"
	kdkg "github.com/drand/kyber/share/dkg"
)

func init() { engines["secrecy"] = secrecyEngine }

// ------------------------------------------------------------------------------------------------
// recording proxy

type tapConn struct {
	mu       sync.Mutex
	c2s, s2c bytes.Buffer
}

type tapProxy struct {
	name   string // "priv" / "ctl"
	owner  int
	ln     net.Listener
	target string
	mu     sync.Mutex
	conns  []*tapConn
	live   []net.Conn
}

func freeAddr() string {
	l, err := net.Listen("tcp", "127.0.0.1:0")
	if err != nil {
		panic(err)
	}
	defer l.Close()
	return l.Addr().String()
}

func startProxy(name string, owner int, listen, target string) *tapProxy {
	ln, err := net.Listen("tcp", listen)
	if err != nil {
		panic(err)
	}
	p := &tapProxy{name: name, owner: owner, ln: ln, target: target}
	go func() {
		for {
			c, err := ln.Accept()
			if err != nil {
				return
			}
			s, err := net.Dial("tcp", target)
			if err != nil {
				c.Close()
				continue
			}
			tc := &tapConn{}
			p.mu.Lock()
			p.conns = append(p.conns, tc)
			p.live = append(p.live, c, s)
			p.mu.Unlock()
			pipe := func(dst, src net.Conn, buf *bytes.Buffer) {
				b := make([]byte, 32*1024)
				for {
					n, err := src.Read(b)
					if n > 0 {
						tc.mu.Lock()
						buf.Write(b[:n])
						tc.mu.Unlock()
						if _, werr := dst.Write(b[:n]); werr != nil {
							break
						}
					}
					if err != nil {
						break
					}
				}
				dst.Close()
				src.Close()
			}
			go pipe(s, c, &tc.c2s)
			go pipe(c, s, &tc.s2c)
		}
	}()
	return p
}

func (p *tapProxy) stop() {
	p.ln.Close()
	p.mu.Lock()
	for _, c := range p.live {
		c.Close()
	}
	p.mu.Unlock()
}

const h2Preface = "PRI * HTTP/2.0\r\n\r\nSM\r\n\r\n"

type rpcBlob struct {
	path               string
	req, resp          []byte
	reqHdrs, respHdrs  []byte
	sawReq, sawRespHdr bool
}

// deframe parses one direction of an HTTP/2 connection; returns per-stream data and header text, and whether the
// whole byte string was consumed without a framing error.
func deframe(raw []byte, client bool, streams map[uint32]*rpcBlob) bool {
	if client {
		if !bytes.HasPrefix(raw, []byte(h2Preface)) {
			return len(raw) == 0
		}
		raw = raw[len(h2Preface):]
	}
	fr := http2.NewFramer(io.Discard, bytes.NewReader(raw))
	fr.SetMaxReadFrameSize(1 << 24)
	fr.ReadMetaHeaders = hpack.NewDecoder(65536, nil)
	fr.MaxHeaderListSize = 1 << 24
	for {
		f, err := fr.ReadFrame()
		if err != nil {
			return errors.Is(err, io.EOF)
		}
		id := f.Header().StreamID
		get := func() *rpcBlob {
			s, ok := streams[id]
			if !ok {
				s = &rpcBlob{}
				streams[id] = s
			}
			return s
		}
		switch x := f.(type) {
		case *http2.MetaHeadersFrame:
			s := get()
			var sb bytes.Buffer
			for _, hf := range x.Fields {
				sb.WriteString(hf.Name + ": " + hf.Value + "\n")
				if client && hf.Name == ":path" {
					s.path = hf.Value
				}
			}
			if client {
				s.reqHdrs = append(s.reqHdrs, sb.Bytes()...)
			} else {
				s.respHdrs = append(s.respHdrs, sb.Bytes()...)
			}
		case *http2.DataFrame:
			s := get()
			if client {
				s.req = append(s.req, x.Data()...)
			} else {
				s.resp = append(s.resp, x.Data()...)
			}
		}
	}
}

// ------------------------------------------------------------------------------------------------
// nodes

type snode struct {
	idx        int
	base       string
	priv       *key.Pair
	listenPriv string
	proxyPriv  string
	listenPub  string
	ctrlPort   string
	proxyCtrl  string
	pp, pc     *tapProxy
	daemon     *core.DrandDaemon
	logPath    string
	logFile    *os.File
	ctlConn    *grpc.ClientConn
	ctl        drand.ControlClient
	dkgc       pdkg.DKGControlClient
	privConn   *grpc.ClientConn
	stopped    bool
}

type life struct {
	out      *bufio.Writer
	beaconID string
	sch      *crypto.Scheme
	nodes    []*snode
	root     string
	period   int
	info     map[string]int
	secrets  map[string]bool
	httpSeen map[string]bool
}

func (l *life) emit(kind string, f ...string) {
	fmt.Fprintf(l.out, "%s\t%s\n", kind, strings.Join(f, "\t"))
}

func (l *life) outBlob(label string, node int, b []byte) {
	if len(b) == 0 {
		return
	}
	l.info["out:"+label]++
	l.emit("OUT", label, strconv.Itoa(node), hx(b))
}

func (l *life) secret(node int, kind string, s kyber.Scalar) {
	b, err := s.MarshalBinary()
	if err != nil {
		panic(err)
	}
	k := fmt.Sprintf("%d/%s/%x", node, kind, b)
	if l.secrets[k] {
		return
	}
	l.secrets[k] = true
	l.emit("SECRET", strconv.Itoa(node), kind, hx(b), s.String())
}

func (l *life) newNode(i int) *snode {
	n := &snode{idx: i, base: path.Join(l.root, fmt.Sprintf("node-%d", i))}
	n.listenPriv, n.proxyPriv, n.listenPub = freeAddr(), freeAddr(), freeAddr()
	_, n.ctrlPort, _ = net.SplitHostPort(freeAddr())
	n.proxyCtrl = freeAddr()
	priv, err := key.NewKeyPair(n.proxyPriv, l.sch)
	if err != nil {
		panic(err)
	}
	n.priv = priv
	l.secret(i, "longterm", priv.Key)
	n.logPath = path.Join(l.root, fmt.Sprintf("node-%d.log", i))
	return n
}

func (l *life) start(n *snode, first bool) error {
	ctx := context.Background()
	lf, err := os.OpenFile(n.logPath, os.O_CREATE|os.O_APPEND|os.O_WRONLY, 0o600)
	if err != nil {
		return err
	}
	n.logFile = lf
	// odd nodes log JSON, even nodes the console format: both encoders are exercised
	lg := log.New(zapcore.AddSync(lf), log.DebugLevel, n.idx%2 == 1)
	conf := core.NewConfig(lg,
		core.WithConfigFolder(n.base),
		core.WithPublicListenAddress(n.listenPub),
		core.WithPrivateListenAddress(n.listenPriv),
		core.WithControlPort(n.ctrlPort),
		core.WithDBStorageEngine(chain.BoltDB),
		core.WithDkgKickoffGracePeriod(1*time.Second),
		core.WithDkgPhaseTimeout(5*time.Second),
		core.WithDkgTimeout(5*time.Minute),
	)
	if first {
		ks := key.NewFileStore(conf.ConfigFolderMB(), l.beaconID)
		if err := ks.SaveKeyPair(n.priv); err != nil {
			return err
		}
	}
	d, err := core.NewDrandDaemon(ctx, conf)
	if err != nil {
		return fmt.Errorf("daemon: %w", err)
	}
	n.daemon = d
	stores, err := key.NewFileStores(conf.ConfigFolderMB())
	if err != nil {
		return err
	}
	for id, ks := range stores {
		bp, err := d.InstantiateBeaconProcess(ctx, id, ks)
		if err != nil {
			return err
		}
		err = bp.Load(ctx)
		fresh := errors.Is(err, core.ErrDKGNotStarted)
		if err != nil && !fresh {
			return err
		}
		if !fresh {
			d.AddBeaconHandler(ctx, id, bp)
			if err := bp.StartBeacon(ctx, true); err != nil {
				return err
			}
		}
	}
	if n.pp == nil {
		n.pp = startProxy("priv", n.idx, n.proxyPriv, n.listenPriv)
		n.pc = startProxy("ctl", n.idx, n.proxyCtrl, "127.0.0.1:"+n.ctrlPort)
	}
	cc, err := grpc.NewClient(n.proxyCtrl, grpc.WithTransportCredentials(insecure.NewCredentials()))
	if err != nil {
		return err
	}
	n.ctlConn, n.ctl, n.dkgc = cc, drand.NewControlClient(cc), pdkg.NewDKGControlClient(cc)
	pc, err := grpc.NewClient(n.proxyPriv, grpc.WithTransportCredentials(insecure.NewCredentials()))
	if err != nil {
		return err
	}
	n.privConn = pc
	n.stopped = false
	return nil
}

func (l *life) stopNode(n *snode) {
	if n.stopped || n.daemon == nil {
		return
	}
	ctx, cancel := context.WithTimeout(context.Background(), 10*time.Second)
	defer cancel()
	_, _ = n.ctl.Shutdown(ctx, &drand.ShutdownRequest{})
	select {
	case <-n.daemon.WaitExit():
	case <-time.After(10 * time.Second):
	}
	n.ctlConn.Close()
	n.privConn.Close()
	n.logFile.Sync()
	n.stopped = true
}

func (l *life) md() *drand.Metadata {
	return &drand.Metadata{BeaconID: l.beaconID, NodeVersion: common.GetAppVersion().ToProto()}
}

func (l *life) participant(n *snode) *pdkg.Participant {
	p, err := util.PublicKeyAsParticipant(n.priv.Public)
	if err != nil {
		panic(err)
	}
	return p
}

func (l *life) dkgCmd(n *snode, c *pdkg.DKGCommand) error {
	ctx, cancel := context.WithTimeout(context.Background(), 30*time.Second)
	defer cancel()
	c.Metadata = &pdkg.CommandMetadata{BeaconID: l.beaconID}
	_, err := n.dkgc.Command(ctx, c)
	return err
}

func (l *life) waitDKG(n *snode, epoch uint32, secs int) error {
	for i := 0; i < secs*4; i++ {
		time.Sleep(250 * time.Millisecond)
		ctx, cancel := context.WithTimeout(context.Background(), 5*time.Second)
		res, err := n.dkgc.DKGStatus(ctx, &pdkg.DKGStatusRequest{BeaconID: l.beaconID})
		cancel()
		if err != nil {
			continue
		}
		switch dkg.Status(res.Current.State) {
		case dkg.TimedOut, dkg.Aborted, dkg.Failed:
			return fmt.Errorf("dkg ended in state %s", dkg.Status(res.Current.State))
		}
		if res.Complete != nil && res.Complete.Epoch == epoch && dkg.Status(res.Complete.State) == dkg.Complete {
			return nil
		}
	}
	return errors.New("dkg never finished")
}

func (l *life) lastRound(n *snode) uint64 {
	ctx, cancel := context.WithTimeout(context.Background(), 3*time.Second)
	defer cancel()
	r, err := drand.NewPublicClient(n.privConn).PublicRand(ctx, &drand.PublicRandRequest{Metadata: l.md()})
	if err != nil {
		return 0
	}
	return r.Round
}

func (l *life) waitRound(n *snode, round uint64, secs int) error {
	for i := 0; i < secs*5; i++ {
		if l.lastRound(n) >= round {
			return nil
		}
		time.Sleep(200 * time.Millisecond)
	}
	return fmt.Errorf("node %d never reached round %d (at %d)", n.idx, round, l.lastRound(n))
}

// recordShare reads the node's current share from its own key store (what the node itself would load).
func (l *life) recordShares(tag string) {
	for _, n := range l.nodes {
		if n.daemon == nil {
			continue
		}
		ks := key.NewFileStore(path.Join(n.base, common.MultiBeaconFolder), l.beaconID)
		sh, err := ks.LoadShare()
		if err != nil || sh == nil || sh.Share == nil {
			continue
		}
		l.secret(n.idx, "share-"+tag, sh.Share.V)
	}
}

// queryAll calls every endpoint a node offers. The answers are not looked at here: they are on the wire taps.
func (l *life) queryAll(n *snode, phase string) {
	to := func(d time.Duration) (context.Context, context.CancelFunc) {
		return context.WithTimeout(context.Background(), d)
	}
	count := func(name string, err error) {
		if err != nil {
			l.info["rpc-err:"+name]++
		} else {
			l.info["rpc-ok:"+name]++
		}
	}
	var peers []*drand.Address
	for _, o := range l.nodes {
		peers = append(peers, &drand.Address{Address: o.proxyPriv})
	}
	{ // control port
		ctx, cancel := to(10 * time.Second)
		_, err := n.ctl.PingPong(ctx, &drand.Ping{Metadata: l.md()})
		count("Control/PingPong", err)
		_, err = n.ctl.Status(ctx, &drand.StatusRequest{Metadata: l.md(), CheckConn: peers})
		count("Control/Status", err)
		_, err = n.ctl.ListSchemes(ctx, &drand.ListSchemesRequest{})
		count("Control/ListSchemes", err)
		_, err = n.ctl.PublicKey(ctx, &drand.PublicKeyRequest{Metadata: l.md()})
		count("Control/PublicKey", err)
		_, err = n.ctl.ChainInfo(ctx, &drand.ChainInfoRequest{Metadata: l.md()})
		count("Control/ChainInfo", err)
		_, err = n.ctl.GroupFile(ctx, &drand.GroupRequest{Metadata: l.md()})
		count("Control/GroupFile", err)
		_, err = n.ctl.RemoteStatus(ctx, &drand.RemoteStatusRequest{Metadata: l.md(), Addresses: peers})
		count("Control/RemoteStatus", err)
		_, err = n.ctl.LoadBeacon(ctx, &drand.LoadBeaconRequest{Metadata: l.md()})
		count("Control/LoadBeacon", err)
		_, err = n.dkgc.DKGStatus(ctx, &pdkg.DKGStatusRequest{BeaconID: l.beaconID})
		count("DKGControl/DKGStatus", err)
		// requests naming an unknown beacon: the error text is an output too
		bad := &drand.Metadata{BeaconID: "no-such-beacon"}
		_, err = n.ctl.PublicKey(ctx, &drand.PublicKeyRequest{Metadata: bad})
		count("Control/PublicKey(bad id)", err)
		_, err = n.ctl.GroupFile(ctx, &drand.GroupRequest{Metadata: bad})
		count("Control/GroupFile(bad id)", err)
		_, err = n.dkgc.DKGStatus(ctx, &pdkg.DKGStatusRequest{BeaconID: "no-such-beacon"})
		count("DKGControl/DKGStatus(bad id)", err)
		cancel()
		// backup
		bdir := path.Join(n.base, "backup")
		_ = os.MkdirAll(bdir, 0o700)
		ctx, cancel = to(20 * time.Second)
		_, err = n.ctl.BackupDatabase(ctx, &drand.BackupDBRequest{Metadata: l.md(), OutputFile: path.Join(bdir, "backup-"+phase+".db")})
		count("Control/BackupDatabase", err)
		cancel()
		// check chain (streams progress)
		ctx, cancel = to(4 * time.Second)
		st, err := n.ctl.StartCheckChain(ctx, &drand.StartSyncRequest{Metadata: l.md(), Nodes: []string{l.nodes[(n.idx+1)%len(l.nodes)].proxyPriv}, UpTo: 2})
		if err == nil {
			for {
				if _, err = st.Recv(); err != nil {
					break
				}
			}
			if errors.Is(err, io.EOF) {
				err = nil
			}
		}
		count("Control/StartCheckChain", err)
		cancel()
	}
	{ // private port: public + protocol services
		pub := drand.NewPublicClient(n.privConn)
		pro := drand.NewProtocolClient(n.privConn)
		ctx, cancel := to(10 * time.Second)
		_, err := pub.PublicRand(ctx, &drand.PublicRandRequest{Metadata: l.md()})
		count("Public/PublicRand(latest)", err)
		_, err = pub.PublicRand(ctx, &drand.PublicRandRequest{Round: 1, Metadata: l.md()})
		count("Public/PublicRand(1)", err)
		_, err = pub.PublicRand(ctx, &drand.PublicRandRequest{Round: 1 << 40, Metadata: l.md()})
		count("Public/PublicRand(future)", err)
		_, err = pub.ChainInfo(ctx, &drand.ChainInfoRequest{Metadata: l.md()})
		count("Public/ChainInfo", err)
		_, err = pub.ListBeaconIDs(ctx, &drand.ListBeaconIDsRequest{})
		count("Public/ListBeaconIDs", err)
		_, err = pro.GetIdentity(ctx, &drand.IdentityRequest{Metadata: l.md()})
		count("Protocol/GetIdentity", err)
		_, err = pro.Status(ctx, &drand.StatusRequest{Metadata: l.md(), CheckConn: peers})
		count("Protocol/Status", err)
		// a junk partial: rejected, error text comes back
		_, err = pro.PartialBeacon(ctx, &drand.PartialBeaconPacket{Round: 2, PreviousSignature: []byte{1, 2, 3}, PartialSig: []byte{0, 1, 9, 9, 9}, Metadata: l.md()})
		count("Protocol/PartialBeacon(junk)", err)
		_, err = pub.PublicRand(ctx, &drand.PublicRandRequest{Metadata: &drand.Metadata{BeaconID: "no-such-beacon"}})
		count("Public/PublicRand(bad id)", err)
		cancel()
		ctx, cancel = to(4 * time.Second)
		ss, err := pro.SyncChain(ctx, &drand.SyncRequest{FromRound: 1, Metadata: l.md()})
		got := 0
		if err == nil {
			for got < 3 {
				if _, err = ss.Recv(); err != nil {
					break
				}
				got++
			}
		}
		if got > 0 {
			err = nil
		}
		count("Protocol/SyncChain", err)
		cancel()
		ctx, cancel = to(time.Duration(l.period)*3*time.Second + time.Second)
		ps, err := pub.PublicRandStream(ctx, &drand.PublicRandRequest{Metadata: l.md()})
		got = 0
		if err == nil {
			for got < 2 {
				if _, err = ps.Recv(); err != nil {
					break
				}
				got++
			}
		}
		if got > 0 {
			err = nil
		}
		count("Public/PublicRandStream", err)
		cancel()
	}
	{ // HTTP
		get := func(label, p string) {
			resp, err := http.Get("http://" + n.listenPub + p)
			if err != nil {
				l.info["http-err:"+label]++
				return
			}
			dump, _ := httputil.DumpResponse(resp, true)
			resp.Body.Close()
			l.info["http-ok:"+label]++
			l.httpSeen[label] = true
			l.outBlob("http:"+label, n.idx, dump)
		}
		hash := ""
		ctx, cancel := to(5 * time.Second)
		if ci, err := n.ctl.ChainInfo(ctx, &drand.ChainInfoRequest{Metadata: l.md()}); err == nil {
			hash = fmt.Sprintf("%x", ci.Hash)
		}
		cancel()
		get("/chains", "/chains")
		get("/health", "/health")
		get("/info", "/info")
		get("/public/latest", "/public/latest")
		get("/public/{round}", "/public/1")
		if hash != "" {
			get("/{hash}/info", "/"+hash+"/info")
			get("/{hash}/health", "/"+hash+"/health")
			get("/{hash}/public/latest", "/"+hash+"/public/latest")
			get("/{hash}/public/{round}", "/"+hash+"/public/2")
			get("/{hash}/public/{round}", "/"+hash+"/public/99999999")
		}
		get("/{hash}/info", "/deadbeef/info")
		get("(other)", "/no/such/route")
	}
}

func classifyFile(rel, beaconID string) string {
	mb := common.MultiBeaconFolder + "/" + beaconID + "/"
	switch {
	case rel == "dkg.db":
		return "dkg-db"
	case rel == mb+"key/drand_id.private":
		return "private-key"
	case rel == mb+"key/drand_id.public":
		return "public-key"
	case rel == mb+"groups/drand_group.toml":
		return "group"
	case rel == mb+"groups/dist_key.private":
		return "share"
	case rel == mb+"db/drand.db":
		return "chain-db"
	case strings.HasPrefix(rel, "backup/"):
		return "backup"
	}
	return "other:" + rel
}

func (l *life) dumpFiles(root string, node int, umask int) {
	_ = filepath.Walk(root, func(p string, info os.FileInfo, err error) error {
		if err != nil {
			return nil
		}
		rel, _ := filepath.Rel(root, p)
		rel = filepath.ToSlash(rel)
		if info.IsDir() {
			l.emit("DIR", strconv.Itoa(node), rel, fmt.Sprintf("%o", info.Mode().Perm()), fmt.Sprintf("%o", umask))
			return nil
		}
		b, _ := os.ReadFile(p)
		l.info["file:"+classifyFile(rel, l.beaconID)]++
		l.emit("FILE", strconv.Itoa(node), rel, classifyFile(rel, l.beaconID), fmt.Sprintf("%o", info.Mode().Perm()), fmt.Sprintf("%o", umask), hx(b))
		return nil
	})
}

func (l *life) dumpTaps() {
	for _, n := range l.nodes {
		for _, p := range []*tapProxy{n.pp, n.pc} {
			if p == nil {
				continue
			}
			p.stop()
			p.mu.Lock()
			conns := p.conns
			p.mu.Unlock()
			for ci, tc := range conns {
				tc.mu.Lock()
				c2s := append([]byte{}, tc.c2s.Bytes()...)
				s2c := append([]byte{}, tc.s2c.Bytes()...)
				tc.mu.Unlock()
				// raw byte streams, exactly as they crossed the socket
				l.outBlob("netraw:"+p.name+":to-node", n.idx, c2s)
				l.outBlob("netraw:"+p.name+":from-node", n.idx, s2c)
				streams := map[uint32]*rpcBlob{}
				ok1 := deframe(c2s, true, streams)
				ok2 := deframe(s2c, false, streams)
				if !ok1 || !ok2 {
					l.info["deframe-incomplete"]++
				}
				var ids []int
				for id := range streams {
					ids = append(ids, int(id))
				}
				sort.Ints(ids)
				for _, id := range ids {
					s := streams[uint32(id)]
					if id == 0 {
						continue
					}
					pth := s.path
					if pth == "" {
						pth = "(unknown-path)"
					}
					_ = ci
					l.outBlob("grpc:"+pth+":req", n.idx, s.req)
					l.outBlob("grpc:"+pth+":resp", n.idx, s.resp)
					l.outBlob("grpc:"+pth+":req-headers", n.idx, s.reqHdrs)
					l.outBlob("grpc:"+pth+":resp-headers", n.idx, s.respHdrs)
				}
			}
		}
	}
}

func (l *life) fail(step string, err error) {
	l.emit("ERR", step, strings.ReplaceAll(err.Error(), "\n", " "))
}

// run is the scripted life. Returns false when a step failed (everything captured so far is still dumped).
func (l *life) run(n int, reshare bool, joiner bool, restart bool) bool {
	ok := true
	step := func(name string, f func() error) bool {
		if !ok {
			return false
		}
		t0 := time.Now()
		if err := f(); err != nil {
			l.fail(name, err)
			ok = false
			return false
		}
		l.emit("STEP", name, fmt.Sprintf("%.1fs", time.Since(t0).Seconds()))
		return true
	}
	for i := 0; i < n; i++ {
		l.nodes = append(l.nodes, l.newNode(i))
	}
	step("start", func() error {
		for _, nd := range l.nodes {
			if err := l.start(nd, true); err != nil {
				return fmt.Errorf("node %d: %w", nd.idx, err)
			}
		}
		return nil
	})
	thr := key.MinimumT(n)
	leader := l.nodes[0]
	step("dkg", func() error {
		var joiners []*pdkg.Participant
		for _, nd := range l.nodes {
			joiners = append(joiners, l.participant(nd))
		}
		now := time.Now()
		if err := l.dkgCmd(leader, &pdkg.DKGCommand{Command: &pdkg.DKGCommand_Initial{Initial: &pdkg.FirstProposalOptions{
			Timeout: timestamppb.New(now.Add(2 * time.Minute)), Threshold: uint32(thr), PeriodSeconds: uint32(l.period), Scheme: l.sch.Name,
			CatchupPeriodSeconds: 1, GenesisTime: timestamppb.New(now.Add(6 * time.Second)), Joining: joiners}}}); err != nil {
			return fmt.Errorf("initial proposal: %w", err)
		}
		for _, nd := range l.nodes[1:] {
			if err := l.dkgCmd(nd, &pdkg.DKGCommand{Command: &pdkg.DKGCommand_Join{Join: &pdkg.JoinOptions{}}}); err != nil {
				return fmt.Errorf("join node %d: %w", nd.idx, err)
			}
		}
		if err := l.dkgCmd(leader, &pdkg.DKGCommand{Command: &pdkg.DKGCommand_Execute{Execute: &pdkg.ExecutionOptions{}}}); err != nil {
			return fmt.Errorf("execute: %w", err)
		}
		for _, nd := range l.nodes {
			if err := l.waitDKG(nd, 1, 60); err != nil {
				return fmt.Errorf("node %d: %w", nd.idx, err)
			}
		}
		return nil
	})
	step("beacons-epoch1", func() error {
		for _, nd := range l.nodes {
			if err := l.waitRound(nd, 3, 40); err != nil {
				return err
			}
		}
		return nil
	})
	l.recordShares("epoch1")
	step("query-epoch1", func() error {
		for _, nd := range l.nodes {
			l.queryAll(nd, "epoch1")
		}
		return nil
	})
	if reshare {
		var newcomer *snode
		step("reshare", func() error {
			var remaining, joining, leaving []*pdkg.Participant
			members := l.nodes
			if joiner {
				// the last old node leaves, a fresh node joins
				newcomer = l.newNode(len(l.nodes))
				if err := l.start(newcomer, true); err != nil {
					return fmt.Errorf("newcomer: %w", err)
				}
				leaving = append(leaving, l.participant(l.nodes[len(l.nodes)-1]))
				members = l.nodes[:len(l.nodes)-1]
				joining = append(joining, l.participant(newcomer))
			}
			for _, nd := range members {
				remaining = append(remaining, l.participant(nd))
			}
			now := time.Now()
			if err := l.dkgCmd(leader, &pdkg.DKGCommand{Command: &pdkg.DKGCommand_Resharing{Resharing: &pdkg.ProposalOptions{
				Timeout: timestamppb.New(now.Add(2 * time.Minute)), Threshold: uint32(thr), CatchupPeriodSeconds: 1,
				Joining: joining, Remaining: remaining, Leaving: leaving}}}); err != nil {
				return fmt.Errorf("reshare proposal: %w", err)
			}
			if newcomer != nil {
				ctx, cancel := context.WithTimeout(context.Background(), 5*time.Second)
				gp, err := leader.ctl.GroupFile(ctx, &drand.GroupRequest{Metadata: l.md()})
				cancel()
				if err != nil {
					return err
				}
				g, err := key.GroupFromProto(gp, l.sch)
				if err != nil {
					return err
				}
				var gb bytes.Buffer
				if err := toml.NewEncoder(&gb).Encode(g.TOML()); err != nil {
					return err
				}
				if err := l.dkgCmd(newcomer, &pdkg.DKGCommand{Command: &pdkg.DKGCommand_Join{Join: &pdkg.JoinOptions{GroupFile: gb.Bytes()}}}); err != nil {
					return fmt.Errorf("newcomer join: %w", err)
				}
			}
			for _, nd := range members[1:] {
				if err := l.dkgCmd(nd, &pdkg.DKGCommand{Command: &pdkg.DKGCommand_Accept{Accept: &pdkg.AcceptOptions{}}}); err != nil {
					return fmt.Errorf("accept node %d: %w", nd.idx, err)
				}
			}
			if err := l.dkgCmd(leader, &pdkg.DKGCommand{Command: &pdkg.DKGCommand_Execute{Execute: &pdkg.ExecutionOptions{}}}); err != nil {
				return fmt.Errorf("execute: %w", err)
			}
			if newcomer != nil {
				l.nodes = append(l.nodes, newcomer)
			}
			for _, nd := range members {
				if err := l.waitDKG(nd, 2, 60); err != nil {
					return fmt.Errorf("node %d: %w", nd.idx, err)
				}
			}
			if newcomer != nil {
				if err := l.waitDKG(newcomer, 2, 60); err != nil {
					return fmt.Errorf("newcomer: %w", err)
				}
			}
			return nil
		})
		l.recordShares("epoch2-before-transition")
		step("beacons-epoch2", func() error {
			ctx, cancel := context.WithTimeout(context.Background(), 5*time.Second)
			gp, err := leader.ctl.GroupFile(ctx, &drand.GroupRequest{Metadata: l.md()})
			cancel()
			if err != nil {
				return err
			}
			tr := common.CurrentRound(int64(gp.TransitionTime), time.Duration(gp.Period)*time.Second, int64(gp.GenesisTime))
			l.info["transition-round"] = int(tr)
			return l.waitRound(leader, tr+2, 60)
		})
		l.recordShares("epoch2")
		step("query-epoch2", func() error {
			for _, nd := range l.nodes {
				if joiner && nd.idx == n-1 {
					continue // left the network
				}
				l.queryAll(nd, "epoch2")
			}
			return nil
		})
	}
	if restart {
		victim := l.nodes[1]
		step("restart", func() error {
			l.stopNode(victim)
			at := l.lastRound(leader)
			if err := l.waitRound(leader, at+2, 30); err != nil {
				return err
			}
			if err := l.start(victim, false); err != nil {
				return fmt.Errorf("restart: %w", err)
			}
			if err := l.waitRound(victim, at+2, 40); err != nil {
				return err
			}
			l.queryAll(victim, "restarted")
			return nil
		})
	}
	l.recordShares("final")
	return ok
}

func (l *life) finish(umask int) {
	for _, nd := range l.nodes {
		l.stopNode(nd)
	}
	time.Sleep(300 * time.Millisecond)
	l.dumpTaps()
	for _, nd := range l.nodes {
		if b, err := os.ReadFile(nd.logPath); err == nil {
			l.outBlob("log:node", nd.idx, b)
		}
		l.dumpFiles(nd.base, nd.idx, umask)
	}
}

// ------------------------------------------------------------------------------------------------
// file-mode matrix: the real file-creating code under several umasks, no daemon

func fakeShare(sch *crypto.Scheme, r *rng) *key.Share {
	v := sch.KeyGroup.Scalar().SetBytes(r.bytes(32))
	c := sch.KeyGroup.Point().Mul(v, nil)
	return &key.Share{DistKeyShare: kdkg.DistKeyShare{Commits: []kyber.Point{c}, Share: &share.PriShare{I: 0, V: v}}, Scheme: sch}
}

func fileMatrix(out *bufio.Writer, r *rng, sch *crypto.Scheme, umasks []int) {
	emit := func(kind string, f ...string) { fmt.Fprintf(out, "%s\t%s\n", kind, strings.Join(f, "\t")) }
	for ui, um := range umasks {
		old := syscall.Umask(um)
		res := safely(func() string {
			root := path.Join(tmpDir(), "fm")
			if err := os.MkdirAll(root, 0o700); err != nil {
				return "err:" + err.Error()
			}
			node := 100 + ui
			l := &life{out: out, beaconID: "default", sch: sch, info: map[string]int{}, secrets: map[string]bool{}}
			pair, err := key.NewKeyPair("127.0.0.1:1", sch)
			if err != nil {
				return "err:" + err.Error()
			}
			l.secret(node, "longterm", pair.Key)
			sh := fakeShare(sch, r)
			l.secret(node, "share-fake", sh.Share.V)
			ks := key.NewFileStore(path.Join(root, common.MultiBeaconFolder), "default")
			if err := ks.SaveKeyPair(pair); err != nil {
				return "err:SaveKeyPair:" + err.Error()
			}
			// overwrite path: the file exists already (possibly with other content and a loose mode)
			if err := ks.SaveKeyPair(pair); err != nil {
				return "err:SaveKeyPair(2):" + err.Error()
			}
			if err := ks.SaveShare(sh); err != nil {
				return "err:SaveShare:" + err.Error()
			}
			g := &key.Group{Threshold: 1, Period: time.Second, Scheme: sch, ID: "default", GenesisTime: 1700000000,
				Nodes: []*key.Node{{Identity: pair.Public, Index: 0}}, PublicKey: &key.DistPublic{Coefficients: sh.Commits}, GenesisSeed: []byte{1}}
			if err := ks.SaveGroup(g); err != nil {
				return "err:SaveGroup:" + err.Error()
			}
			st, err := dkg.NewDKGStore(root)
			if err != nil {
				return "err:NewDKGStore:" + err.Error()
			}
			me, _ := util.PublicKeyAsParticipant(pair.Public)
			state := &dkg.DBState{BeaconID: "default", Epoch: 1, State: dkg.Complete, Threshold: 1, Timeout: time.Unix(1700000100, 0),
				SchemeID: sch.Name, GenesisTime: time.Unix(1700000000, 0), GenesisSeed: []byte{1}, CatchupPeriod: time.Second, BeaconPeriod: time.Second,
				Leader: me, Joining: []*pdkg.Participant{me}, Acceptors: []*pdkg.Participant{me}, FinalGroup: g, KeyShare: sh}
			if err := st.SaveFinished("default", state); err != nil {
				return "err:SaveFinished:" + err.Error()
			}
			if err := st.Close(); err != nil {
				return "err:Close:" + err.Error()
			}
			// operator paths on the same database (drand dkg nuke of ANOTHER beacon id, the v1->v2 migration of one): whatever
			// file they leave behind holds this beacon's share too and is picked up by dumpFiles below
			if st2, err := dkg.NewDKGStore(root); err == nil {
				other := &dkg.DBState{BeaconID: "other", Epoch: 1, State: dkg.Complete, Threshold: 1, Timeout: time.Unix(1700000100, 0),
					SchemeID: sch.Name, GenesisTime: time.Unix(1700000000, 0), GenesisSeed: []byte{1}, CatchupPeriod: time.Second, BeaconPeriod: time.Second,
					Leader: me, Joining: []*pdkg.Participant{me}, Acceptors: []*pdkg.Participant{me}, FinalGroup: g, KeyShare: sh}
				_ = st2.SaveFinished("other", other)
				_ = st2.MigrateFromGroupfile("migrated", g, sh)
				_ = st2.NukeState("other")
				_ = st2.NukeState("no-such-beacon")
				_ = st2.Close()
			} else {
				return "err:NewDKGStore(2):" + err.Error()
			}
			// pre-existing loose key file, then the secure save on top of it
			loose := path.Join(root, common.MultiBeaconFolder, "default", "key", "drand_id.private")
			_ = os.Chmod(loose, 0o666)
			if err := ks.SaveKeyPair(pair); err != nil {
				return "err:SaveKeyPair(3):" + err.Error()
			}
			// failure path of key.Save: the daemon logs the returned error verbatim ("Error performing DKG key
			// transition", err), so the error text is log output and must not carry the value being saved
			missing := path.Join(root, "no-such-dir", "x", "dist_key.private")
			for _, secure := range []bool{true, false} {
				if err := key.Save(missing, sh, secure); err != nil {
					l.outBlob("log:node", node, []byte("Error performing DKG key transition err="+err.Error()))
				}
				if err := key.Save(missing, pair, secure); err != nil {
					l.outBlob("log:node", node, []byte("saving identity err="+err.Error()))
				}
			}
			l.dumpFiles(root, node, um)
			return "ok"
		})
		syscall.Umask(old)
		emit("MATRIX", fmt.Sprintf("%o", um), res)
	}
}

// ------------------------------------------------------------------------------------------------

func secrecyEngine(args []string, _ *bufio.Scanner, out *bufio.Writer) {
	seed, _ := strconv.ParseUint(args[0], 10, 64)
	tier := "quick"
	if len(args) > 1 {
		tier = args[1]
	}
	r := &rng{s: seed}
	schemes := crypto.ListSchemes()
	sort.Strings(schemes)
	emit := func(kind string, f ...string) { fmt.Fprintf(out, "%s\t%s\n", kind, strings.Join(f, "\t")) }

	// library code writes to os.Stdout (fmt.Printf in key.Save…, zap loggers created with a nil sink): capture it
	capPath := path.Join(tmpDir(), "stdout.capture")
	capFile, err := os.OpenFile(capPath, os.O_CREATE|os.O_RDWR, 0o600)
	if err != nil {
		panic(err)
	}
	os.Stdout = capFile

	emit("UMASK-AT-START", fmt.Sprintf("%o", func() int { u := syscall.Umask(0); syscall.Umask(u); return u }()))

	// (A) file-mode matrix
	fmSch := mustScheme(schemes[int(seed)%len(schemes)])
	fileMatrix(out, r, fmSch, []int{0, 0o022, 0o027, 0o077, 0o002})

	// (A') noninterference twins on the real daemon (no beacon started, nothing signed)
	syscall.Umask(0o077)
	nTwins := 1
	if tier != "quick" {
		nTwins = len(schemes)
	}
	for t := 0; t < nTwins; t++ {
		twins(out, r, mustScheme(schemes[(int(seed)+t)%len(schemes)]), 1)
	}
	out.Flush()

	// (B) lives
	type plan struct {
		scheme                   string
		n                        int
		reshare, joiner, restart bool
	}
	var plans []plan
	if tier == "twins" { // debugging aid: matrix and twins only
		plans = nil
	} else if tier == "quick" {
		plans = []plan{{schemes[int(seed)%len(schemes)], 3, true, false, true}}
	} else {
		for i, s := range schemes {
			plans = append(plans, plan{s, 3 + (i+int(seed))%2, true, i%2 == 0, true})
		}
	}
	syscall.Umask(0)
	for pi, p := range plans {
		l := &life{out: out, beaconID: "default", sch: mustScheme(p.scheme), root: path.Join(tmpDir(), "life"), period: 1,
			info: map[string]int{}, secrets: map[string]bool{}, httpSeen: map[string]bool{}}
		if pi%2 == 1 {
			l.beaconID = "c15-chain"
		}
		_ = os.MkdirAll(l.root, 0o700)
		emit("LIFE", strconv.Itoa(pi), p.scheme, strconv.Itoa(p.n), fmt.Sprint(p.reshare), fmt.Sprint(p.joiner), fmt.Sprint(p.restart), l.beaconID)
		res := safely(func() string {
			if l.run(p.n, p.reshare, p.joiner, p.restart) {
				return "ok"
			}
			return "failed"
		})
		func() {
			defer func() {
				if e := recover(); e != nil {
					emit("ERR", "finish", fmt.Sprint(e))
				}
			}()
			l.finish(0)
		}()
		var ks []string
		for k := range l.info {
			ks = append(ks, k)
		}
		sort.Strings(ks)
		for _, k := range ks {
			emit("INFO", strconv.Itoa(pi), k, strconv.Itoa(l.info[k]))
		}
		emit("LIFE-END", strconv.Itoa(pi), res)
		out.Flush()
	}
	capFile.Sync()
	if b, err := os.ReadFile(capPath); err == nil && len(b) > 0 {
		fmt.Fprintf(out, "OUT\t%s\t%s\t%s\n", "log:process-stdout", "-", hx(b))
	}
	emit("DONE")
}
