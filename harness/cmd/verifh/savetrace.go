//go:build verif

package main

// Engine `savetrace` (C15): the real key store (key.NewFileStore + SaveKeyPair / SaveShare / SaveGroup) on a fresh
// folder, meant to be run UNDER A SYSCALL RECORDER (vlib/props/C15.py starts it with
// `strace -f -e trace=openat,close,write,rename,renameat,renameat2,unlink,unlinkat,chmod,fchmod,fchmodat,fsync`).
// The engine only performs the calls and says what it did; which files exist at which moment, with which mode and
// which content — the temporary file of a Save that writes-then-renames included — is reconstructed by the check from
// the recorded system calls, and the final state of that reconstruction is compared with the `FILE` lines printed here.
//
// Usage: verifh savetrace <seed> <umask-octal>            (generator style; stdin is ignored)
//
// Output (tab separated):
//   ROOT   <folder>
//   SECRET <kind> <hex of the scalar>
//   CALL   <n> <what>            written BEFORE the call starts (the recorder sees the write(1, "CALL\t…") too: a marker)
//   RET    <n> ok | err:<text>
//   FILE   <path relative to ROOT> <mode octal> <content hex>
//   DONE

import (
	"bufio"
	"fmt"
	"os"
	"path"
	"path/filepath"
	"strconv"
	"syscall"
	"time"

	"github.com/drand/drand/v2/common"
	"github.com/drand/drand/v2/common/key"
)

func init() { engines["savetrace"] = savetraceEngine }

func savetraceEngine(args []string, _ *bufio.Scanner, out *bufio.Writer) {
	seed, _ := strconv.ParseUint(args[0], 10, 64)
	um64, _ := strconv.ParseUint(args[1], 8, 32)
	r := &rng{s: seed}
	sch := mustScheme("pedersen-bls-chained")
	// library code prints to os.Stdout (fmt.Printf in SaveShare / SaveKeyPair): keep the protocol on a duplicate of fd 1
	// and send the library's chatter to /dev/null
	proto := os.NewFile(uintptr(mustDup(1)), "proto")
	if devnull, err := os.OpenFile(os.DevNull, os.O_WRONLY, 0); err == nil {
		os.Stdout = devnull
	}
	say := func(kind string, f ...string) {
		line := kind
		for _, x := range f {
			line += "\t" + x
		}
		// one write(2) per line, unbuffered: the line is a marker in the recorded system-call stream
		_, _ = proto.Write([]byte(line + "\n"))
	}
	_ = out
	root := path.Join(tmpDir(), "savetrace")
	if err := os.MkdirAll(root, 0o700); err != nil {
		say("ERR", err.Error())
		return
	}
	say("ROOT", root)
	old := syscall.Umask(int(um64))
	defer syscall.Umask(old)

	pair, err := key.NewKeyPair("127.0.0.1:1", sch)
	if err != nil {
		say("ERR", err.Error())
		return
	}
	say("SECRET", "longterm", scalarHex(pair.Key))
	sh1, sh2, sh3 := fakeShare(sch, r), fakeShare(sch, r), fakeShare(sch, r)
	say("SECRET", "share-1", scalarHex(sh1.Share.V))
	say("SECRET", "share-2", scalarHex(sh2.Share.V))
	say("SECRET", "share-3", scalarHex(sh3.Share.V))
	g := &key.Group{Threshold: 1, Period: time.Second, Scheme: sch, ID: "default", GenesisTime: 1700000000,
		Nodes: []*key.Node{{Identity: pair.Public, Index: 0}}, PublicKey: &key.DistPublic{Coefficients: sh1.Commits}, GenesisSeed: []byte{1}}

	ks := key.NewFileStore(path.Join(root, common.MultiBeaconFolder), "default")
	groups := path.Join(root, common.MultiBeaconFolder, "default", key.GroupFolderName)
	shareFile := path.Join(groups, "dist_key.private")
	n := 0
	call := func(what string, f func() error) {
		n++
		say("CALL", strconv.Itoa(n), what)
		res := safely(func() string {
			if err := f(); err != nil {
				return "err:" + err.Error()
			}
			return "ok"
		})
		say("RET", strconv.Itoa(n), res)
	}
	call("SaveKeyPair fresh", func() error { return ks.SaveKeyPair(pair) })
	call("SaveShare fresh", func() error { return ks.SaveShare(sh1) })
	call("SaveShare again", func() error { return ks.SaveShare(sh2) })
	// a stale, loose, long leftover "<share>.tmp" (what a run that died inside a Save may leave; here made world-readable
	// on purpose): the next Save must not put the new share into a file that is readable by others, not for an instant
	call("plant stale loose tmp", func() error {
		junk := make([]byte, 0, 8192)
		for len(junk) < 8000 {
			junk = append(junk, []byte("Stale = \"left by an interrupted save\"\n")...)
		}
		if err := os.WriteFile(shareFile+".tmp", junk, 0o666); err != nil {
			return err
		}
		return os.Chmod(shareFile+".tmp", 0o666)
	})
	call("SaveShare over stale tmp", func() error { return ks.SaveShare(sh3) })
	call("SaveGroup", func() error { return ks.SaveGroup(g) })
	g2 := *g
	g2.GenesisTime = 1700000030
	call("SaveGroup again", func() error { return ks.SaveGroup(&g2) })
	// error path: the folder is gone
	call("SaveShare into a missing folder", func() error {
		return key.Save(path.Join(root, "no-such-dir", "dist_key.private"), sh3, true)
	})

	_ = filepath.Walk(root, func(p string, info os.FileInfo, err error) error {
		if err != nil || info.IsDir() {
			return nil
		}
		rel, _ := filepath.Rel(root, p)
		b, _ := os.ReadFile(p)
		say("FILE", filepath.ToSlash(rel), fmt.Sprintf("%o", info.Mode().Perm()), hx(b))
		return nil
	})
	say("DONE")
}

func mustDup(fd int) int {
	n, err := syscall.Dup(fd)
	if err != nil {
		panic(err)
	}
	return n
}

func scalarHex(s interface{ MarshalBinary() ([]byte, error) }) string {
	b, err := s.MarshalBinary()
	if err != nil {
		panic(err)
	}
	return hx(b)
}
