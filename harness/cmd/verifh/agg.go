//go:build verif

package main

// Engine `agg` (C01, C03): a REAL beacon.Handler for node 0 of a real group (n real shares of a real
// polynomial), a fake clock, a logging wrapper around the base store, an in-memory ProtocolClient.
// The harness forges / signs packets itself and labels every packet with the real verifier's answers,
// independently of the node under test. Result lines are `<left> | <right>`: the left part is what the
// Lean model must reproduce, the right part carries the materialised packet, its labels and the harness's
// own verification bits for the property oracle.

import (
	"bufio"
	"bytes"
	"context"
	"crypto/sha256"
	"encoding/binary"
	"errors"
	"fmt"
	"io"
	gonet "net"
	"os"
	"sort"
	"strconv"
	"strings"
	"sync"
	"time"

	clock "github.com/jonboulle/clockwork"
	"google.golang.org/grpc"
	"google.golang.org/grpc/peer"

	"github.com/drand/drand/v2/common"
	"github.com/drand/drand/v2/common/key"
	"github.com/drand/drand/v2/crypto"
	"github.com/drand/drand/v2/internal/chain"
	"github.com/drand/drand/v2/internal/chain/beacon"
	"github.com/drand/drand/v2/internal/chain/boltdb"
	"github.com/drand/drand/v2/internal/chain/memdb"
	"github.com/drand/drand/v2/internal/core"
	"github.com/drand/drand/v2/internal/net"
	"github.com/drand/drand/v2/protobuf/drand"
	"github.com/drand/kyber"
	"github.com/drand/kyber/share"
	"github.com/drand/kyber/share/dkg"
	"github.com/drand/kyber/util/random"
)

func init() { engines["agg"] = aggEngine }

// ---- deterministic randomness for the polynomials (signatures are then reproducible run to run) ----

type detReader struct {
	seed [32]byte
	ctr  uint64
	buf  []byte
}

func (d *detReader) Read(p []byte) (int, error) {
	for len(d.buf) < len(p) {
		var c [8]byte
		binary.BigEndian.PutUint64(c[:], d.ctr)
		d.ctr++
		h := sha256.Sum256(append(d.seed[:], c[:]...))
		d.buf = append(d.buf, h[:]...)
	}
	copy(p, d.buf[:len(p)])
	d.buf = d.buf[len(p):]
	return len(p), nil
}

// ---- base store wrapper: records every Put that reaches the base store ----

type logStore struct {
	chain.Store
	mu   sync.Mutex
	puts []common.Beacon
}

func (l *logStore) Put(ctx context.Context, b *common.Beacon) error {
	err := l.Store.Put(ctx, b)
	if err == nil {
		l.mu.Lock()
		l.puts = append(l.puts, common.Beacon{Round: b.Round, Signature: append([]byte{}, b.Signature...), PreviousSig: append([]byte{}, b.PreviousSig...)})
		l.mu.Unlock()
	}
	return err
}

func (l *logStore) take() []common.Beacon {
	l.mu.Lock()
	defer l.mu.Unlock()
	out := l.puts
	l.puts = nil
	return out
}

// ---- in-memory protocol client ----

type aggPeer struct{ addr string }

func (p *aggPeer) Address() string { return p.addr }

const scriptedPeer = "scripted.peer:1"

type aggClient struct {
	mu     sync.Mutex
	script []*drand.BeaconPacket
	armed  bool
	bcast  []*drand.PartialBeaconPacket
}

func (c *aggClient) GetIdentity(context.Context, net.Peer, *drand.IdentityRequest, ...net.CallOption) (*drand.IdentityResponse, error) {
	return nil, errors.New("verifh: no network")
}
func (c *aggClient) SyncChain(_ context.Context, p net.Peer, _ *drand.SyncRequest, _ ...net.CallOption) (chan *drand.BeaconPacket, error) {
	c.mu.Lock()
	defer c.mu.Unlock()
	if p.Address() != scriptedPeer || !c.armed {
		return nil, errors.New("verifh: no network")
	}
	c.armed = false
	ch := make(chan *drand.BeaconPacket, len(c.script)+1)
	for _, b := range c.script {
		ch <- b
	}
	close(ch)
	return ch, nil
}
func (c *aggClient) PartialBeacon(_ context.Context, _ net.Peer, in *drand.PartialBeaconPacket, _ ...net.CallOption) error {
	c.mu.Lock()
	c.bcast = append(c.bcast, in)
	c.mu.Unlock()
	return nil
}
func (c *aggClient) Status(context.Context, net.Peer, *drand.StatusRequest, ...grpc.CallOption) (*drand.StatusResponse, error) {
	return nil, errors.New("verifh: no network")
}
func (c *aggClient) Check(context.Context, net.Peer) error { return nil }

// ---- capturing streams ----

type capStream struct {
	grpc.ServerStream
	ctx  context.Context
	mu   sync.Mutex
	sent []string // "round:sig:prev:rnd"
}

func (s *capStream) Context() context.Context { return s.ctx }
func (s *capStream) Send(b *drand.BeaconPacket) error {
	s.mu.Lock()
	s.sent = append(s.sent, fmt.Sprintf("%d:%s:%s:-", b.GetRound(), hx(b.GetSignature()), hx(b.GetPreviousSignature())))
	s.mu.Unlock()
	return nil
}
func (s *capStream) list() []string {
	s.mu.Lock()
	defer s.mu.Unlock()
	return append([]string{}, s.sent...)
}

type capPubStream struct{ *capStream }

func (s *capPubStream) Send(b *drand.PublicRandResponse) error {
	s.mu.Lock()
	s.sent = append(s.sent, fmt.Sprintf("%d:%s:%s:%s", b.GetRound(), hx(b.GetSignature()), hx(b.GetPreviousSignature()), hx(b.GetRandomness())))
	s.mu.Unlock()
	return nil
}

// ---- the system under test ----

type aggGroup struct {
	group   *key.Group
	pub     *share.PubPoly
	shares  []*share.PriShare
	member  []bool
	own     *key.Share
	thr     int
	polyThr int
}

type aggSUT struct {
	sch      *crypto.Scheme
	n        int
	chained  bool
	groups   []*aggGroup
	secret   kyber.Scalar
	groupKey kyber.Point
	h        *beacon.Handler
	bp       *core.BeaconProcess
	clk      *clock.FakeClock
	base     *logStore
	cli      *aggClient
	dir      string
	seed     []byte
	trueSigs map[uint64][]byte
	history  []*drand.PartialBeaconPacket
	period   time.Duration
	genesis  int64
	ctx      context.Context
	dead     bool
	live     int
}

func (a *aggSUT) digest(round uint64, prev []byte) []byte {
	return a.sch.DigestBeacon(&common.Beacon{Round: round, PreviousSig: prev})
}

// groupSig is the unique signature of the group key on the digest of (round, prev).
func (a *aggSUT) groupSig(round uint64, prev []byte) []byte {
	s, err := a.sch.AuthScheme.Sign(a.secret, a.digest(round, prev))
	if err != nil {
		panic(err)
	}
	return s
}

// trueSig(r): the signature of the one valid chain (round 0: the genesis seed).
func (a *aggSUT) trueSig(r uint64) []byte {
	if s, ok := a.trueSigs[r]; ok {
		return s
	}
	if r == 0 {
		return a.seed
	}
	var s []byte
	if a.chained {
		s = a.groupSig(r, a.trueSig(r-1))
	} else {
		s = a.groupSig(r, nil)
	}
	a.trueSigs[r] = s
	return s
}

// prevOf resolves a previous-signature symbol: "-" empty, T<r> true signature of round r, J<x> junk, x<hex>.
func (a *aggSUT) prevOf(sym string) []byte {
	switch {
	case sym == "-":
		return nil
	case strings.HasPrefix(sym, "T"):
		r, err := strconv.ParseUint(sym[1:], 10, 64)
		if err != nil {
			panic("bad prev symbol " + sym)
		}
		return a.trueSig(r)
	case strings.HasPrefix(sym, "J"):
		return bytes.Repeat([]byte{0xee, sym[1]}, 4)
	case strings.HasPrefix(sym, "x"):
		return unhx(sym[1:])
	}
	panic("bad prev symbol " + sym)
}

func (a *aggSUT) verifyBeacon(b *common.Beacon) bool {
	return a.sch.VerifyBeacon(b, a.groupKey) == nil
}

// labels: validity of the partial under every group's polynomial, for the digest of the CLAIMED (round, prev).
func (a *aggSUT) vpBits(round uint64, prev, psig []byte) string {
	var sb strings.Builder
	msg := a.digest(round, prev)
	_, ierr := a.sch.ThresholdScheme.IndexOf(psig)
	for _, g := range a.groups {
		ok := false
		if ierr == nil {
			ok = safeVerifyPartial(a.sch, g.pub, msg, psig)
		}
		if ok {
			sb.WriteByte('1')
		} else {
			sb.WriteByte('0')
		}
	}
	return sb.String()
}

func safeVerifyPartial(sch *crypto.Scheme, pub *share.PubPoly, msg, psig []byte) (ok bool) {
	defer func() {
		if recover() != nil {
			ok = false
		}
	}()
	return sch.ThresholdScheme.VerifyPartial(pub, msg, psig) == nil
}

func (a *aggSUT) peerCtx() context.Context {
	return peer.NewContext(a.ctx, &peer.Peer{Addr: &gonet.TCPAddr{IP: gonet.IPv4(203, 0, 113, 7), Port: 4444}})
}

const settleTimeout = 20 * time.Second

// settle: when it returns, the aggregator has fully processed everything delivered so far, including the
// notifications of the beacons it or the sync path stored meanwhile.
func (a *aggSUT) settle() error {
	push := func() error {
		done := make(chan struct{})
		go func() {
			for i := 0; i < 11; i++ {
				a.h.VerifNewValidPartial(a.ctx, "sentinel", &drand.PartialBeaconPacket{Round: 0})
			}
			close(done)
		}()
		select {
		case <-done:
			return nil
		case <-time.After(settleTimeout):
			return errors.New("settle-timeout: aggregator does not drain its partial channel")
		}
	}
	if err := push(); err != nil {
		return err
	}
	if !a.h.VerifCallbackBarrier("chainstore", settleTimeout) {
		return errors.New("settle-timeout: chainstore callback worker")
	}
	deadline := time.Now().Add(settleTimeout)
	for {
		_, st := a.h.VerifQueueLens()
		if st == 0 {
			break
		}
		if time.Now().After(deadline) {
			return errors.New("settle-timeout: stored-beacon channel not drained")
		}
		time.Sleep(50 * time.Microsecond)
	}
	return push()
}

func showPuts(a *aggSUT) (left, right string) {
	ps := a.base.take()
	if len(ps) == 0 {
		return "puts=-", "pv=-"
	}
	var l, r []string
	for i := range ps {
		b := ps[i]
		l = append(l, fmt.Sprintf("%d:%s:%s", b.Round, hx(b.Signature), hx(b.PreviousSig)))
		if b.Round == 0 || a.verifyBeacon(&b) {
			r = append(r, "1")
		} else {
			r = append(r, "0")
		}
	}
	return "puts=" + strings.Join(l, ","), "pv=" + strings.Join(r, ",")
}

func classifyAdmit(err error) string {
	if err == nil {
		return "ok"
	}
	m := err.Error()
	switch {
	case strings.Contains(m, "invalid round:"):
		return "err-future"
	case strings.Contains(m, "invalid partial signature length"), strings.Contains(m, "unexpected EOF"), m == "EOF":
		return "err-index"
	case strings.Contains(m, "invalid index"):
		return "err-neg-index"
	case strings.Contains(m, "not in the group file"):
		return "err-not-member"
	case strings.Contains(m, "invalid own index"):
		return "err-own-addr"
	}
	return "err-invalid" // whatever VerifyPartial answered
}

func (a *aggSUT) close() {
	if a == nil {
		return
	}
	if a.h != nil {
		done := make(chan struct{})
		go func() { a.h.Stop(context.Background()); close(done) }()
		select {
		case <-done:
		case <-time.After(5 * time.Second):
		}
	}
	if a.dir != "" {
		os.RemoveAll(a.dir)
	}
}

// init <scheme> <n> <thr> <backend bolt|mem> <seedhex> <polyseed> [<thr>:<polythr>:<maskhex>:<swap01>]...
func aggInit(f []string) (*aggSUT, string) {
	sch := mustScheme(f[1])
	n, _ := strconv.Atoi(f[2])
	thr, _ := strconv.Atoi(f[3])
	a := &aggSUT{sch: sch, n: n, chained: sch.Name == crypto.DefaultSchemeID, seed: unhx(f[5]), trueSigs: map[uint64][]byte{},
		period: 3 * time.Second, genesis: 1700000000, ctx: context.Background(), cli: &aggClient{}}
	dr := &detReader{seed: sha256.Sum256([]byte("verif-agg-" + f[6] + "-" + f[1]))}
	rnd := random.New(dr)
	a.secret = sch.KeyGroup.Scalar().Pick(rnd)
	a.groupKey = sch.KeyGroup.Point().Mul(a.secret, nil)
	privs := make([]*key.Pair, n)
	for i := 0; i < n; i++ {
		p, err := key.NewKeyPair(fmt.Sprintf("127.0.0.1:%d", 8100+i), sch)
		if err != nil {
			panic(err)
		}
		privs[i] = p
	}
	specs := []string{fmt.Sprintf("%d:%d:%x:0", thr, thr, (1<<uint(n))-1)}
	specs = append(specs, f[7:]...)
	for _, sp := range specs {
		q := strings.Split(sp, ":")
		gthr, _ := strconv.Atoi(q[0])
		pthr, _ := strconv.Atoi(q[1])
		mask, _ := strconv.ParseUint(q[2], 16, 64)
		swap := q[3] == "1"
		pri := share.NewPriPoly(sch.KeyGroup, pthr, a.secret, rnd)
		pub := pri.Commit(sch.KeyGroup.Point().Base())
		_, commits := pub.Info()
		g := &aggGroup{pub: pub, shares: pri.Shares(n), member: make([]bool, n), thr: gthr, polyThr: pthr}
		var nodes []*key.Node
		for i := 0; i < n; i++ {
			if mask&(1<<uint(i)) == 0 {
				continue
			}
			g.member[i] = true
			id := i
			if swap && i == 0 {
				id = 1
			} else if swap && i == 1 {
				id = 0
			}
			nodes = append(nodes, &key.Node{Index: uint32(i), Identity: privs[id].Public})
		}
		g.group = &key.Group{Nodes: nodes, Threshold: gthr, PublicKey: &key.DistPublic{Coefficients: commits},
			Period: a.period, CatchupPeriod: a.period / 2, GenesisTime: a.genesis, GenesisSeed: a.seed, Scheme: sch, ID: "default"}
		g.own = &key.Share{DistKeyShare: dkg.DistKeyShare{Commits: commits, Share: g.shares[0]}, Scheme: sch}
		if !pub.Commit().Equal(a.groupKey) {
			panic("group key differs between polynomials")
		}
		a.groups = append(a.groups, g)
	}
	// sanity of the labelling machinery: the AuthScheme signature under the secret is the threshold scheme's group signature
	if err := sch.ThresholdScheme.VerifyRecovered(a.groupKey, a.digest(1, a.seed), a.groupSig(1, a.seed)); err != nil {
		panic("group signature labelling broken: " + err.Error())
	}
	ctx := context.Background()
	if a.chained {
		ctx = chain.SetPreviousRequiredOnContext(ctx)
	}
	var base chain.Store
	if f[4] == "mem" {
		base = memdb.NewStore(2000)
	} else {
		a.dir = tmpDir()
		s, err := boltdb.NewBoltStore(ctx, quietLogger(), a.dir)
		if err != nil {
			panic(err)
		}
		base = s
	}
	a.ctx = ctx
	a.base = &logStore{Store: base}
	a.clk = clock.NewFakeClockAt(time.Unix(a.genesis, 0))
	g0 := a.groups[0]
	conf := &beacon.Config{Public: g0.group.Find(privs[0].Public), Share: g0.own, Group: g0.group, Clock: a.clk}
	if conf.Public == nil {
		panic("node 0 not in group 0")
	}
	h, err := beacon.NewHandler(ctx, a.cli, a.base, conf, quietLogger(), common.GetAppVersion())
	if err != nil {
		panic(err)
	}
	a.h = h
	a.bp = core.VerifBeaconProcess(h, g0.group, quietLogger())
	if err := a.settle(); err != nil {
		a.dead = true
		return a, "panic:" + err.Error()
	}
	l, r := showPuts(a)
	sl := sch.SigGroup.PointLen()
	ch := 0
	if a.chained {
		ch = 1
	}
	return a, fmt.Sprintf("ok %s | %s sigLen=%d chained=%d own=%d", l, r, sl, ch, h.VerifOwnIndex())
}

// makePartial: deliver j k round P sround sP patch trunc flip
func (a *aggSUT) makePartial(f []string) *drand.PartialBeaconPacket {
	j, _ := strconv.Atoi(f[1])
	k, _ := strconv.Atoi(f[2])
	round, _ := strconv.ParseUint(f[3], 10, 64)
	prev := a.prevOf(f[4])
	sround, _ := strconv.ParseUint(f[5], 10, 64)
	sprev := a.prevOf(f[6])
	psig, err := a.sch.ThresholdScheme.Sign(a.groups[k].shares[j], a.digest(sround, sprev))
	if err != nil {
		panic(err)
	}
	if f[7] != "-" {
		idx, _ := strconv.Atoi(f[7])
		binary.BigEndian.PutUint16(psig[:2], uint16(idx))
	}
	if f[8] != "-" {
		l, _ := strconv.Atoi(f[8])
		if l < len(psig) {
			psig = psig[:l]
		}
	}
	if f[9] != "-" {
		bit, _ := strconv.Atoi(f[9])
		bit %= len(psig) * 8
		psig[bit/8] ^= 1 << uint(bit%8)
	}
	return &drand.PartialBeaconPacket{Round: round, PreviousSignature: prev, PartialSig: psig,
		Metadata: &drand.Metadata{BeaconID: "default"}}
}

func (a *aggSUT) pktLabels(p *drand.PartialBeaconPacket) string {
	idx := -1
	if i, err := a.sch.ThresholdScheme.IndexOf(p.GetPartialSig()); err == nil {
		idx = i
	}
	return fmt.Sprintf("pkt %d %s %s idx=%d vp=%s gs=%s", p.GetRound(), hx(p.GetPreviousSignature()), hx(p.GetPartialSig()), idx,
		a.vpBits(p.GetRound(), p.GetPreviousSignature(), p.GetPartialSig()), hx(a.groupSig(p.GetRound(), p.GetPreviousSignature())))
}

func (a *aggSUT) finish(left, right string) string {
	if err := a.settle(); err != nil {
		a.dead = true
		return "panic:" + err.Error()
	}
	l, r := showPuts(a)
	return left + " " + l + " | " + r + " " + right
}

func (a *aggSUT) beaconOf(r uint64, sym string, variant string) (*common.Beacon, bool, bool) {
	b := &common.Beacon{Round: r, Signature: append([]byte{}, a.trueSig(r)...), PreviousSig: a.prevOf(sym)}
	idOk, nilMeta := true, false
	for len(variant) > 0 {
		c := variant[0]
		rest := variant[1:]
		num := func() int {
			i := 0
			for i < len(rest) && rest[i] >= '0' && rest[i] <= '9' {
				i++
			}
			v, _ := strconv.Atoi(rest[:i])
			rest = rest[i:]
			return v
		}
		switch c {
		case 'v':
		case 'f':
			bit := num() % (len(b.Signature) * 8)
			b.Signature[bit/8] ^= 1 << uint(bit%8)
		case 'w':
			b.Signature = append([]byte{}, a.trueSig(uint64(num()))...)
		case 'x':
			idOk = false
		case 'n':
			nilMeta = true
		default:
			panic("bad beacon variant " + variant)
		}
		variant = rest
	}
	return b, idOk, nilMeta
}

func showServed(a *aggSUT, items []string) (left, right string) {
	if len(items) == 0 {
		return "-", "-"
	}
	var l, r []string
	for _, it := range items {
		q := strings.Split(it, ":")
		rd, _ := strconv.ParseUint(q[0], 10, 64)
		b := &common.Beacon{Round: rd, Signature: unhx(q[1]), PreviousSig: unhx(q[2])}
		l = append(l, q[0]+":"+q[1]+":"+q[2])
		v := "0"
		if rd == 0 || a.verifyBeacon(b) {
			v = "1"
		}
		r = append(r, v+"/"+q[3])
	}
	return strings.Join(l, ","), strings.Join(r, ",")
}

func (a *aggSUT) readRes(b *common.Beacon, err error, rnd []byte, withRnd bool) string {
	if err != nil || b == nil {
		left := "none"
		if err != nil && (strings.Contains(err.Error(), "deadline exceeded") || strings.Contains(err.Error(), "context canceled")) {
			left = "timeout"
		} else if err != nil && !strings.Contains(err.Error(), "no beacon") && !strings.Contains(err.Error(), "can't retrieve") {
			left = "err"
		}
		return a.finish(left, "v=-")
	}
	v := "0"
	if b.Round == 0 || a.verifyBeacon(b) {
		v = "1"
	}
	right := "v=" + v
	if withRnd {
		right += " rnd=" + hx(rnd)
	}
	return a.finish(fmt.Sprintf("%d:%s:%s", b.Round, hx(b.Signature), hx(b.PreviousSig)), right)
}

func aggEngine(args []string, in *bufio.Scanner, out *bufio.Writer) {
	var a *aggSUT
	defer func() { a.close() }()
	for in.Scan() {
		f := fields(in.Text())
		if len(f) == 0 {
			continue
		}
		res := safely(func() string {
			if f[0] == "init" {
				a.close()
				var r string
				a, r = aggInit(f)
				return r
			}
			if a == nil || a.dead {
				return "panic:dead"
			}
			switch f[0] {
			case "tick":
				next, _ := strconv.ParseInt(f[1], 10, 64)
				target := time.Unix(a.genesis, 0).Add(time.Duration(next-2) * a.period)
				if next < 2 || target.Before(a.clk.Now()) {
					return "bad-op"
				}
				a.clk.Advance(target.Sub(a.clk.Now()))
				return a.finish("ok", "")
			case "setinfo":
				k, _ := strconv.Atoi(f[1])
				a.h.VerifSetInfo(a.groups[k].group, a.groups[k].own)
				a.live = k
				return a.finish("ok", "")
			case "deliver", "replay":
				var p *drand.PartialBeaconPacket
				if f[0] == "replay" {
					k, _ := strconv.Atoi(f[1])
					if len(a.history) == 0 {
						return "bad-op"
					}
					p = a.history[k%len(a.history)]
				} else {
					p = a.makePartial(f)
				}
				a.history = append(a.history, p)
				_, err := a.h.ProcessPartialBeacon(a.peerCtx(), p)
				return a.finish(classifyAdmit(err), a.pktLabels(p))
			case "own":
				cur, _ := strconv.ParseUint(f[1], 10, 64)
				// what broadcastNextPartial has to sign, computed independently
				last, err := a.h.Store().Last(a.ctx)
				if err != nil {
					return "err:" + err.Error()
				}
				a.cli.mu.Lock()
				a.cli.bcast = nil
				a.cli.mu.Unlock()
				if last.Round > cur {
					// the head is ahead of the tick's round: nothing may be signed, queued or broadcast
					if err := a.h.VerifBroadcastNextPartial(a.ctx, cur); err != nil {
						return "err:" + err.Error()
					}
					res := a.finish("ok", "none")
					emitted := 0
					deadline := time.Now().Add(30 * time.Millisecond)
					for time.Now().Before(deadline) && emitted == 0 {
						a.cli.mu.Lock()
						emitted = len(a.cli.bcast)
						a.cli.mu.Unlock()
						time.Sleep(500 * time.Microsecond)
					}
					return res + " emitted=" + bit(emitted > 0)
				}
				round, prev := last.Round+1, []byte(last.Signature)
				if cur == last.Round {
					round, prev = cur, last.PreviousSig
				}
				psig, _ := a.sch.ThresholdScheme.Sign(a.groups[a.live].shares[a.h.VerifOwnIndex()], a.digest(round, prev))
				if err := a.h.VerifBroadcastNextPartial(a.ctx, cur); err != nil {
					return "err:" + err.Error()
				}
				// the broadcast goroutines: wait (bounded) for the first send to a peer; all sends carry the same packet
				var got []*drand.PartialBeaconPacket
				peers := len(a.groups[a.live].group.Nodes) - 1
				deadline := time.Now().Add(settleTimeout)
				for peers > 0 {
					a.cli.mu.Lock()
					got = append([]*drand.PartialBeaconPacket{}, a.cli.bcast...)
					a.cli.mu.Unlock()
					if len(got) > 0 || time.Now().After(deadline) {
						break
					}
					time.Sleep(100 * time.Microsecond)
				}
				p := &drand.PartialBeaconPacket{Round: round, PreviousSignature: prev, PartialSig: psig}
				same := "-"
				if len(got) > 0 {
					same = bit(got[0].GetRound() == round && bytes.Equal(got[0].GetPreviousSignature(), prev) && bytes.Equal(got[0].GetPartialSig(), psig))
				} else if peers > 0 {
					same = "0"
				}
				a.history = append(a.history, p)
				return a.finish("ok", a.pktLabels(p)+" bcsame="+same)
			case "syncput":
				r, _ := strconv.ParseUint(f[1], 10, 64)
				b, _, _ := a.beaconOf(r, f[2], "v")
				lab := fmt.Sprintf("b %d %s %s vb=%s gs=%s", b.Round, hx(b.Signature), hx(b.PreviousSig), bit(a.verifyBeacon(b)), hx(a.groupSig(b.Round, b.PreviousSig)))
				err := a.h.Store().Put(a.ctx, b)
				return a.finish(classifyPut(err), lab)
			case "trynode":
				upTo, _ := strconv.ParseUint(f[1], 10, 64)
				var script []*drand.BeaconPacket
				var labs []string
				for _, spec := range f[2:] {
					q := strings.Split(spec, ":")
					r, _ := strconv.ParseUint(q[0], 10, 64)
					b, idOk, nilMeta := a.beaconOf(r, q[1], q[2])
					pk := &drand.BeaconPacket{Round: b.Round, Signature: b.Signature, PreviousSignature: b.PreviousSig, Metadata: &drand.Metadata{BeaconID: "default"}}
					if !idOk {
						pk.Metadata.BeaconID = "some-other-chain"
					}
					if nilMeta {
						pk.Metadata = nil
						idOk = true
					}
					script = append(script, pk)
					labs = append(labs, fmt.Sprintf("%d,%s,%s,%s,%s,%s", b.Round, hx(b.Signature), hx(b.PreviousSig), bit(idOk), bit(a.verifyBeacon(b)), hx(a.groupSig(b.Round, b.PreviousSig))))
				}
				a.cli.mu.Lock()
				a.cli.script = script
				a.cli.armed = true
				a.cli.mu.Unlock()
				ok := a.h.VerifTryNode(a.ctx, upTo, &aggPeer{scriptedPeer})
				return a.finish(fmt.Sprint(ok), "pk "+strings.Join(labs, " "))
			case "get":
				r, _ := strconv.ParseUint(f[1], 10, 64)
				b, err := a.h.Store().Get(a.ctx, r)
				return a.readRes(b, err, nil, false)
			case "last":
				b, err := a.h.Store().Last(a.ctx)
				return a.readRes(b, err, nil, false)
			case "scan":
				var items []string
				err := a.h.Store().Cursor(a.ctx, func(ctx context.Context, cur chain.Cursor) error {
					for b, err := cur.First(ctx); err == nil && b != nil; b, err = cur.Next(ctx) {
						items = append(items, fmt.Sprintf("%d:%s:%s:-", b.Round, hx(b.Signature), hx(b.PreviousSig)))
					}
					return nil
				})
				if err != nil {
					return "err:" + err.Error()
				}
				l, r := showServed(a, items)
				return a.finish(l, "v="+r)
			case "pubrand", "proxyget":
				r, _ := strconv.ParseUint(f[1], 10, 64)
				// only a request for head+1 blocks (until the next beacon or the deadline): give that one a short deadline,
				// every other request a generous one so that a loaded machine cannot turn a Get into a timeout
				to := settleTimeout
				if last, err := a.h.Store().Last(a.ctx); err == nil && r == last.Round+1 {
					to = 150 * time.Millisecond
				}
				ctx, cancel := context.WithTimeout(a.peerCtx(), to)
				defer cancel()
				if f[0] == "pubrand" {
					resp, err := a.bp.PublicRand(ctx, &drand.PublicRandRequest{Round: r})
					if err != nil {
						if strings.Contains(err.Error(), "waiting for next beacon") {
							return a.finish("wait", "v=-")
						}
						return a.readRes(nil, err, nil, false)
					}
					return a.readRes(&common.Beacon{Round: resp.GetRound(), Signature: resp.GetSignature(), PreviousSig: resp.GetPreviousSignature()}, nil, resp.GetRandomness(), true)
				}
				res, err := core.VerifProxy(a.bp).Get(ctx, r)
				if err != nil {
					if strings.Contains(err.Error(), "waiting for next beacon") {
						return a.finish("wait", "v=-")
					}
					return a.readRes(nil, err, nil, false)
				}
				var pv []byte
				if pr, ok := res.(*drand.PublicRandResponse); ok {
					pv = pr.GetPreviousSignature()
				}
				return a.readRes(&common.Beacon{Round: res.GetRound(), Signature: res.GetSignature(), PreviousSig: pv}, nil, res.GetRandomness(), true)
			case "serve":
				// serve <from> <sync|pub> [<r> <P>]   (optional: a sync put while the stream is live)
				from, _ := strconv.ParseUint(f[1], 10, 64)
				ctx, cancel := context.WithCancel(a.peerCtx())
				defer cancel()
				cs := &capStream{ctx: ctx}
				ret := make(chan error, 1)
				go func() {
					if f[2] == "pub" {
						ret <- a.bp.PublicRandStream(&drand.PublicRandRequest{Round: from}, &capPubStream{cs})
					} else {
						ret <- beacon.SyncChain(quietLogger(), a.h.Store(), &drand.SyncRequest{FromRound: from, Metadata: &drand.Metadata{BeaconID: "default"}}, cs)
					}
				}()
				var cbID string
				var rerr error
				returned := false
				deadline := time.Now().Add(settleTimeout)
			wait:
				for {
					select {
					case rerr = <-ret:
						returned = true
						break wait
					default:
					}
					for _, id := range a.h.VerifCallbackIDs() {
						if strings.HasPrefix(id, "SyncChain-") {
							cbID = id
							break wait
						}
					}
					if time.Now().After(deadline) {
						return "panic:serve-timeout"
					}
					time.Sleep(50 * time.Microsecond)
				}
				scanned := cs.list()
				putRes, lab := "-", ""
				if !returned && len(f) >= 5 {
					r, _ := strconv.ParseUint(f[3], 10, 64)
					b, _, _ := a.beaconOf(r, f[4], "v")
					lab = fmt.Sprintf(" b %d %s %s vb=%s gs=%s", b.Round, hx(b.Signature), hx(b.PreviousSig), bit(a.verifyBeacon(b)), hx(a.groupSig(b.Round, b.PreviousSig)))
					putRes = classifyPut(a.h.Store().Put(a.ctx, b))
					if !a.h.VerifCallbackBarrier(cbID, settleTimeout) {
						return "panic:serve-barrier-timeout"
					}
				}
				all := cs.list()
				if !returned {
					cancel()
					select {
					case rerr = <-ret:
					case <-time.After(settleTimeout):
						return "panic:serve-return-timeout"
					}
				}
				cls := "live"
				if returned {
					cls = "err"
					if rerr != nil && strings.Contains(rerr.Error(), "no beacon") {
						cls = "too-far"
					}
				}
				l1, r1 := showServed(a, scanned)
				l2, r2 := showServed(a, all[len(scanned):])
				return a.finish(fmt.Sprintf("%s scan=%s live=%s put=%s", cls, l1, l2, putRes), fmt.Sprintf("v=%s lv=%s%s", r1, r2, lab))
			}
			return "bad-op"
		})
		fmt.Fprintln(out, res)
		out.Flush()
	}
}

func bit(b bool) string {
	if b {
		return "1"
	}
	return "0"
}

var _ = sort.Strings
var _ io.Reader = (*detReader)(nil)
