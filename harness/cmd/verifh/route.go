//go:build verif

package main

// Engine "route" (C19): one REAL DrandDaemon (NewDrandDaemon on loopback, memdb storage) whose routing
// tables are changed only by the real control entry points (LoadBeacon, LoadBeaconsFromDisk, Shutdown) and the
// real DKG-completion path (storeDKGOutput -> dkgCallback), and queried through the real readBeaconID /
// getBeaconProcessFromRequest, the real gRPC service methods and the real HTTP handler.
//
// op lines (tokens separated by blanks; "-" is the empty string / absent value):
//   reset                                 stop everything, empty the tables and the disk
//   disk <id> none|nokey|fresh|grp:<label>=<hash>|bad:<label>=<hash>
//   load <id|-> <hashhex|->               LoadBeacon control call with that metadata
//   boot all | boot single <name|->       LoadBeaconsFromDisk
//   stop <id> <hashhex|->                 Shutdown control call (beacon id must be non-empty)
//   dkg <id> <label>=<hash>               DKG completion on the process registered under <id>
//   req <id|-|nil> <hashhex|->            resolve a request + call the service methods
//   http <hashpath|-> | http chains       HTTP handler table
//   tabs                                  dump of the three tables
// Everything after " ;; " in an answer is an observation for the property oracle only (not predicted by the model).

import (
	"bufio"
	"bytes"
	"context"
	"crypto/sha256"
	"encoding/hex"
	"encoding/json"
	"errors"
	"fmt"
	"io"
	nethttp "net/http"
	"net/http/httptest"
	"os"
	"path"
	"sort"
	"strconv"
	"strings"
	"time"

	"github.com/drand/kyber"
	"github.com/drand/kyber/share"
	kdkg "github.com/drand/kyber/share/dkg"

	"github.com/drand/drand/v2/common"
	chain2 "github.com/drand/drand/v2/common/chain"
	"github.com/drand/drand/v2/common/key"
	"github.com/drand/drand/v2/crypto"
	"github.com/drand/drand/v2/internal/core"
	"github.com/drand/drand/v2/protobuf/drand"
)

func init() {
	engines["route"] = routeEngine
	engines["route-groups"] = routeGroupsEngine
}

type grpDef struct {
	gid    string
	pub    *key.DistPublic
	share  *key.Share
	seed   []byte
	hash   string
	period time.Duration
	gen    int64
}

type routeEnv struct {
	dd      *core.DrandDaemon
	base    string // multibeacon folder
	sch     *crypto.Scheme
	genesis int64
	period  time.Duration
	pairs   map[string]*key.Pair
	other   *key.Pair
	owner   map[string]string // hex(identity key) -> id
	groups  map[string]*grpDef
	genOf   map[*core.BeaconProcess]int
	count   map[string]int
	ctx     context.Context
}

func labelGID(label string) string {
	i := strings.LastIndex(label, ".")
	if i < 0 {
		return label
	}
	return label[:i]
}

// grp builds (once) the chain parameters of a label "<group id>.<variant>": a 1-of-1 distributed key derived
// from the label, fixed period/genesis, a seed derived from the label.
func (e *routeEnv) grp(label string) *grpDef {
	if g, ok := e.groups[label]; ok {
		return g
	}
	h := sha256.Sum256([]byte("verif-c19-key:" + label))
	s := e.sch.KeyGroup.Scalar().SetBytes(h[:])
	pk := e.sch.KeyGroup.Point().Mul(s, nil)
	seed := sha256.Sum256([]byte("verif-c19-seed:" + labelGID(label)))
	g := &grpDef{gid: labelGID(label), seed: seed[:], period: e.period, gen: e.genesis}
	g.pub = &key.DistPublic{Coefficients: []kyberPoint{pk}}
	g.share = &key.Share{DistKeyShare: kdkg.DistKeyShare{Commits: []kyberPoint{pk}, Share: &share.PriShare{I: 0, V: s}}, Scheme: e.sch}
	g.hash = chain2.NewChainInfo(e.group(g, nil)).HashString()
	e.groups[label] = g
	return g
}

// group instantiates the key.Group of a label with `member` as its only node.
func (e *routeEnv) group(g *grpDef, member *key.Pair) *key.Group {
	grp := &key.Group{
		Threshold:     1,
		Period:        g.period,
		Scheme:        e.sch,
		ID:            g.gid,
		CatchupPeriod: g.period / 2,
		GenesisTime:   g.gen,
		GenesisSeed:   g.seed,
		PublicKey:     g.pub,
	}
	if member != nil {
		grp.Nodes = []*key.Node{{Identity: member.Public, Index: 0}}
	}
	return grp
}

func (e *routeEnv) pair(id string) *key.Pair {
	if p, ok := e.pairs[id]; ok {
		return p
	}
	p, err := key.NewKeyPair("127.0.0.1:1", e.sch)
	if err != nil {
		panic(err)
	}
	e.pairs[id] = p
	kb, _ := p.Public.Key.MarshalBinary()
	e.owner[hex.EncodeToString(kb)] = id
	return p
}

func newRouteEnv(periodS, genesis int64) *routeEnv {
	sch, err := crypto.SchemeFromName(crypto.DefaultSchemeID)
	if err != nil {
		panic(err)
	}
	folder := tmpDir()
	cfg := core.NewConfig(quietLogger(),
		core.WithConfigFolder(folder),
		core.WithPrivateListenAddress("127.0.0.1:0"),
		core.WithControlPort("0"),
		core.WithDBStorageEngine(core.VerifMemDB),
		core.WithMemDBSize(100),
	)
	ctx := context.Background()
	dd, err := core.NewDrandDaemon(ctx, cfg)
	if err != nil {
		panic(fmt.Sprint("NewDrandDaemon: ", err))
	}
	dd.VerifStubDKG()
	e := &routeEnv{dd: dd, base: cfg.ConfigFolderMB(), sch: sch, pairs: map[string]*key.Pair{}, owner: map[string]string{},
		groups: map[string]*grpDef{}, genOf: map[*core.BeaconProcess]int{}, count: map[string]int{}, ctx: ctx}
	e.period = time.Duration(periodS) * time.Second
	e.genesis = genesis
	if err := os.MkdirAll(e.base, 0o700); err != nil {
		panic(err)
	}
	e.other, _ = key.NewKeyPair("127.0.0.1:2", sch)
	return e
}

type kyberPoint = kyber.Point

var errClasses = []struct{ sub, class string }{
	{"invalid chain hash", "mismatch"},
	{"is not running", "not-running"},
	{"is already running", "already-running"},
	{"could not restore beacon info", "not-in-group"},
	{"no such file or directory", "no-key"},
	{"no dkg group setup yet", "no-group"},
	{"beacon generation not started", "no-beacon"},
}

func routeErr(err error) string {
	if err == nil {
		return "ok"
	}
	if errors.Is(err, common.ErrUnknownChainhash) {
		return "err:unknown-hash"
	}
	if errors.Is(err, core.ErrDKGNotStarted) {
		return "err:dkg-not-started"
	}
	msg := err.Error()
	for _, c := range errClasses {
		if strings.Contains(msg, c.sub) {
			return "err:" + c.class
		}
	}
	return "err:other:" + strings.ReplaceAll(strings.ReplaceAll(msg, " ", "_"), "\n", "_")
}

func tok(s string) string {
	if s == "-" {
		return ""
	}
	return s
}

func untok(s string) string {
	if s == "" {
		return "-"
	}
	return s
}

func (e *routeEnv) metadata(id, hash string) *drand.Metadata {
	if id == "nil" {
		return nil
	}
	md := &drand.Metadata{BeaconID: tok(id)}
	if hash != "-" {
		md.ChainHash = unhx(hash)
	}
	return md
}

// name gives a process object its observable name "<own beacon id>#<n-th instantiation of that id>".
func (e *routeEnv) name(bp *core.BeaconProcess) string {
	if bp == nil {
		return "?"
	}
	if g, ok := e.genOf[bp]; ok {
		return fmt.Sprintf("%s#%d", bp.VerifBeaconID(), g)
	}
	return bp.VerifBeaconID() + "#?"
}

// observe numbers the process objects that appeared in the table since the last op.
func (e *routeEnv) observe() {
	procs := e.dd.VerifProcs()
	ids := make([]string, 0, len(procs))
	for id := range procs {
		ids = append(ids, id)
	}
	sort.Strings(ids)
	for _, id := range ids {
		bp := procs[id]
		if _, ok := e.genOf[bp]; !ok {
			e.count[bp.VerifBeaconID()]++
			e.genOf[bp] = e.count[bp.VerifBeaconID()]
		}
	}
}

func splitLabel(t string) (label, hash string) {
	i := strings.Index(t, "=")
	if i < 0 {
		return t, ""
	}
	return t[:i], t[i+1:]
}

func (e *routeEnv) disk(id, what string) string {
	id = common.GetCanonicalBeaconID(tok(id))
	if _, running := e.dd.VerifProcs()[id]; running {
		return "busy" // the operator does not rewrite the key folder of a running chain
	}
	dir := path.Join(e.base, id)
	switch {
	case what == "none":
		if err := os.RemoveAll(dir); err != nil {
			return "err:" + err.Error()
		}
		return "ok"
	case what == "nokey":
		_ = os.RemoveAll(dir)
		key.NewFileStore(e.base, id)
		return "ok"
	case what == "fresh":
		_ = os.RemoveAll(dir)
		st := key.NewFileStore(e.base, id)
		if err := st.SaveKeyPair(e.pair(id)); err != nil {
			return "err:" + err.Error()
		}
		return "ok"
	case strings.HasPrefix(what, "grp:") || strings.HasPrefix(what, "bad:"):
		if strings.Count(what, "=") != 1 {
			return "bad-op"
		}
		label, hash := splitLabel(what[4:])
		g := e.grp(label)
		if g.hash != hash {
			return "bad-label-hash"
		}
		_ = os.RemoveAll(dir)
		st := key.NewFileStore(e.base, id)
		if err := st.SaveKeyPair(e.pair(id)); err != nil {
			return "err:" + err.Error()
		}
		member := e.pair(id)
		if what[0] == 'b' {
			member = e.other
		}
		if err := st.SaveGroup(e.group(g, member)); err != nil {
			return "err:" + err.Error()
		}
		if err := st.SaveShare(g.share); err != nil {
			return "err:" + err.Error()
		}
		return "ok"
	}
	return "bad-op"
}

func (e *routeEnv) reset() string {
	for _, bp := range e.dd.VerifProcs() {
		bp.Stop(e.ctx)
	}
	e.dd.VerifResetTables()
	ents, _ := os.ReadDir(e.base)
	for _, f := range ents {
		_ = os.RemoveAll(path.Join(e.base, f.Name()))
	}
	e.genOf = map[*core.BeaconProcess]int{}
	e.count = map[string]int{}
	return "ok"
}

func (e *routeEnv) tabs() string {
	procs := e.dd.VerifProcs()
	var ps []string
	for id, bp := range procs {
		s := id + ">" + e.name(bp) + ":" + untok(bp.VerifGroupHash())
		ps = append(ps, s)
	}
	sort.Strings(ps)
	var hs []string
	for h, id := range e.dd.VerifChainHashes() {
		hs = append(hs, h+">"+untok(id))
	}
	sort.Strings(hs)
	clients, handlers := e.dd.VerifHandler().VerifTable()
	var ts []string
	for k, c := range clients {
		ts = append(ts, k+">"+e.name(core.VerifProxyTarget(c)))
	}
	sort.Strings(ts)
	// oracle-only: does the default entry share the handler object of a chain-hash entry
	shared := "-"
	if dh, ok := handlers[common.DefaultChainHash]; ok {
		shared = "none"
		for k, h := range handlers {
			if k != common.DefaultChainHash && h == dh {
				shared = k
			}
		}
	}
	return fmt.Sprintf("procs=[%s] hashes=[%s] http=[%s] ;; default-shares=%s", strings.Join(ps, ","), strings.Join(hs, ","), strings.Join(ts, ","), shared)
}

func (e *routeEnv) infoHash(p *drand.ChainInfoPacket) string {
	info, err := chain2.InfoFromProto(p)
	if err != nil {
		return "undecodable"
	}
	return info.HashString()
}

func (e *routeEnv) ownerOf(k []byte) string {
	if id, ok := e.owner[hex.EncodeToString(k)]; ok {
		return id
	}
	return "unknown-key"
}

func (e *routeEnv) req(id, hash string) string {
	md := e.metadata(id, hash)
	rid, err := e.dd.VerifReadBeaconID(md)
	first := "id=" + rid
	if err != nil {
		first = "id=" + routeErr(err)
	}
	meta := "nil"
	if md != nil {
		meta = untok(md.GetBeaconID())
	}
	bp, err := e.dd.VerifRoute(e.metadata(id, hash))
	if err != nil {
		return fmt.Sprintf("%s meta=%s proc=%s", first, meta, routeErr(err))
	}
	res := fmt.Sprintf("%s meta=%s proc=%s", first, meta, e.name(bp))
	// oracle-only observations: what the real service methods answer for this very request
	obs := []string{"bp=" + bp.VerifBeaconID() + ":" + untok(bp.VerifGroupHash())}
	if ci, err := e.dd.ChainInfo(e.ctx, &drand.ChainInfoRequest{Metadata: e.metadata(id, hash)}); err != nil {
		obs = append(obs, "ci="+routeErr(err))
	} else {
		obs = append(obs, "ci="+e.infoHash(ci))
	}
	if r, err := e.dd.GetIdentity(e.ctx, &drand.IdentityRequest{Metadata: e.metadata(id, hash)}); err != nil {
		obs = append(obs, "idn="+routeErr(err))
	} else {
		obs = append(obs, "idn="+e.ownerOf(r.GetKey()))
	}
	if r, err := e.dd.GroupFile(e.ctx, &drand.GroupRequest{Metadata: e.metadata(id, hash)}); err != nil {
		obs = append(obs, "grp="+routeErr(err))
	} else if g, err := key.GroupFromProto(r, nil); err != nil {
		obs = append(obs, "grp=undecodable")
	} else {
		obs = append(obs, "grp="+chain2.NewChainInfo(g).HashString())
	}
	if r, err := e.dd.PublicKey(e.ctx, &drand.PublicKeyRequest{Metadata: e.metadata(id, hash)}); err != nil {
		obs = append(obs, "pk="+routeErr(err))
	} else {
		obs = append(obs, "pk="+e.ownerOf(r.GetPubKey()))
	}
	// (the status content depends on goroutine timing; only the routing outcome is observed)
	if _, err := e.dd.Status(e.ctx, &drand.StatusRequest{Metadata: e.metadata(id, hash)}); err != nil {
		obs = append(obs, "st="+routeErr(err))
	} else {
		obs = append(obs, "st=ok")
	}
	if r, err := e.dd.PublicRand(e.ctx, &drand.PublicRandRequest{Metadata: e.metadata(id, hash)}); err != nil {
		obs = append(obs, "rand="+routeErr(err))
	} else {
		obs = append(obs, "rand="+e.verifiedBy(r.GetRound(), r.GetSignature(), r.GetPreviousSignature()))
	}
	return res + " ;; " + strings.Join(obs, " ")
}

// verifiedBy names the label(s) whose distributed public key verifies the beacon: "r<round>:<labels>".
func (e *routeEnv) verifiedBy(round uint64, sig, prev []byte) string {
	if round == 0 {
		return "r0:genesis"
	}
	var ok []string
	for label, g := range e.groups {
		b := &common.Beacon{Round: round, Signature: sig, PreviousSig: prev}
		if e.sch.VerifyBeacon(b, g.pub.Key()) == nil {
			ok = append(ok, label)
		}
	}
	sort.Strings(ok)
	if len(ok) == 0 {
		return fmt.Sprintf("r%d:nobody", round)
	}
	return fmt.Sprintf("r%d:%s", round, strings.Join(ok, "+"))
}

func (e *routeEnv) httpGet(p string) (int, []byte) {
	rec := httptest.NewRecorder()
	r := httptest.NewRequest(nethttp.MethodGet, p, nil)
	e.dd.VerifHandler().GetHTTPHandler().ServeHTTP(rec, r)
	b, _ := io.ReadAll(rec.Result().Body)
	return rec.Code, b
}

func (e *routeEnv) http(arg string) string {
	if arg == "chains" {
		code, body := e.httpGet("/chains")
		var hs []string
		if err := json.Unmarshal(body, &hs); err != nil {
			return fmt.Sprintf("chains=undecodable(%d)", code)
		}
		sort.Strings(hs)
		return "chains=[" + strings.Join(hs, ",") + "]"
	}
	prefix := ""
	sel := "-"
	if arg != "-" {
		prefix = "/" + arg
		raw, err := hex.DecodeString(arg)
		if err != nil {
			sel = "bad"
		} else if c, err := e.dd.VerifHandler().VerifGetBeaconHandler(raw); err == nil {
			sel = e.name(core.VerifProxyTarget(c))
		}
	} else if c, err := e.dd.VerifHandler().VerifGetBeaconHandler(nil); err == nil {
		sel = e.name(core.VerifProxyTarget(c))
	}
	code, body := e.httpGet(prefix + "/info")
	info := "-"
	if code == nethttp.StatusOK {
		if i, err := chain2.InfoFromJSON(bytes.NewReader(body)); err == nil {
			info = i.HashString()
		} else {
			info = "undecodable"
		}
	}
	lcode, lbody := e.httpGet(prefix + "/public/latest")
	latest := fmt.Sprint(lcode)
	if lcode == nethttp.StatusOK {
		var rr struct {
			Round     uint64 `json:"round"`
			Signature string `json:"signature"`
			Previous  string `json:"previous_signature"`
		}
		if err := json.Unmarshal(lbody, &rr); err == nil {
			sig, _ := hex.DecodeString(rr.Signature)
			prev, _ := hex.DecodeString(rr.Previous)
			latest += ":" + e.verifiedBy(rr.Round, sig, prev)
		} else {
			latest += ":undecodable"
		}
	}
	return fmt.Sprintf("sel=%s ;; info=%d:%s latest=%s", sel, code, info, latest)
}

func (e *routeEnv) step(f []string) string {
	switch {
	case f[0] == "reset" && len(f) == 1:
		return e.reset()
	case f[0] == "disk" && len(f) == 3:
		return e.disk(f[1], f[2])
	case f[0] == "load" && len(f) == 3:
		_, err := e.dd.LoadBeacon(e.ctx, &drand.LoadBeaconRequest{Metadata: e.metadata(f[1], f[2])})
		e.observe()
		return routeErr(err)
	case f[0] == "boot" && len(f) >= 2:
		var err error
		if f[1] == "all" && len(f) == 2 {
			err = e.dd.LoadBeaconsFromDisk(e.ctx, "", false, "")
		} else if f[1] == "single" && len(f) == 3 {
			err = e.dd.LoadBeaconsFromDisk(e.ctx, "", true, tok(f[2]))
		} else {
			return "bad-op"
		}
		e.observe()
		return routeErr(err)
	case f[0] == "stop" && len(f) == 3:
		if tok(f[1]) == "" || f[1] == "nil" {
			return "bad-op" // an empty beacon id stops the whole daemon; not a routing operation
		}
		_, err := e.dd.Shutdown(e.ctx, &drand.ShutdownRequest{Metadata: e.metadata(f[1], f[2])})
		e.observe()
		return routeErr(err)
	case f[0] == "dkg" && len(f) == 3:
		if strings.Count(f[2], "=") != 1 {
			return "bad-op"
		}
		bp, ok := e.dd.VerifProcs()[f[1]]
		if !ok {
			return "no-proc"
		}
		label, hash := splitLabel(f[2])
		g := e.grp(label)
		if g.hash != hash {
			return "bad-label-hash"
		}
		err := bp.VerifStoreDKGOutput(e.ctx, e.group(g, e.pair(bp.VerifBeaconID())), g.share)
		e.observe()
		return routeErr(err)
	case f[0] == "req" && len(f) == 3:
		return e.req(f[1], f[2])
	case f[0] == "http" && len(f) == 2:
		return e.http(f[1])
	case f[0] == "tabs" && len(f) == 1:
		return e.tabs()
	case f[0] == "sleep" && len(f) == 2:
		d, _ := time.ParseDuration(f[1])
		time.Sleep(d)
		return "ok"
	}
	return "bad-op"
}

func routeEngine(args []string, in *bufio.Scanner, out *bufio.Writer) {
	// args: <period seconds> <genesis unix time> (both enter the chain hashes, so the caller fixes them)
	periodS, _ := strconv.ParseInt(args[0], 10, 64)
	genesis, _ := strconv.ParseInt(args[1], 10, 64)
	e := newRouteEnv(periodS, genesis)
	for in.Scan() {
		f := fields(in.Text())
		if len(f) == 0 {
			continue
		}
		res := safely(func() string { return e.step(f) })
		if strings.HasPrefix(res, "panic:") && strings.Contains(res, "nil pointer dereference") {
			res = "panic:nil-deref"
		}
		fmt.Fprintln(out, res)
	}
	out.Flush()
	os.RemoveAll(path.Dir(e.base))
	os.Exit(0) // the daemon's listeners and goroutines die with the process
}

// route-groups <period seconds> <genesis> <label>…: prints "<label> <chain hash>" for each label (the hash the real code computes).
func routeGroupsEngine(args []string, in *bufio.Scanner, out *bufio.Writer) {
	sch, err := crypto.SchemeFromName(crypto.DefaultSchemeID)
	if err != nil {
		panic(err)
	}
	periodS, _ := strconv.ParseInt(args[0], 10, 64)
	genesis, _ := strconv.ParseInt(args[1], 10, 64)
	e := &routeEnv{sch: sch, groups: map[string]*grpDef{}, period: time.Duration(periodS) * time.Second, genesis: genesis}
	_ = in
	for _, l := range args[2:] {
		fmt.Fprintf(out, "%s %s\n", l, e.grp(l).hash)
	}
}
