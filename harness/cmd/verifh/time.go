//go:build verif

package main

import (
	"bufio"
	"fmt"
	"strconv"
	"time"

	"github.com/drand/drand/v2/common"
	dhttp "github.com/drand/drand/v2/handler/http"
)

func init() { engines["time"] = timeEngine }

// ops:  tor <p> <g> <round> | next <now> <p> <g> | cur <now> <p> <g>      (p in whole seconds)
func timeEngine(_ []string, in *bufio.Scanner, out *bufio.Writer) {
	for in.Scan() {
		f := fields(in.Text())
		if len(f) == 0 {
			continue
		}
		res := safely(func() string {
			switch f[0] {
			case "tor":
				p, _ := strconv.ParseInt(f[1], 10, 64)
				g, _ := strconv.ParseInt(f[2], 10, 64)
				r, _ := strconv.ParseUint(f[3], 10, 64)
				return fmt.Sprint(common.TimeOfRound(time.Duration(p)*time.Second, g, r))
			case "date": // the HTTP layer's scheduled time of a round
				p, _ := strconv.ParseInt(f[1], 10, 64)
				g, _ := strconv.ParseInt(f[2], 10, 64)
				r, _ := strconv.ParseUint(f[3], 10, 64)
				return fmt.Sprint(dhttp.VerifDateOfRound(r, p, g))
			case "next":
				now, _ := strconv.ParseInt(f[1], 10, 64)
				p, _ := strconv.ParseInt(f[2], 10, 64)
				g, _ := strconv.ParseInt(f[3], 10, 64)
				nr, nt := common.NextRound(now, time.Duration(p)*time.Second, g)
				return fmt.Sprintf("%d %d", nr, nt)
			case "cur":
				now, _ := strconv.ParseInt(f[1], 10, 64)
				p, _ := strconv.ParseInt(f[2], 10, 64)
				g, _ := strconv.ParseInt(f[3], 10, 64)
				return fmt.Sprint(common.CurrentRound(now, time.Duration(p)*time.Second, g))
			}
			return "bad-op"
		})
		fmt.Fprintln(out, res)
	}
}
