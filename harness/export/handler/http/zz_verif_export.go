//go:build verif

// In-package export shim for the `httpw` engine (waiter / watch logic of the public HTTP handler; C01, C14).
// Overlaid into /repo/handler/http at build time; reads and test-only hooks, no change of behaviour.
package http

import (
	chain2 "github.com/drand/drand/v2/common/chain"
)

// VerifBeaconHandler returns the handler registered under the table key (chain hash or "default").
func (h *DrandHandler) VerifBeaconHandler(key string) *BeaconHandler {
	h.state.RLock()
	defer h.state.RUnlock()
	return h.beacons[key]
}

// VerifStateLock reports whether DrandHandler.state can be taken for writing right now.
func (h *DrandHandler) VerifStateLock() string {
	if h.state.TryLock() {
		h.state.Unlock()
		return "free"
	}
	return "held"
}

// VerifTryState reads latestRound / len(pending) / "start has run" if no writer holds pendingLk right now.
func (bh *BeaconHandler) VerifTryState() (latest uint64, pend int, started bool, ok bool) {
	if !bh.pendingLk.TryRLock() {
		return 0, 0, false, false
	}
	defer bh.pendingLk.RUnlock()
	return bh.latestRound, len(bh.pending), bh.pending != nil, true
}

// VerifTryPending is a snapshot of the registered waiter channels (nil, false while a writer holds pendingLk).
func (bh *BeaconHandler) VerifTryPending() ([]chan []byte, bool) {
	if !bh.pendingLk.TryRLock() {
		return nil, false
	}
	defer bh.pendingLk.RUnlock()
	out := make([]chan []byte, len(bh.pending))
	copy(out, bh.pending)
	return out, true
}

// VerifInjectGate registers g in front of the real waiters. The engine passes an unbuffered channel: the watcher's
// notification loop then stops at `waiter <- b` for g until the engine receives from it, which pins the watcher at the
// first statement of its loop (the same device as a stalled consumer; nothing in the handler is replaced).
func (bh *BeaconHandler) VerifInjectGate(g chan []byte) bool {
	bh.pendingLk.Lock()
	defer bh.pendingLk.Unlock()
	if bh.pending == nil {
		return false
	}
	bh.pending = append([]chan []byte{g}, bh.pending...)
	return true
}

// VerifSetChainInfo replaces the cached chain info (nil: the next request fetches it from the client again).
func (bh *BeaconHandler) VerifSetChainInfo(info *chain2.Info) {
	bh.chainInfoLk.Lock()
	defer bh.chainInfoLk.Unlock()
	bh.chainInfo = info
}

// VerifSetChainInfoIfCached replaces the cached chain info only if one is cached.
func (bh *BeaconHandler) VerifSetChainInfoIfCached(info *chain2.Info) {
	bh.chainInfoLk.Lock()
	defer bh.chainInfoLk.Unlock()
	if bh.chainInfo != nil {
		bh.chainInfo = info
	}
}

// VerifLocks reports whether pendingLk and chainInfoLk can be taken for writing right now.
func (bh *BeaconHandler) VerifLocks() (pending string, info string) {
	pending, info = "held", "held"
	if bh.pendingLk.TryLock() {
		bh.pendingLk.Unlock()
		pending = "free"
	}
	if bh.chainInfoLk.TryLock() {
		bh.chainInfoLk.Unlock()
		info = "free"
	}
	return
}

// VerifWaiterCap is the capacity of a waiter channel as getRand makes it (read off a registered channel).
func VerifWaiterCap(ch chan []byte) int { return cap(ch) }
