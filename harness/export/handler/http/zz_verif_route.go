//go:build verif

// In-package export shim for the C19 routing engine (overlaid into /repo/handler/http at build time).
package http

import (
	"sort"

	client2 "github.com/drand/drand/v2/common/client"
)

// VerifKeys lists the keys of the per-chain-hash handler table.
func (h *DrandHandler) VerifKeys() []string {
	h.state.RLock()
	defer h.state.RUnlock()
	ks := make([]string, 0, len(h.beacons))
	for k := range h.beacons {
		ks = append(ks, k)
	}
	sort.Strings(ks)
	return ks
}

// VerifTable returns, per table key, the client behind the registered handler and the handler's identity
// (so the caller can see that the default entry shares the handler of its chain-hash entry).
func (h *DrandHandler) VerifTable() (map[string]client2.Client, map[string]*BeaconHandler) {
	h.state.RLock()
	defer h.state.RUnlock()
	m := make(map[string]client2.Client, len(h.beacons))
	hs := make(map[string]*BeaconHandler, len(h.beacons))
	for k, bh := range h.beacons {
		m[k] = bh.client
		hs[k] = bh
	}
	return m, hs
}

// VerifGetBeaconHandler is the real getBeaconHandler; it returns the client behind the selected handler.
func (h *DrandHandler) VerifGetBeaconHandler(chainHash []byte) (client2.Client, error) {
	bh, err := h.getBeaconHandler(chainHash)
	if err != nil {
		return nil, err
	}
	return bh.client, nil
}
