//go:build verif

package http

import (
	"time"

	chain2 "github.com/drand/drand/v2/common/chain"
)

// VerifDateOfRound exposes dateOfRound (the scheduled time the HTTP layer derives for a round), as unix seconds.
func VerifDateOfRound(round uint64, periodSeconds int64, genesis int64) int64 {
	return dateOfRound(round, &chain2.Info{Period: time.Duration(periodSeconds) * time.Second, GenesisTime: genesis}).Unix()
}
