//go:build verif

package beacon

// Export shim for the C05 `net` engine: read-only view of the queues between a Handler's goroutines, so the
// harness can tell "still working" from "settled". No behaviour of its own.

// VerifBacklog returns the number of items queued between the goroutines of h (partials waiting for the
// aggregator, stored-beacon notifications, the catch-up notification, sync requests, sync progress marks and jobs queued for the callback workers).
func VerifBacklog(h *Handler) int {
	if h == nil || h.chain == nil {
		return 0
	}
	c := h.chain
	n := len(c.newPartials) + len(c.beaconStoredAgg) + len(c.catchupBeacons)
	if c.syncm != nil {
		n += len(c.syncm.newReq) + len(c.syncm.newSyncedBeacon)
	}
	// jobs waiting for a callback worker (the "transition" callback of TransitionNewGroup runs there)
	if cbs, ok := c.CallbackStore.(*callbackStore); ok {
		cbs.RLock()
		for _, j := range cbs.newJob {
			n += len(j)
		}
		cbs.RUnlock()
	}
	return n
}
