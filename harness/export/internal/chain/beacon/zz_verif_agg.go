//go:build verif

package beacon

// Export shims for the `agg` engine (C01, C03): accessors for the unexported aggregator plumbing of a real
// Handler. No behaviour of their own.

import (
	"context"
	"time"

	"github.com/drand/drand/v2/common"
	"github.com/drand/drand/v2/common/key"
	"github.com/drand/drand/v2/internal/net"
	"github.com/drand/drand/v2/protobuf/drand"
)

// VerifNewValidPartial hands a packet straight to the aggregator (what broadcastNextPartial does with the
// node's own partial). The harness uses it for its settling sentinels.
func (h *Handler) VerifNewValidPartial(ctx context.Context, addr string, p *drand.PartialBeaconPacket) {
	h.chain.NewValidPartial(ctx, addr, p)
}

// VerifBroadcastNextPartial runs the tick body of Handler.run: load the head, broadcast the next partial.
func (h *Handler) VerifBroadcastNextPartial(ctx context.Context, cur uint64) error {
	last, err := h.chain.Last(ctx)
	if err != nil {
		return err
	}
	h.broadcastNextPartial(ctx, roundInfo{round: cur}, last)
	return nil
}

// VerifSetInfo is the vault switch done by the "transition" callback of TransitionNewGroup.
func (h *Handler) VerifSetInfo(g *key.Group, s *key.Share) { h.crypto.SetInfo(g, s) }

// VerifTryNode exposes SyncManager.tryNode (plain sync: from = 0).
func (h *Handler) VerifTryNode(ctx context.Context, upTo uint64, peer net.Peer) bool {
	return h.chain.syncm.tryNode(ctx, 0, upTo, peer)
}

// VerifQueueLens returns the fill of the aggregator's two channels.
func (h *Handler) VerifQueueLens() (partials, stored int) {
	return len(h.chain.newPartials), len(h.chain.beaconStoredAgg)
}

// VerifCallbackBarrier sends a marker job through the worker of callback `id`; when it returns true every
// job queued before it has run to completion.
func (h *Handler) VerifCallbackBarrier(id string, timeout time.Duration) bool {
	cbs, ok := h.chain.CallbackStore.(*callbackStore)
	if !ok {
		return false
	}
	cbs.RLock()
	j, ok := cbs.newJob[id]
	cbs.RUnlock()
	if !ok {
		return false
	}
	done := make(chan struct{})
	select {
	case j <- cbPair{cb: func(*common.Beacon, bool) { close(done) }}:
	case <-time.After(timeout):
		return false
	}
	select {
	case <-done:
		return true
	case <-time.After(timeout):
		return false
	}
}

// VerifCallbackIDs lists the registered callback ids.
func (h *Handler) VerifCallbackIDs() []string {
	cbs, ok := h.chain.CallbackStore.(*callbackStore)
	if !ok {
		return nil
	}
	cbs.RLock()
	defer cbs.RUnlock()
	var out []string
	for id := range cbs.callbacks {
		out = append(out, id)
	}
	return out
}

// VerifOwnIndex is vault.Index().
func (h *Handler) VerifOwnIndex() int { return h.crypto.Index() }
