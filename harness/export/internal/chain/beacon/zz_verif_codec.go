//go:build verif

package beacon

import (
	"github.com/drand/drand/v2/common"
	proto "github.com/drand/drand/v2/protobuf/drand"
)

// C20: the unexported beacon <-> BeaconPacket conversions.
func VerifBeaconToProto(b *common.Beacon, beaconID string) *proto.BeaconPacket {
	return beaconToProto(b, beaconID)
}

func VerifProtoToBeacon(p *proto.BeaconPacket) *common.Beacon { return protoToBeacon(p) }
