//go:build verif

package beacon

// Export shims for the /verif `dkgrun` engine (C07): observe the handler's vault. No behaviour of their own.

import (
	"github.com/drand/drand/v2/crypto/vault"
)

// VerifVault returns the handler's vault (live group / share / public polynomial / chain info).
func (h *Handler) VerifVault() *vault.Vault { return h.crypto }
