//go:build verif

package beacon

import (
	"context"

	"github.com/drand/drand/v2/common"
)

// VerifPut stores a beacon through the handler's real store stack
// (callbackStore -> appendStore -> schemeStore -> discrepancyStore -> back-end), as the aggregator does.
func (h *Handler) VerifPut(ctx context.Context, b *common.Beacon) error {
	return h.chain.Put(ctx, b)
}
