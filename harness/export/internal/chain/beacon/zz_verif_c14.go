//go:build verif

package beacon

// Export shim for the /verif C14 (dispatch) engine.

// VerifHandlerLockFree reports whether the handler's mutex can be taken right now (and releases it again).
func VerifHandlerLockFree(h *Handler) bool {
	if h.TryLock() {
		h.Unlock()
		return true
	}
	return false
}
