//go:build verif

package beacon

// Export shims for the stream / cbstore engines of the /verif harness (C11, C12). Accessors only.

// VerifJobChan is a handle on the job channel a callback id had at the time of the call.
type VerifJobChan struct{ ch chan cbPair }

// Len is the number of jobs currently buffered in the channel.
func (v *VerifJobChan) Len() int {
	if v == nil || v.ch == nil {
		return 0
	}
	return len(v.ch)
}

// Same reports whether two handles denote the same channel.
func (v *VerifJobChan) Same(o *VerifJobChan) bool {
	return v != nil && o != nil && v.ch != nil && v.ch == o.ch
}

// Cap is the capacity of the channel.
func (v *VerifJobChan) Cap() int {
	if v == nil || v.ch == nil {
		return 0
	}
	return cap(v.ch)
}

// VerifJobChanOf returns the job channel currently registered for id on a store made by NewCallbackStore
// (nil if s is not a *callbackStore or id is not registered). It takes the read lock like Put does.
func VerifJobChanOf(s CallbackStore, id string) *VerifJobChan {
	c, ok := s.(*callbackStore)
	if !ok {
		return nil
	}
	c.RLock()
	defer c.RUnlock()
	ch, ok := c.newJob[id]
	if !ok {
		return nil
	}
	return &VerifJobChan{ch: ch}
}

// VerifCallbackIDs lists the registered callback ids (unsorted) without taking the lock: the caller
// uses it only while it knows no writer is active, or to diagnose a wedged store.
func VerifCallbackIDs(s CallbackStore) []string {
	c, ok := s.(*callbackStore)
	if !ok {
		return nil
	}
	var out []string
	for id := range c.newJob {
		out = append(out, id)
	}
	return out
}
