//go:build verif

package beacon

// Export shims for the C10 harness engine: accessors only.

import (
	"context"

	"github.com/drand/drand/v2/common"
	"github.com/drand/drand/v2/internal/net"
)

// VerifTryNode exposes tryNode.
func (s *SyncManager) VerifTryNode(ctx context.Context, from, upTo uint64, peer net.Peer) bool {
	return s.tryNode(ctx, from, upTo, peer)
}

// VerifSyncedChan exposes the channel tryNode reports every stored beacon on (Run drains it in the daemon).
func (s *SyncManager) VerifSyncedChan() chan *common.Beacon { return s.newSyncedBeacon }

// VerifNewReqLen is the number of queued sync requests.
func (s *SyncManager) VerifNewReqLen() int { return len(s.newReq) }

// VerifSyncExpiryFactor exposes the package variable.
func VerifSyncExpiryFactor() int { return syncExpiryFactor }
