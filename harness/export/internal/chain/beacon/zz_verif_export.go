//go:build verif

package beacon

// Export shims for the /verif correspondence harness. Thin constructors and accessors for
// unexported types; no behaviour of their own.

import (
	"context"

	"github.com/drand/drand/v2/common/log"
	"github.com/drand/drand/v2/crypto"
	"github.com/drand/drand/v2/internal/chain"
	"github.com/drand/drand/v2/protobuf/drand"
)

// VerifNewAppendStore exposes newAppendStore.
func VerifNewAppendStore(ctx context.Context, s chain.Store) (chain.Store, error) {
	return newAppendStore(ctx, s)
}

// VerifPartialCache wraps the unexported partialCache.
type VerifPartialCache struct{ c *partialCache }

func VerifNewPartialCache(l log.Logger, s *crypto.Scheme) *VerifPartialCache {
	return &VerifPartialCache{c: newPartialCache(l, s)}
}
func (v *VerifPartialCache) Append(p *drand.PartialBeaconPacket) error { return v.c.Append(p) }
func (v *VerifPartialCache) FlushRounds(r uint64)                      { v.c.FlushRounds(r) }

// RoundLen returns the number of partials cached for (round, prev), or -1 if there is no such round cache.
func (v *VerifPartialCache) RoundLen(round uint64, prev []byte) int {
	rc := v.c.GetRoundCache(round, prev)
	if rc == nil {
		return -1
	}
	return rc.Len()
}

// RoundIndices returns the signer indices cached for (round, prev).
func (v *VerifPartialCache) RoundIndices(round uint64, prev []byte) []int {
	rc := v.c.GetRoundCache(round, prev)
	if rc == nil {
		return nil
	}
	var out []int
	for i := range rc.sigs {
		out = append(out, i)
	}
	return out
}
// RoundSig returns the partial signature cached for signer idx in (round, prev), nil if none.
func (v *VerifPartialCache) RoundSig(round uint64, prev []byte, idx int) []byte {
	rc := v.c.GetRoundCache(round, prev)
	if rc == nil {
		return nil
	}
	return rc.sigs[idx]
}
func (v *VerifPartialCache) NumRounds() int { return len(v.c.rounds) }

// Rcvd returns, per signer index, the list of round ids the cache attributes to it.
func (v *VerifPartialCache) Rcvd() map[int][]string {
	out := map[int][]string{}
	for k, l := range v.c.rcvd {
		out[k] = append([]string{}, l...)
	}
	return out
}

// VerifRoundID exposes roundID.
func VerifRoundID(round uint64, prev []byte) string { return roundID(round, prev) }
