//go:build verif

package boltdb

import (
	"errors"

	bolt "go.etcd.io/bbolt"

	"github.com/drand/drand/v2/internal/chain"
)

// Export shims for the verification harness (overlaid at build time, never part of /repo).

func verifDB(s chain.Store) *bolt.DB {
	switch t := s.(type) {
	case *BoltStore:
		return t.db
	case *trimmedStore:
		return t.db
	}
	return nil
}

// VerifBeginWrite takes bbolt's single writer lock of the store's database (a write transaction that writes nothing)
// and returns the function that gives it back (Rollback). A Put issued meanwhile queues behind it.
func VerifBeginWrite(s chain.Store) (release func() error, err error) {
	db := verifDB(s)
	if db == nil {
		return nil, errors.New("verif: not a bolt store")
	}
	tx, err := db.Begin(true)
	if err != nil {
		return nil, err
	}
	return tx.Rollback, nil
}

// VerifRawPut writes val under key straight into the beacon bucket (what a torn / damaged record on disk looks like to
// the store); VerifRawGet reads the stored bytes (a copy).
func VerifRawPut(s chain.Store, key, val []byte) error {
	db := verifDB(s)
	if db == nil {
		return errors.New("verif: not a bolt store")
	}
	return db.Update(func(tx *bolt.Tx) error {
		return tx.Bucket(beaconBucket).Put(key, val)
	})
}

func VerifRawGet(s chain.Store, key []byte) ([]byte, error) {
	db := verifDB(s)
	if db == nil {
		return nil, errors.New("verif: not a bolt store")
	}
	var out []byte
	err := db.View(func(tx *bolt.Tx) error {
		v := tx.Bucket(beaconBucket).Get(key)
		if v != nil {
			out = append([]byte{}, v...)
		}
		return nil
	})
	return out, err
}

// VerifIsTrimmed tells which of the two formats NewBoltStore opened.
func VerifIsTrimmed(s chain.Store) bool {
	_, ok := s.(*trimmedStore)
	return ok
}
