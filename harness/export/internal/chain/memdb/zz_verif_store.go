//go:build verif

package memdb

// VerifLockWrite takes the store's write lock (what a concurrent Put/Del holds) and returns the function releasing it.
func VerifLockWrite(s *Store) (release func()) {
	s.storeMtx.Lock()
	return s.storeMtx.Unlock
}
