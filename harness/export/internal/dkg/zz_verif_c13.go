//go:build verif

package dkg

import bolt "go.etcd.io/bbolt"

// VerifTxID returns the id of the last committed bbolt write transaction of dkg.db.
func (s *BoltStore) VerifTxID() int {
	id := 0
	_ = s.db.View(func(tx *bolt.Tx) error { id = tx.ID(); return nil })
	return id
}

// VerifPath returns the path of the open dkg.db.
func (s *BoltStore) VerifPath() string { return s.db.Path() }
