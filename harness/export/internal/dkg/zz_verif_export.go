//go:build verif

package dkg

// Export shims for the /verif correspondence harness (no behaviour of their own).

import (
	"github.com/drand/drand/v2/common/key"
	drand "github.com/drand/drand/v2/protobuf/dkg"
)

// VerifMessageForSigning exposes messageForSigning.
func VerifMessageForSigning(beaconID string, packet *drand.GossipPacket, terms *drand.ProposalTerms) []byte {
	return messageForSigning(beaconID, packet, terms)
}

// VerifStates returns the two buckets of the process's store.
func (d *Process) VerifStates(beaconID string) (current, finished *DBState, err error) {
	current, err = d.store.GetCurrent(beaconID)
	if err != nil {
		return nil, nil, err
	}
	finished, err = d.store.GetFinished(beaconID)
	return current, finished, err
}

// VerifComplete performs the success tail of executeAndFinishDKG: Complete, then SaveFinished.
func (d *Process) VerifComplete(beaconID string, group *key.Group, share *key.Share) error {
	current, err := d.store.GetCurrent(beaconID)
	if err != nil {
		return err
	}
	finalState, err := current.Complete(group, share)
	if err != nil {
		return err
	}
	return d.store.SaveFinished(beaconID, finalState)
}

// VerifFail performs the failure tail of executeAndFinishDKG: Failed, then SaveCurrent.
func (d *Process) VerifFail(beaconID string) error {
	current, err := d.store.GetCurrent(beaconID)
	if err != nil {
		return err
	}
	next, err := current.Failed()
	if err != nil {
		return err
	}
	return d.store.SaveCurrent(beaconID, next)
}

// VerifExecuting reports whether an execution is registered for the beacon.
func (d *Process) VerifExecuting(beaconID string) bool {
	d.lock.Lock()
	defer d.lock.Unlock()
	return d.Executions[beaconID] != nil
}
