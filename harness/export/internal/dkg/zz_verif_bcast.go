//go:build verif

package dkg

// Export shims for the /verif `bcast` engine (C06): constructor and read-only views of echoBroadcast.
// No behaviour of their own.

import (
	"context"

	"github.com/drand/drand/v2/common/log"
	"github.com/drand/drand/v2/crypto"
	"github.com/drand/drand/v2/internal/net"
	pdkg "github.com/drand/drand/v2/protobuf/dkg"
	kdkg "github.com/drand/kyber/share/dkg"
)

// VerifNewEchoBroadcast exposes newEchoBroadcast.
func VerifNewEchoBroadcast(ctx context.Context, client net.DKGClient, l log.Logger, beaconID, own string,
	to []*pdkg.Participant, sch *crypto.Scheme, config *kdkg.Config) (Broadcast, error) {
	b, err := newEchoBroadcast(ctx, client, l, beaconID, own, to, sch, config)
	if err != nil {
		return nil, err
	}
	return b, nil
}

// VerifEchoSeen returns the hashes the broadcaster has recorded, in the order it recorded them.
func VerifEchoSeen(b Broadcast) [][]byte {
	e, ok := b.(*echoBroadcast)
	if !ok || e == nil {
		return nil
	}
	e.Lock()
	defer e.Unlock()
	as, ok := e.hashes.(*arraySet)
	if !ok {
		return nil
	}
	out := make([][]byte, len(as.hashes))
	for i, h := range as.hashes {
		out[i] = append([]byte{}, h...)
	}
	return out
}

// VerifEchoQueues returns, per relay worker, the destination address and the number of packets buffered in its queue.
func VerifEchoQueues(b Broadcast) (addrs []string, lens []int, capacity int) {
	e, ok := b.(*echoBroadcast)
	if !ok || e == nil {
		return nil, nil, 0
	}
	for _, s := range e.dispatcher.senders {
		addrs = append(addrs, s.to.Address)
		lens = append(lens, len(s.newCh))
		capacity = cap(s.newCh)
	}
	return addrs, lens, capacity
}

// VerifProtoToDKGPacket exposes protoToDKGPacket.
func VerifProtoToDKGPacket(p *pdkg.Packet, sch *crypto.Scheme) (kdkg.Packet, error) {
	return protoToDKGPacket(p, sch)
}

// VerifDKGPacketToProto exposes dkgPacketToProto.
func VerifDKGPacketToProto(p kdkg.Packet, beaconID string) (*pdkg.Packet, error) {
	return dkgPacketToProto(p, beaconID)
}
