//go:build verif

package dkg

// Export shims for the /verif `dkgrun` engine (C06/C07). No behaviour of their own.

import (
	"context"

	"github.com/drand/drand/v2/common/key"
	"github.com/drand/kyber/share/dkg"
)

// VerifSaveCurrent writes a state into the process's `current` bucket (used to play a leader whose
// binary proposes terms the stock CLI would not: the state itself is produced by the real
// DBState.Proposing, i.e. it passed the real ValidateProposal).
func (d *Process) VerifSaveCurrent(beaconID string, st *DBState) error {
	return d.store.SaveCurrent(beaconID, st)
}

// VerifAsGroup exposes asGroup.
func VerifAsGroup(details *DBState, keyShare *key.Share, finalNodes []dkg.Node, transitionTime int64) (key.Group, error) {
	return asGroup(context.Background(), details, keyShare, finalNodes, transitionTime)
}
