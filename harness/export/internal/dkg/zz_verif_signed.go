//go:build verif

package dkg

// Export shim for the /verif `dkgsm` engine (C08/C09). No behaviour of its own.

import (
	"time"

	"github.com/drand/drand/v2/internal/util"
	drand "github.com/drand/drand/v2/protobuf/dkg"
)

// VerifTermsAsSigned returns the terms an honest node signs (Command) and verifies against (applyPacketToState) when it
// holds `terms`: termsFromState of the state DBState.Proposed / Proposing build from them.
func VerifTermsAsSigned(terms *drand.ProposalTerms) *drand.ProposalTerms {
	st := &DBState{
		BeaconID:      terms.BeaconID,
		Epoch:         terms.Epoch,
		State:         Proposed,
		Threshold:     terms.Threshold,
		Timeout:       terms.Timeout.AsTime(),
		SchemeID:      terms.SchemeID,
		CatchupPeriod: time.Duration(terms.CatchupPeriodSeconds) * time.Second,
		BeaconPeriod:  time.Duration(terms.BeaconPeriodSeconds) * time.Second,
		GenesisTime:   terms.GenesisTime.AsTime(),
		GenesisSeed:   terms.GenesisSeed,
		Leader:        terms.Leader,
		Remaining:     util.Filter(terms.Remaining, util.NonEmpty),
		Joining:       util.Filter(terms.Joining, util.NonEmpty),
		Leaving:       util.Filter(terms.Leaving, util.NonEmpty),
	}
	return termsFromState(st)
}
