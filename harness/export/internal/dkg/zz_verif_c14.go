//go:build verif

package dkg

// Export shims for the /verif C14 (dispatch) engine: read-only views of Process / echoBroadcast internals.
// No behaviour of their own.

import (
	kdkg "github.com/drand/kyber/share/dkg"
)

// VerifLockFree reports whether d.lock can be taken right now (and releases it again).
func (d *Process) VerifLockFree() bool {
	if d.lock.TryLock() {
		d.lock.Unlock()
		return true
	}
	return false
}

// VerifSeen reports the number of entries of SeenPackets (caller must not race with handlers).
func (d *Process) VerifSeen() int { return len(d.SeenPackets) }

// VerifEchoConfig returns the kyber DKG config an execution's broadcaster verifies packets against.
func VerifEchoConfig(b Broadcast) *kdkg.Config {
	e, ok := b.(*echoBroadcast)
	if !ok || e == nil {
		return nil
	}
	c := e.config
	return &c
}

// VerifEchoLockFree reports whether the broadcaster's mutex can be taken right now.
func VerifEchoLockFree(b Broadcast) bool {
	e, ok := b.(*echoBroadcast)
	if !ok || e == nil {
		return true
	}
	if e.TryLock() {
		e.Unlock()
		return true
	}
	return false
}

// VerifEchoBacklog returns len/cap of the three application channels of an execution's broadcaster.
func VerifEchoBacklog(b Broadcast) (deals, resps, justs, capacity int) {
	e, ok := b.(*echoBroadcast)
	if !ok || e == nil {
		return 0, 0, 0, 0
	}
	return len(e.dealCh), len(e.respCh), len(e.justCh), cap(e.respCh)
}
