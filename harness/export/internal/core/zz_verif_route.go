//go:build verif

// In-package export shim for the C19 routing engine (overlaid into /repo/internal/core at build time).
// Thin accessors only: every decision is taken by the real code; nothing here writes the routing
// tables except VerifResetTables (used between histories).
package core

import (
	"context"
	"sort"

	chain2 "github.com/drand/drand/v2/common/chain"
	"github.com/drand/drand/v2/common/client"
	"github.com/drand/drand/v2/common/key"
	dhttp "github.com/drand/drand/v2/handler/http"
	"github.com/drand/drand/v2/internal/chain"
	pdkg "github.com/drand/drand/v2/protobuf/dkg"
	"github.com/drand/drand/v2/protobuf/drand"
)

// VerifReadBeaconID is the real readBeaconID.
func (dd *DrandDaemon) VerifReadBeaconID(md *drand.Metadata) (string, error) {
	return dd.readBeaconID(md)
}

// VerifGetBeaconProcessByID is the real getBeaconProcessByID.
func (dd *DrandDaemon) VerifGetBeaconProcessByID(id string) (*BeaconProcess, error) {
	return dd.getBeaconProcessByID(id)
}

// VerifRoute is the real getBeaconProcessFromRequest.
func (dd *DrandDaemon) VerifRoute(md *drand.Metadata) (*BeaconProcess, error) {
	return dd.getBeaconProcessFromRequest(md)
}

// VerifProcs returns a copy of beaconProcesses.
func (dd *DrandDaemon) VerifProcs() map[string]*BeaconProcess {
	dd.state.RLock()
	defer dd.state.RUnlock()
	m := make(map[string]*BeaconProcess, len(dd.beaconProcesses))
	for k, v := range dd.beaconProcesses {
		m[k] = v
	}
	return m
}

// VerifChainHashes returns a copy of chainHashes.
func (dd *DrandDaemon) VerifChainHashes() map[string]string {
	dd.state.RLock()
	defer dd.state.RUnlock()
	m := make(map[string]string, len(dd.chainHashes))
	for k, v := range dd.chainHashes {
		m[k] = v
	}
	return m
}

// VerifHandler is the daemon's HTTP handler object.
func (dd *DrandDaemon) VerifHandler() *dhttp.DrandHandler { return dd.handler }

// VerifResetTables empties both daemon tables and the HTTP handler table (start of a new history).
// The caller stops the beacon processes first.
func (dd *DrandDaemon) VerifResetTables() {
	dd.state.Lock()
	for k := range dd.beaconProcesses {
		delete(dd.beaconProcesses, k)
	}
	for k := range dd.chainHashes {
		delete(dd.chainHashes, k)
	}
	dd.state.Unlock()
	for _, k := range dd.handler.VerifKeys() {
		dd.handler.RemoveBeaconHandler(k)
	}
}

// verifStubDKG stands for the DKG database: it always reports "no completed DKG" (so LoadBeaconFromStore
// takes the group-file path) and accepts the migration call.
type verifStubDKG struct{ DKGProcess }

func (verifStubDKG) DKGStatus(_ context.Context, r *pdkg.DKGStatusRequest) (*pdkg.DKGStatusResponse, error) {
	return &pdkg.DKGStatusResponse{Current: &pdkg.DKGEntry{BeaconID: r.BeaconID}}, nil
}
func (verifStubDKG) Migrate(string, *key.Group, *key.Share) error { return nil }
func (verifStubDKG) Close()                                       {}

// VerifStubDKG replaces the daemon's DKG process by the stub (the real one is closed).
func (dd *DrandDaemon) VerifStubDKG() {
	if dd.dkg != nil {
		dd.dkg.Close()
	}
	dd.dkg = verifStubDKG{}
}

// VerifStoreDKGOutput is the real storeDKGOutput (sets the group, persists, runs the daemon's dkgCallback).
func (bp *BeaconProcess) VerifStoreDKGOutput(ctx context.Context, g *key.Group, s *key.Share) error {
	return bp.storeDKGOutput(ctx, g, s)
}

// VerifBeaconID / VerifGroup read the process' own fields.
func (bp *BeaconProcess) VerifBeaconID() string { return bp.beaconID }
func (bp *BeaconProcess) VerifGroup() *key.Group {
	bp.state.RLock()
	defer bp.state.RUnlock()
	return bp.group
}

// VerifGroupHash is the chain hash string of the process' current group ("" without a group).
func (bp *BeaconProcess) VerifGroupHash() string {
	g := bp.VerifGroup()
	if g == nil {
		return ""
	}
	return chain2.NewChainInfo(g).HashString()
}

// VerifHasBeacon tells whether a beacon handler is running in the process.
func (bp *BeaconProcess) VerifHasBeacon() bool {
	bp.state.RLock()
	defer bp.state.RUnlock()
	return bp.beacon != nil
}

// VerifProxyTarget unwraps the client registered with the HTTP handler to the process it proxies.
func VerifProxyTarget(c client.Client) *BeaconProcess {
	if p, ok := c.(*drandProxy); ok {
		if bp, ok := p.r.(*BeaconProcess); ok {
			return bp
		}
	}
	return nil
}

// VerifSortedIDs lists the ids of the running processes.
func (dd *DrandDaemon) VerifSortedIDs() []string {
	m := dd.VerifProcs()
	ids := make([]string, 0, len(m))
	for k := range m {
		ids = append(ids, k)
	}
	sort.Strings(ids)
	return ids
}

// VerifMemDB is the storage option used by the harness daemons.
const VerifMemDB = chain.MemDB
