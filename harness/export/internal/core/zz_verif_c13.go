//go:build verif

package core

import (
	"context"

	"github.com/drand/drand/v2/common"
	"github.com/drand/drand/v2/common/key"
	"github.com/drand/drand/v2/common/log"
	dhttp "github.com/drand/drand/v2/handler/http"
	"github.com/drand/drand/v2/internal/chain"
	"github.com/drand/drand/v2/internal/dkg"
	"github.com/drand/drand/v2/internal/net"
	"github.com/drand/drand/v2/internal/util"
)

// VerifNewDaemon builds a DrandDaemon the way NewDrandDaemon/init do, minus the network listeners:
// same Config, same dkg store location (<cfg>/dkg.db), same dkg.Process, same fan-out channel.
// Every start-up decision afterwards is taken by the real LoadBeaconFromStore.
func VerifNewDaemon(ctx context.Context, l log.Logger, cfgFolder string, client net.ProtocolClient) (*DrandDaemon, *dkg.BoltStore, error) {
	c := NewConfig(l, WithConfigFolder(cfgFolder), WithDBStorageEngine(chain.BoltDB))
	dd := &DrandDaemon{
		opts:            c,
		log:             l,
		exitCh:          make(chan bool, 1),
		completedDKGs:   util.NewFanOutChan[dkg.SharingOutput](),
		version:         common.GetAppVersion(),
		beaconProcesses: make(map[string]*BeaconProcess),
		chainHashes:     make(map[string]string),
	}
	c.dkgCallback = func(ctx context.Context, group *key.Group) {
		beaconID := common.GetCanonicalBeaconID(group.ID)
		dd.state.Lock()
		bp, isPresent := dd.beaconProcesses[beaconID]
		dd.state.Unlock()
		if isPresent {
			dd.AddBeaconHandler(ctx, beaconID, bp)
		}
	}
	handler, err := dhttp.New(log.ToContext(ctx, l), c.Version())
	if err != nil {
		return nil, nil, err
	}
	dd.handler = handler
	dd.privGateway = &net.PrivateGateway{ProtocolClient: client}
	dkgStore, err := dkg.NewDKGStore(c.configFolder)
	if err != nil {
		return nil, nil, err
	}
	dkgConfig := dkg.Config{
		TimeBetweenDKGPhases: c.dkgPhaseTimeout,
		KickoffGracePeriod:   c.dkgKickoffGracePeriod,
		SkipKeyVerification:  false,
	}
	dd.dkg = dkg.NewDKGProcess(dkgStore, dd, dd.completedDKGs, nil, client, dkgConfig, l.Named("dkg"))
	return dd, dkgStore, nil
}

// VerifKeyStore is the file store LoadBeaconFromDisk would use.
func (dd *DrandDaemon) VerifKeyStore(beaconID string) key.Store {
	return key.NewFileStore(dd.opts.ConfigFolderMB(), beaconID)
}

// VerifFolders returns the multibeacon folder and the chain db folder of a beacon id.
func (dd *DrandDaemon) VerifFolders(beaconID string) (mb string, db string) {
	return dd.opts.ConfigFolderMB(), dd.opts.DBFolder(common.GetCanonicalBeaconID(beaconID))
}

// VerifShutdown stops every beacon process and closes the dkg process (and with it dkg.db).
func (dd *DrandDaemon) VerifShutdown(ctx context.Context) {
	dd.state.Lock()
	bps := make([]*BeaconProcess, 0, len(dd.beaconProcesses))
	for _, bp := range dd.beaconProcesses {
		bps = append(bps, bp)
	}
	dd.state.Unlock()
	for _, bp := range bps {
		bp.state.RLock()
		orphan := bp.beacon == nil && bp.dbStore != nil
		bp.state.RUnlock()
		bp.StopBeacon(ctx)
		if orphan {
			// StartBeacon failed after createDBStore: nobody owns the open store (drand leaks it); release the file lock
			_ = bp.dbStore.Close()
		}
	}
	dd.dkg.Close()
}

// VerifAbandon closes the dkg process (and dkg.db) without touching the beacon processes.
func (dd *DrandDaemon) VerifAbandon() { dd.dkg.Close() }

// VerifOnDKGCompleted runs the consumer of completed DKGs synchronously.
func (bp *BeaconProcess) VerifOnDKGCompleted(ctx context.Context, out *dkg.SharingOutput) error {
	return bp.onDKGCompleted(ctx, out)
}

// VerifView exposes what the process loaded.
func (bp *BeaconProcess) VerifView() (g *key.Group, s *key.Share, index int, running bool) {
	bp.state.RLock()
	defer bp.state.RUnlock()
	return bp.group, bp.share, bp.index, bp.beacon != nil
}

// VerifPut stores a beacon through the running handler's store stack.
func (bp *BeaconProcess) VerifPut(ctx context.Context, b *common.Beacon) error {
	bp.state.RLock()
	h := bp.beacon
	bp.state.RUnlock()
	return h.VerifPut(ctx, b)
}

// VerifDBStore is the back-end store createDBStore opened.
func (bp *BeaconProcess) VerifDBStore() chain.Store { return bp.dbStore }
