//go:build verif

package core

// Export shim for the `agg` engine (C01): a BeaconProcess that carries exactly the fields PublicRand /
// PublicRandStream read, around an existing beacon.Handler, plus a PublicServer adapter for core.Proxy.

import (
	"context"

	"github.com/drand/drand/v2/common"
	chain2 "github.com/drand/drand/v2/common/chain"
	"github.com/drand/drand/v2/common/client"
	"github.com/drand/drand/v2/common/key"
	dlog "github.com/drand/drand/v2/common/log"
	"github.com/drand/drand/v2/internal/chain/beacon"
	"github.com/drand/drand/v2/protobuf/drand"
)

func VerifBeaconProcess(h *beacon.Handler, g *key.Group, l dlog.Logger) *BeaconProcess {
	return &BeaconProcess{
		beaconID:  common.GetCanonicalBeaconID(g.ID),
		chainHash: chain2.NewChainInfo(g).Hash(),
		group:     g,
		beacon:    h,
		version:   common.GetAppVersion(),
		log:       l,
	}
}

type verifPublic struct {
	drand.UnimplementedPublicServer
	bp *BeaconProcess
}

func (v *verifPublic) PublicRand(ctx context.Context, in *drand.PublicRandRequest) (*drand.PublicRandResponse, error) {
	return v.bp.PublicRand(ctx, in)
}
func (v *verifPublic) PublicRandStream(in *drand.PublicRandRequest, s drand.Public_PublicRandStreamServer) error {
	return v.bp.PublicRandStream(in, s)
}
func (v *verifPublic) ChainInfo(ctx context.Context, in *drand.ChainInfoRequest) (*drand.ChainInfoPacket, error) {
	return v.bp.ChainInfo(ctx, in)
}

// VerifProxy is core.Proxy over the BeaconProcess.
func VerifProxy(bp *BeaconProcess) client.Client { return Proxy(&verifPublic{bp: bp}) }
