//go:build verif

package core

// Export shims for the /verif C14 (dispatch) engine: assemble a DrandDaemon / BeaconProcess from parts
// (the real constructors need a key store on disk, gateways and a config folder). The handler methods under
// test are the real ones; these shims only fill the struct fields those methods read.

import (
	clock "github.com/jonboulle/clockwork"

	"github.com/drand/drand/v2/common"
	"github.com/drand/drand/v2/common/key"
	"github.com/drand/drand/v2/common/log"
	"github.com/drand/drand/v2/internal/chain/beacon"
	"github.com/drand/drand/v2/internal/net"
)

func VerifNewBeaconProcess(id string, priv *key.Pair, group *key.Group, share *key.Share, h *beacon.Handler,
	chainHash []byte, l log.Logger, clk clock.Clock, gw *net.PrivateGateway) *BeaconProcess {
	return &BeaconProcess{
		opts:            &Config{clock: clk, logger: l},
		priv:            priv,
		beaconID:        common.GetCanonicalBeaconID(id),
		chainHash:       chainHash,
		group:           group,
		share:           share,
		beacon:          h,
		version:         common.GetAppVersion(),
		log:             l,
		privGateway:     gw,
		exitCh:          make(chan bool, 1),
		closeDKGChannel: func() {},
	}
}

func VerifNewDaemonC14(l log.Logger, d DKGProcess, bps map[string]*BeaconProcess) *DrandDaemon {
	dd := &DrandDaemon{
		opts:            &Config{logger: l, clock: clock.NewRealClock()},
		log:             l,
		exitCh:          make(chan bool, 1),
		version:         common.GetAppVersion(),
		beaconProcesses: map[string]*BeaconProcess{},
		chainHashes:     map[string]string{},
		dkg:             d,
	}
	for id, bp := range bps {
		dd.beaconProcesses[id] = bp
		if len(bp.chainHash) > 0 {
			// as AddBeaconHandler registers them
			dd.chainHashes[encodeHex(bp.chainHash)] = id
			if common.IsDefaultBeaconID(id) {
				dd.chainHashes[common.DefaultChainHash] = id
			}
		}
	}
	return dd
}

func encodeHex(b []byte) string {
	const hexd = "0123456789abcdef"
	out := make([]byte, 0, 2*len(b))
	for _, c := range b {
		out = append(out, hexd[c>>4], hexd[c&15])
	}
	return string(out)
}

// VerifStateLockFree reports whether bp.state can be write-locked right now (no reader or writer holds it).
func (bp *BeaconProcess) VerifStateLockFree() bool {
	if bp.state.TryLock() {
		bp.state.Unlock()
		return true
	}
	return false
}

// VerifStateLockFree reports whether dd.state can be write-locked right now.
func (dd *DrandDaemon) VerifStateLockFree() bool {
	if dd.state.TryLock() {
		dd.state.Unlock()
		return true
	}
	return false
}

func (bp *BeaconProcess) VerifHandler() *beacon.Handler { return bp.beacon }

// VerifSetGateway sets the gateway the process uses as a client (Status connectivity checks).
func (bp *BeaconProcess) VerifSetGateway(gw *net.PrivateGateway) { bp.privGateway = gw }

// VerifStateWriteLockUnlock takes and releases bp.state as a writer (what StopBeacon / newBeacon / storeDKGOutput do first).
func (bp *BeaconProcess) VerifStateWriteLockUnlock() {
	bp.state.Lock()
	bp.state.Unlock() //nolint
}
