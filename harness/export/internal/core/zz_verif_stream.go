//go:build verif

package core

import (
	"github.com/drand/drand/v2/internal/chain/beacon"
	"github.com/drand/drand/v2/protobuf/drand"
)

// VerifStreamProxy exposes the two proxy types PublicRandStream wraps its arguments in before it calls
// beacon.SyncChain, so the harness can drive the public-stream path with a scripted server stream.
func VerifStreamProxy(req *drand.PublicRandRequest, stream drand.Public_PublicRandStreamServer) (beacon.SyncRequest, beacon.SyncStream) {
	return &proxyRequest{req}, &proxyStream{stream}
}
