//go:build verif

package core

// Export shim for the /verif `dkgrun` engine (C07). No behaviour of its own.

import (
	"time"

	clock "github.com/jonboulle/clockwork"

	"github.com/drand/drand/v2/common/key"
	"github.com/drand/drand/v2/common/log"
)

// VerifValidateGroupTransition runs the real (*BeaconProcess).validateGroupTransition with the process clock at `now`.
func VerifValidateGroupTransition(l log.Logger, oldGroup, newGroup *key.Group, now int64) error {
	bp := &BeaconProcess{log: l, opts: &Config{clock: clock.NewFakeClockAt(time.Unix(now, 0))}}
	return bp.validateGroupTransition(oldGroup, newGroup)
}
