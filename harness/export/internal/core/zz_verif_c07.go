//go:build verif

package core

// Export shim for the /verif `dkgrun` engine (C07). No behaviour of its own.

import (
	"context"
	"errors"
	"time"

	clock "github.com/jonboulle/clockwork"

	"github.com/drand/drand/v2/common/key"
	"github.com/drand/drand/v2/common/log"
	"github.com/drand/drand/v2/internal/chain/beacon"
	"github.com/drand/drand/v2/internal/dkg"
)

// VerifValidateGroupTransition runs the real (*BeaconProcess).validateGroupTransition with the process clock at `now`.
func VerifValidateGroupTransition(l log.Logger, oldGroup, newGroup *key.Group, now int64) error {
	bp := &BeaconProcess{log: l, opts: &Config{clock: clock.NewFakeClockAt(time.Unix(now, 0))}}
	return bp.validateGroupTransition(oldGroup, newGroup)
}

// verifNoKeyStore: a key store that holds nothing; leaveNetwork only calls Reset on it.
type verifNoKeyStore struct{ resets int }

func (s *verifNoKeyStore) SaveKeyPair(*key.Pair) error     { return nil }
func (s *verifNoKeyStore) LoadKeyPair() (*key.Pair, error) { return nil, errors.New("none") }
func (s *verifNoKeyStore) SaveShare(*key.Share) error      { return nil }
func (s *verifNoKeyStore) LoadShare() (*key.Share, error)  { return nil, errors.New("none") }
func (s *verifNoKeyStore) SaveGroup(*key.Group) error      { return nil }
func (s *verifNoKeyStore) LoadGroup() (*key.Group, error)  { return nil, errors.New("none") }
func (s *verifNoKeyStore) Reset() error                    { s.resets++; return nil }
func (s *verifNoKeyStore) TestWrite() error                { return nil }

// VerifOnDKGCompleted hands the outcome of a resharing (previous group, new group) to the real
// (*BeaconProcess).onDKGCompleted of the node `pair`, whose current group (bp.group) is `current` and whose running
// handler is h, on the clock clk. For a node that is in `current` and not in `next` this is the leaveNetwork path.
// Returns the number of key-store resets and the error of onDKGCompleted.
func VerifOnDKGCompleted(l log.Logger, clk clock.Clock, pair *key.Pair, current, next *key.Group, h *beacon.Handler) (resets int, err error) {
	ks := &verifNoKeyStore{}
	bp := &BeaconProcess{log: l, opts: &Config{clock: clk}, priv: pair, beaconID: "default", group: current, beacon: h, store: ks}
	out := &dkg.SharingOutput{BeaconID: "default", Old: &dkg.DBState{FinalGroup: current}, New: dkg.DBState{FinalGroup: next}}
	err = bp.onDKGCompleted(context.Background(), out)
	return ks.resets, err
}
