"""C15: which files hold secret bytes at which moment of the real key.Save, and with which mode.

The harness engine `savetrace` performs the real calls (SaveKeyPair, SaveShare fresh / again / over a stale loose
temporary file, SaveGroup) under `strace`; this module replays the recorded system calls on a small POSIX file model
(path -> present, mode, content; fd -> path, offset) and evaluates, AFTER EVERY SYSTEM CALL, the oracle

    a file whose content contains a secret scalar has mode & 077 = 0

on every file below the harness' folder — whatever its name is, so the temporary file of a Save that writes and then
renames is covered without being named anywhere. The replay's final state is compared with the `FILE` lines the harness
printed from the real directory (stat + read): a disagreement means the replay (not drand) is wrong -> core.Broken.
"""
import codecs, os, re, shutil, subprocess
from . import core

TRACE_SET = "openat,close,write,rename,renameat,renameat2,unlink,unlinkat,chmod,fchmod,fchmodat,fsync"
LINE = re.compile(r"^(\d+)\s+(\w+)\((.*)\)\s+=\s+(-?\d+|\?)(?:\s.*)?$", re.S)


def have_strace():
    return shutil.which("strace") is not None


def c_unescape(s):
    """strace string literal body -> bytes"""
    return codecs.decode(s, "unicode_escape").encode("latin-1")


def split_args(a):
    """top-level comma split that respects string literals"""
    out, cur, q, esc = [], "", False, False
    for ch in a:
        if q:
            cur += ch
            if esc:
                esc = False
            elif ch == "\\":
                esc = True
            elif ch == '"':
                q = False
        elif ch == '"':
            q = True
            cur += ch
        elif ch == "," :
            out.append(cur.strip()); cur = ""
        else:
            cur += ch
    if cur.strip():
        out.append(cur.strip())
    return out


def strlit(x):
    m = re.match(r'^"(.*)"(\.\.\.)?$', x, flags=re.S)
    return (c_unescape(m.group(1)), bool(m.group(2))) if m else (None, False)


def run(seed, umask):
    """-> dict(root, secrets{kind: hex}, calls[(n, what, result)], files{rel: (mode, bytes)}, events[(pid, name, args, ret)], raw_lines)"""
    h = os.path.join(core.BUILD, "verifh")
    tmp = core.scratch()
    tf = os.path.join(tmp, f"strace_{os.getpid()}_{seed}_{umask:o}.txt")
    env = dict(os.environ, VERIF_TMP=tmp, GOMEMLIMIT="2GiB")
    p = subprocess.run(["strace", "-f", "-s", "400000", "-e", "trace=" + TRACE_SET, "-o", tf, h, "savetrace", str(seed), f"{umask:o}"],
                       stdout=subprocess.PIPE, stderr=subprocess.PIPE, text=True, timeout=300, env=env)
    if p.returncode != 0:
        raise core.Broken("harness:savetrace", f"exit {p.returncode}: {p.stderr[-600:]}")
    d = {"root": None, "secrets": {}, "calls": [], "files": {}, "done": False}
    pending = {}
    for l in p.stdout.splitlines():
        f = l.split("\t")
        if f[0] == "ROOT":
            d["root"] = f[1]
        elif f[0] == "SECRET":
            d["secrets"][f[1]] = f[2]
        elif f[0] == "CALL":
            pending[f[1]] = f[2]
        elif f[0] == "RET":
            d["calls"].append((int(f[1]), pending.get(f[1], "?"), f[2]))
        elif f[0] == "FILE":
            d["files"][f[1]] = (int(f[2], 8), bytes.fromhex(f[3]) if len(f) > 3 and f[3] != "-" else b"")
        elif f[0] == "DONE":
            d["done"] = True
        elif f[0] == "ERR":
            raise core.Broken("harness:savetrace", l)
    if not d["done"] or not d["root"]:
        raise core.Broken("harness:savetrace", "incomplete output: " + p.stdout[-400:])
    raw = open(tf, errors="replace").read().splitlines()
    os.remove(tf)
    # join "<unfinished ...>" / "<... x resumed>" pairs (the effect takes place when the call completes)
    events, unfinished = [], {}
    for l in raw:
        m = re.match(r"^(\d+)\s+(.*)$", l)
        if not m:
            continue
        pid, rest = m.group(1), m.group(2)
        if rest.endswith("<unfinished ...>"):
            unfinished[pid] = rest[:-len("<unfinished ...>")].rstrip()
            continue
        r = re.match(r"^<\.\.\. (\w+) resumed>\s?(.*)$", rest, flags=re.S)
        if r and pid in unfinished:
            rest = unfinished.pop(pid) + r.group(2)
        mm = LINE.match(pid + " " + rest)
        if mm:
            events.append((mm.group(1), mm.group(2), mm.group(3), mm.group(4)))
    d["events"] = events
    d["raw_lines"] = len(raw)
    return d


class Replay:
    """POSIX file model restricted to what the key store does (no seeks, no links, no O_APPEND)"""
    def __init__(self, root, umask, needles):
        self.root, self.umask, self.needles = root.rstrip("/") + "/", umask, needles
        self.files = {}   # path -> {"mode": int, "data": bytearray}
        self.fds = {}     # fd -> {"path": str, "off": int}
        self.marker = "start"
        self.exposures = []   # (marker, syscall text, rel path, mode, secret kind)
        self.steps = []       # (marker, syscall, {rel: (mode, class)}) after every effective call, for the model comparison
        self.n_calls = 0

    def inside(self, p):
        return p.startswith(self.root)

    def rel(self, p):
        return p[len(self.root):]

    def holds(self, data):
        b = bytes(data)
        for kind, n in self.needles:
            if n in b:
                return kind
        return None

    def check(self, what):
        self.n_calls += 1
        for p, f in self.files.items():
            k = self.holds(f["data"])
            if k and f["mode"] & 0o77:
                self.exposures.append((self.marker, what, self.rel(p), f["mode"], k))

    def apply(self, ev):
        self._apply(ev)
        self.snapshot(ev[1])

    def _apply(self, ev):
        pid, name, args, ret = ev
        a = split_args(args)
        if name == "write":
            fd = int(a[0])
            data, trunc = strlit(a[1])
            if fd not in self.fds:
                if data and data.startswith(b"CALL\t"):
                    self.marker = data.decode("latin-1").strip().replace("\t", " ")
                return
            if ret in ("?",) or int(ret) < 0:
                return
            if trunc or data is None or len(data) != int(ret):
                raise core.Broken("oracle:savetrace-replay", f"write of {ret} bytes to {self.fds[fd]['path']} not fully recorded")
            st = self.fds[fd]
            f = self.files.get(st["path"])
            if f is None:
                return  # unlinked while open: not reachable by name any more
            buf = f["data"]
            if len(buf) < st["off"]:
                buf.extend(b"\0" * (st["off"] - len(buf)))
            buf[st["off"]:st["off"] + len(data)] = data
            st["off"] += len(data)
            self.check(f"write({self.rel(st['path'])}, {len(data)} bytes)")
            return
        if ret == "?" or int(ret) < 0:
            return
        if name == "openat":
            path, _ = strlit(a[1])
            path = path.decode("latin-1")
            if not self.inside(path):
                self.fds.pop(int(ret), None)
                return
            flags = a[2]
            if "O_DIRECTORY" in flags:
                return
            exists = path in self.files
            if "O_CREAT" in flags and not exists:
                mode = int(a[3], 8) & ~self.umask & 0o777
                self.files[path] = {"mode": mode, "data": bytearray()}
            elif not exists:
                return  # a directory, or a file the replay never saw being made
            if "O_TRUNC" in flags:
                self.files[path]["data"] = bytearray()
            if "O_APPEND" in flags:
                raise core.Broken("oracle:savetrace-replay", "O_APPEND is outside the replay's file model")
            self.fds[int(ret)] = {"path": path, "off": 0}
            if "O_CREAT" in flags or "O_TRUNC" in flags:
                self.check(f"openat({self.rel(path)}, {flags}" + (f", {a[3]}" if len(a) > 3 else "") + ")")
        elif name == "close":
            self.fds.pop(int(a[0]), None)
        elif name in ("fchmodat", "chmod"):
            path, _ = strlit(a[1] if name == "fchmodat" else a[0])
            path = path.decode("latin-1")
            if path in self.files:
                self.files[path]["mode"] = int(a[2] if name == "fchmodat" else a[1], 8) & 0o777
                self.check(f"{name}({self.rel(path)}, {a[2] if name == 'fchmodat' else a[1]})")
        elif name == "fchmod":
            st = self.fds.get(int(a[0]))
            if st and st["path"] in self.files:
                self.files[st["path"]]["mode"] = int(a[1], 8) & 0o777
                self.check(f"fchmod({self.rel(st['path'])}, {a[1]})")
        elif name in ("rename", "renameat", "renameat2"):
            src, _ = strlit(a[0] if name == "rename" else a[1])
            dst, _ = strlit(a[1] if name == "rename" else a[3])
            src, dst = src.decode("latin-1"), dst.decode("latin-1")
            if src in self.files:
                self.files[dst] = self.files.pop(src)
                for st in self.fds.values():
                    if st["path"] == src:
                        st["path"] = dst
                if self.inside(dst):
                    self.check(f"rename({self.rel(src)}, {self.rel(dst)})")
        elif name in ("unlink", "unlinkat"):
            path, _ = strlit(a[0] if name == "unlink" else a[1])
            path = path.decode("latin-1")
            if self.files.pop(path, None) is not None:
                self.check(f"unlink({self.rel(path)})")
        elif name == "fsync":
            pass

    def snapshot(self, name):
        snap = {self.rel(p): (f["mode"], bytes(f["data"])) for p, f in self.files.items()}
        if not self.steps or self.steps[-1][2] != snap or self.steps[-1][0] != self.marker:
            self.steps.append((self.marker, name, snap))


def replay(d, umask):
    needles = [(k, v.encode()) for k, v in d["secrets"].items()]
    r = Replay(d["root"], umask, needles)
    for ev in d["events"]:
        r.apply(ev)
    # the replay must end where the real directory ended
    got = {r.rel(p): (f["mode"], bytes(f["data"])) for p, f in r.files.items()}
    if got != d["files"]:
        diff = sorted(set(got) ^ set(d["files"])) or [k for k in got if got[k] != d["files"].get(k)]
        raise core.Broken("oracle:savetrace-replay",
                          f"replayed final state differs from the real directory (umask {umask:o}): {diff[:4]}; "
                          f"replay {[(k, oct(v[0]), len(v[1])) for k, v in sorted(got.items())]} real {[(k, oct(v[0]), len(v[1])) for k, v in sorted(d['files'].items())]}")
    return r


def save_states(r, call_no, target_rel, tmp_rel):
    """the states (target | temporary sibling) the two files went through during CALL <call_no>, in the vocabulary of the
    Lean driver op `save`: "-" absent, "<mode>:empty|new|old"; first the state before the call; consecutive duplicates removed"""
    marks = [m for m, _, _ in r.steps]
    mine = [i for i, m in enumerate(marks) if m.startswith(f"CALL {call_no} ")]
    if not mine:
        return None
    before = r.steps[mine[0] - 1][2] if mine[0] > 0 else {}
    final = r.steps[mine[-1]][2].get(target_rel, (0, b""))[1]

    def show(snap, rel):
        if rel not in snap:
            return "-"
        mode, data = snap[rel]
        return f"{mode:o}:" + ("empty" if not data else "new" if data == final else "old")
    seq = []
    for snap in [before] + [r.steps[i][2] for i in mine]:
        x = show(snap, target_rel) + "|" + show(snap, tmp_rel)
        if not seq or seq[-1] != x:
            seq.append(x)
    pre = (before.get(target_rel, (None,))[0], before.get(tmp_rel, (None,))[0])
    renamed = any(r.steps[i][1] in ("rename", "renameat", "renameat2") for i in mine)
    return {"pre": pre, "states": seq, "renamed": renamed}
