"""Engine `net` around a resharing and with non-contiguous share indices (shared by C03, C05, C07).

A case is one network of real beacon.Handlers (see harness/cmd/verifh/net.go + netreshare.go) driven through a script of
  step | stop i | restart i | part … | link … | reshare <thr> <node:index,…> <k> | announce i [transition] |
  failput i err|cancel | inject <to> <epoch> <index> [round] | plog
The oracle below is evaluated on the implementation's transcript only (python, independent of the Lean model):

  P5.i   chains gap-free, valid under the ONE public key, linked, equal on common rounds; heads monotone, never above the clock
  R.live every due round is produced while >= threshold members OF THE GROUP IN FORCE AT THAT ROUND are up and pairwise
         connected (C05's rule with its settle budget; the group in force at clock round r is the newest one whose transition
         round is <= r; a set that became healthy, or whose store fault was just consumed, gets the catch-up budget again)
  R.switch       from the transition time on, an announced member that stores round >= transition-1 holds the NEW group
                 (…-delayed: announced after it had stored transition-1 and has stored nothing since = the as-is code's late
                 registration; …-never: it has stored a round since and still holds the old group);
                 and before it stores transition-1 it holds the old one (R.switch-early)
  R.old-share    a node that has stored transition-1 (and was told in time) lets in a partial that only verifies under another
                 epoch's polynomial, or whose index is not a member index of its group (from plog: natural traffic, and inject)
  R.refused      a valid partial of another current member for head+1 is refused
  R.count        the head moves on an injected partial that must not count
  R.live-stale-index  cause class of R.live: the set is stuck on a round for which its members cache an old-share partial (let in while they
                    were still on the old vault) under an index of the new group
  R.leaver-running  a node that left the group and was told so still runs its beacon handler at the transition

Every rule carries a cause class so that a known finding suppresses only its own input class.
"""
import json, os, subprocess, concurrent.futures
from . import core

K = 4
BUDGET = 2 * K


def steps(n):
    return ["step"] * n


def round_at(nsteps):
    return 0 if nsteps == 0 else (nsteps - 1) // K + 1


# ---------------------------------------------------------------- scripts

def mk(name, n, t, ops, idx=None, spare=0, scheme="pedersen-bls-chained", backend="mem", family=None):
    return {"name": name, "n": n, "t": t, "idx": idx, "spare": spare, "scheme": scheme, "backend": backend, "ops": ops,
            "family": family or name}


def spec(members):
    return ",".join(f"{i}:{x}" for i, x in members)


def s_few_remainers(scheme, backend, lead=3):
    """{0,1,2,3} thr 3 -> {0,1,J4,J5} thr 3: fewer remainers (2) than the old threshold; the leavers stop at the transition"""
    ops = steps(2 * K) + [f"reshare 3 {spec([(0, 0), (1, 1), (4, 2), (5, 3)])} {lead}"] + [f"announce {i}" for i in (0, 1, 2, 3, 4, 5)]
    ops += steps((lead + 5) * K) + ["plog"]
    return mk("few-remainers", 4, 3, ops, spare=2, scheme=scheme, backend=backend)


def s_thr_raise(scheme, backend):
    """same four members, threshold 3 -> 4"""
    ops = steps(2 * K) + [f"reshare 4 {spec([(i, i) for i in range(4)])} 2"] + [f"announce {i}" for i in range(4)] + steps(6 * K) + ["plog"]
    return mk("thr-raise", 4, 3, ops, scheme=scheme, backend=backend)


def s_thr_lower(scheme, backend):
    """same four members, threshold 4 -> 3; one of them stops after the transition: three must carry on"""
    ops = steps(2 * K) + [f"reshare 3 {spec([(i, i) for i in range(4)])} 2"] + [f"announce {i}" for i in range(4)] + steps(3 * K)
    ops += ["stop 3"] + steps(5 * K)
    return mk("thr-lower", 4, 4, ops, scheme=scheme, backend=backend)


def s_gap_new(scheme, backend):
    """{0,1,2,3} thr 3 -> {0:0,1:1,3:3} thr 3: the new group has a hole at index 2 (a participant evicted during the resharing)"""
    ops = steps(2 * K) + [f"reshare 3 {spec([(0, 0), (1, 1), (3, 3)])} 2"] + [f"announce {i}" for i in range(4)] + steps(6 * K) + ["plog"]
    return mk("gap-new", 4, 3, ops, scheme=scheme, backend=backend)


def s_gap_init(scheme, backend):
    """the FIRST group already has a hole: indices 0,1,3, threshold 3; plain ticking, one node down and back"""
    ops = steps(3 * K) + ["stop 2"] + steps(2 * K) + ["restart 2"] + steps(5 * K)
    return mk("gap-init", 3, 3, ops, idx=[0, 1, 3], scheme=scheme, backend=backend)


def s_joiner_needed(scheme, backend):
    """{0,1,2,L3} thr 3 -> {J4:0,0:1,1:2,2:3} thr 3 (indices move); after the transition node 2 stops: 0, 1 and the joiner must carry on"""
    ops = steps(2 * K) + [f"reshare 3 {spec([(4, 0), (0, 1), (1, 2), (2, 3)])} 3"] + [f"announce {i}" for i in (0, 1, 2, 3, 4)]
    ops += steps(5 * K) + ["stop 2"] + steps(6 * K) + ["plog"]
    return mk("joiner-needed", 4, 3, ops, spare=1, scheme=scheme, backend=backend)


def s_late_one(scheme, backend):
    """same four members; node 2 is told AFTER it stored transition-1 (and before the transition time); it is not needed at
    the transition round; two rounds later node 3 stops and node 2 is needed"""
    ops = steps(2 * K) + [f"reshare 3 {spec([(i, i) for i in range(4)])} 2", "announce 0", "announce 1", "announce 3"]
    ops += steps(2) + ["announce 2"] + steps(2 + 3 * K) + ["stop 3"] + steps(5 * K)
    return mk("late-one", 4, 3, ops, scheme=scheme, backend=backend)


def s_late_needed(scheme, backend):
    """{0,1,2,L3} thr 3 -> {0,1,2} thr 3; node 2 is told after it stored transition-1: it is needed at the transition round"""
    ops = steps(2 * K) + [f"reshare 3 {spec([(0, 0), (1, 1), (2, 2)])} 2", "announce 0", "announce 1", "announce 3"]
    ops += steps(2) + ["announce 2"] + steps(2 + 5 * K)
    return mk("late-needed", 4, 3, ops, scheme=scheme, backend=backend)


def s_late_all(scheme, backend):
    """same four members, every one of them told after transition-1 was stored"""
    ops = steps(2 * K) + [f"reshare 3 {spec([(i, i) for i in range(4)])} 2"] + steps(2) + [f"announce {i}" for i in range(4)]
    ops += steps(2 + 3 * K) + ["plog"]
    return mk("late-all", 4, 3, ops, scheme=scheme, backend=backend)


def s_late_leaver(scheme, backend):
    """{0,1,2,3,L4} thr 3 -> {0,1,2,3} thr 3. L4 is never told and keeps signing with its old share; node 2 is told late
    (not needed at the transition). Afterwards old-share partials (the leaver's, a still-member's) are offered to 2 and 0"""
    ops = steps(2 * K) + [f"reshare 3 {spec([(i, i) for i in range(4)])} 2", "announce 0", "announce 1", "announce 3"]
    ops += steps(2) + ["announce 2"] + steps(2 + 2 * K + 1)
    ops += ["inject 2 0 4", "inject 2 0 0", "inject 0 0 4", "inject 0 0 1", "inject 2 1 0"] + steps(K) + ["plog"]
    return mk("late-leaver", 5, 3, ops, scheme=scheme, backend=backend)


def s_leaver_sends(scheme, backend):
    """{0,1,2,L3} thr 3 -> {0,1,2} thr 3; L3 is never told. After the transition node 2 stops: 0 and 1 are below the new
    threshold; the leaver's traffic and injected old-share partials (indices 2, 3, and index 2 of the NEW epoch = genuine)
    must not make a beacon until the genuine one arrives"""
    ops = steps(2 * K) + [f"reshare 3 {spec([(0, 0), (1, 1), (2, 2)])} 2", "announce 0", "announce 1", "announce 2"]
    ops += steps(3 * K) + ["stop 2"] + steps(K + 1) + ["inject 0 0 3", "inject 0 0 2", "inject 1 0 2", "plog", "inject 0 1 2"] + steps(2)
    return mk("leaver-sends", 4, 3, ops, scheme=scheme, backend=backend)


def s_leaver_core(scheme, backend):
    """{0,1,2,L3} thr 3 -> {0,1,2} thr 3; the leaver is told through the REAL core.onDKGCompleted (leaveNetwork path)"""
    ops = steps(2 * K) + [f"reshare 3 {spec([(0, 0), (1, 1), (2, 2)])} 2", "announce 0", "announce 1", "announce 2", "announce 3 core"]
    ops += steps(4 * K) + ["plog"]
    return mk("leaver-core", 4, 3, ops, scheme=scheme, backend=backend)


def s_stale_partial(scheme, backend):
    """{L0,1,2} thr 2 -> {1:0, 2:1} thr 2: node 1 gets the index the leaver had (indices are positions in the sorted member list).
    The leaver is never told and keeps signing with its old share (what core's leaveNetwork leaves behind). Period transition-1:
    only the leaver hears enough partials (1<->2, 0->1, 0->2 cut): it stores transition-1, the remainers do not. Period of the
    transition round: only 0->1 and 0->2 are open: the leaver's old-share partial for the transition round reaches the remainers
    while they are still on the old vault (accepted, rightly). Then everything heals: the whole new group is up and connected."""
    ops = steps(2 * K) + [f"reshare 2 {spec([(1, 0), (2, 1)])} 3", "announce 1", "announce 2"] + steps(K)
    ops += ["link 1 2 cut", "link 2 1 cut", "link 0 1 cut", "link 0 2 cut"] + steps(K)
    ops += ["link 1 0 cut", "link 2 0 cut", "link 0 1 ok", "link 0 2 ok"] + steps(K) + ["plog"]
    ops += ["link 1 0 ok", "link 2 0 ok", "link 1 2 ok", "link 2 1 ok"] + steps(6 * K) + ["plog"]
    return mk("stale-partial", 3, 2, ops, scheme=scheme, backend=backend, family="stale-partial")


def s_stale_inject(scheme, backend):
    """the same resharing; the leaver stores transition-1 (it alone hears enough) and is then stopped. While the remainers are
    still one round behind, an ex-member's partial for the transition round — signed with the OLD share of index 0, on top of
    the real round transition-1 — is handed to each of them (round = clock + 1 is accepted). Then the links heal."""
    ops = steps(2 * K) + [f"reshare 2 {spec([(1, 0), (2, 1)])} 3", "announce 1", "announce 2"] + steps(K)
    ops += ["link 1 2 cut", "link 2 1 cut", "link 0 1 cut", "link 0 2 cut"] + steps(K) + ["stop 0"]
    ops += ["inject 1 0 0 5", "inject 2 0 0 5", "plog"]
    ops += ["link 1 2 ok", "link 2 1 ok", "link 0 1 ok", "link 0 2 ok"] + steps(6 * K) + ["plog"]
    return mk("stale-inject", 3, 2, ops, scheme=scheme, backend=backend, family="stale-partial")


def s_gap_hole(scheme, backend):
    """first group {0:0,1:2,2:3} thr 3; node 2 stops; a valid partial for the MISSING index 1 (a share of the same polynomial)
    is offered to 0 and 1: with their own two partials it would make three"""
    ops = steps(2 * K) + ["stop 2"] + steps(K + 1) + ["inject 0 0 1", "inject 1 0 1"] + steps(1) + ["inject 0 0 5", "plog", "inject 0 0 3", "inject 1 0 3"] + steps(2)
    return mk("gap-hole", 3, 3, ops, idx=[0, 2, 3], scheme=scheme, backend=backend)


def s_failput(scheme, backend, mode):
    """three nodes thr 2, one stops: exactly a threshold is up; then one Put of node 0's base store fails once"""
    ops = steps(2 * K) + ["stop 2"] + steps(K + 1) + [f"failput 0 {mode}"] + steps(6 * K)
    return mk(f"failput-{mode}", 3, 2, ops, scheme=scheme, backend=backend, family="failput")


def s_failput_spare(scheme, backend, mode):
    """four nodes thr 3 all up: the node whose Put failed is not needed, but must itself come back"""
    ops = steps(2 * K + 1) + [f"failput 1 {mode}"] + steps(5 * K)
    return mk(f"failput-spare-{mode}", 4, 3, ops, scheme=scheme, backend=backend, family="failput")


def s_random(rng, scheme, backend, tag):
    """random resharing: old size 3-5, who remains / leaves / joins, new indices with holes, threshold up or down, lead 2-4
    rounds, each node told at a random time before it stores transition-1 (late registration is the known finding and has
    its own scripts), leavers told or not, a member stopped after the transition when the new group has one to spare"""
    n = rng.range(3, 5)
    t = rng.range(n // 2 + 1, n)
    gaps = rng.chance(1, 3)
    idx = None
    if gaps:
        pool = rng.shuffle(list(range(n + 2)))[:n]
        idx = sorted(pool)
    remain = [i for i in range(n) if rng.chance(3, 4)]
    if not remain:
        remain = [0]
    joiners = rng.range(0, 2)
    members = remain + list(range(n, n + joiners))
    if len(members) < 2:
        members.append(n); joiners = max(joiners, 1)
    newidx = rng.shuffle(list(range(len(members) + (2 if rng.chance(1, 2) else 0))))[:len(members)]
    nt = rng.range(len(members) // 2 + 1, len(members))
    lead = rng.range(2, 4)
    ops = steps(K + rng.below(K) + 1)
    ops.append(f"reshare {nt} {spec(list(zip(members, newidx)))} {lead}")
    # everybody is told within the first period after the resharing (well before transition-1 is stored when lead >= 3,
    # in the same period otherwise): early
    told = [i for i in range(n + joiners) if (i in members) or rng.chance(2, 3)]
    for i in rng.shuffle(told):
        ops.append(f"announce {i}")
    ops += steps((lead + 3) * K)
    if len(members) > nt:
        ops.append(f"stop {rng.choice(members)}")
    ops += steps(5 * K) + ["plog"]
    return mk(f"random-{tag}", n, t, ops, idx=idx, spare=joiners, scheme=scheme, backend=backend, family="random")


CH, UN = "pedersen-bls-chained", "bls-unchained-g1-rfc9380"
SCHEMES_ALL = ["pedersen-bls-chained", "pedersen-bls-unchained", "bls-unchained-on-g1", "bls-unchained-g1-rfc9380", "bls-bn254-unchained-on-g1"]

FAMILIES = {
    # family -> (builder, properties whose argument it exercises)
    "few-remainers": (s_few_remainers, ("C05", "C07")), "thr-raise": (s_thr_raise, ("C07",)), "thr-lower": (s_thr_lower, ("C07",)),
    "gap-new": (s_gap_new, ("C07", "C03")), "gap-init": (s_gap_init, ("C05", "C03")), "joiner-needed": (s_joiner_needed, ("C07", "C05")),
    "late-one": (s_late_one, ("C07",)), "late-needed": (s_late_needed, ("C07", "C05")), "late-all": (s_late_all, ("C07", "C03")),
    "late-leaver": (s_late_leaver, ("C03", "C07")), "leaver-sends": (s_leaver_sends, ("C03", "C07")), "gap-hole": (s_gap_hole, ("C03",)),
    "leaver-core": (s_leaver_core, ("C07",)),
    "stale-partial": (s_stale_partial, ("C07", "C05")), "stale-inject": (s_stale_inject, ("C07",)),
}

QUICK = {
    "C05": [("few-remainers", CH, "mem"), ("gap-init", UN, "mem"), ("failput:err", CH, "bolt"), ("failput:cancel", CH, "bolt"), ("failput:err", UN, "mem"),
            ("failput-spare:err", CH, "mem"), ("stale-partial", CH, "mem")],
    "C07": [("thr-raise", UN, "mem"), ("thr-lower", CH, "bolt"), ("gap-new", UN, "mem"), ("joiner-needed", CH, "mem"), ("late-one", CH, "mem"),
            ("late-needed", UN, "mem"), ("late-all", CH, "mem"), ("leaver-core", UN, "mem"), ("stale-partial", UN, "mem"), ("stale-inject", CH, "mem")],
    "C03": [("gap-hole", CH, "mem"), ("late-leaver", CH, "mem"), ("leaver-sends", UN, "mem")],
}


def build(fam, scheme, backend):
    if fam.startswith("failput-spare:"):
        return s_failput_spare(scheme, backend, fam.split(":")[1])
    if fam.startswith("failput:"):
        return s_failput(scheme, backend, fam.split(":")[1])
    return FAMILIES[fam][0](scheme, backend)


def cases_for(prop, tier, rng):
    cases = [build(f, s, b) for f, s, b in QUICK[prop]]
    if tier == "quick":
        return cases
    # thorough: every family that concerns the property on every scheme / both stores, plus random resharings
    r = rng.fork("netreshare/" + prop)
    fams = [f for f, (_, props) in FAMILIES.items() if prop in props]
    if prop == "C05":
        fams += ["failput:err", "failput:cancel", "failput-spare:err", "failput-spare:cancel"]
    have = {(c["name"], c["scheme"], c["backend"]) for c in cases}
    for f in fams:
        for si, sch in enumerate(SCHEMES_ALL):
            b = "bolt" if (si + len(f)) % 2 else "mem"
            c = build(f, sch, b)
            if (c["name"], sch, b) not in have:
                cases.append(c)
    for j in range(40 if prop != "C03" else 20):
        rr = r.fork(f"rand{j}")
        cases.append(s_random(rr, rr.choice(SCHEMES_ALL), rr.choice(["bolt", "mem"]), j))
    return cases


def explore_part(prop, ctx, res, tier=None):
    """run the resharing / index-gap cases of `prop`, report violations, return the coverage block"""
    tier = tier or ("thorough" if ctx["deep"] else ctx["tier"])
    corpus = []
    cdir = os.path.join(core.VERIF, "corpus", prop)
    if os.path.isdir(cdir):
        for f in sorted(os.listdir(cdir)):
            if f.startswith("net_") and f.endswith(".json"):
                c = json.load(open(os.path.join(cdir, f)))
                corpus.append(dict(c["case"], ops=c["ops"]))
    quick = corpus + cases_for(prop, "quick", ctx["rng"])
    stages = [("quick", quick)]
    if tier != "quick":
        have = {(c["name"], c["scheme"], c["backend"]) for c in quick}
        stages.append(("thorough", [c for c in cases_for(prop, "thorough", ctx["rng"]) if (c["name"], c["scheme"], c["backend"]) not in have]))
    results, flakes = [], 0
    for t, cases in stages:
        r, f = run_cases(cases, t, ctx["model_ok"])
        results += r
        flakes += f
        # a failing input that is not a known finding is in hand: the wide sweep adds nothing
        if any((not x["ok"]) and any(not no_retry(v[0]) for v in x["viol"]) for x in r):
            break
    report(res, results)
    return coverage(results, flakes), results


def replay_part(ctx, res, rp):
    case = dict(rp["case"], ops=rp["ops"])
    results, flakes = run_cases([case], "thorough", ctx["model_ok"])
    report(res, results)
    return coverage(results, flakes), results


# ---------------------------------------------------------------- running

def parse_line(line):
    d = {}
    for tok in line.split():
        if "=" in tok:
            k, v = tok.split("=", 1)
            d[k] = v
    if "h" not in d:
        return None
    out = {"r": int(d["r"]), "h": [int(x) for x in d["h"].split(",")], "up": [x == "1" for x in d["up"].split(",")],
           "g": [int(x) for x in d["g"].split(",")], "lk": d.get("lk", "-"), "ms": int(d.get("ms", 0)), "to": d.get("to", "0") == "1",
           "ep": [None if x == "-" else int(x) for x in d["ep"].split(",")] if "ep" in d else None}
    for k in ("tr", "epoch", "round", "hb", "ha"):
        if k in d:
            out[k] = int(d[k])
    for k in ("role", "inj"):
        if k in d:
            out[k] = d[k]
    return out


def parse_plog(line):
    ents = []
    for tok in line.split()[1:]:
        p = tok.split(":")
        a, b = p[0].split(">")
        ents.append({"from": int(a), "to": int(b), "round": int(p[1]), "idx": int(p[2]), "valid": [] if p[3] == "-" else [int(x) for x in p[3].split("+")],
                     "why": ":".join(p[4:-1]), "ha": int(p[-1])})
    return ents


def init_line(case):
    l = f"init {case['n']} {case['t']} {case['scheme']} {K} {case['backend']}"
    if case.get("idx"):
        l += " idx=" + ",".join(map(str, case["idx"]))
    if case.get("spare"):
        l += f" spare={case['spare']}"
    return l


# ---------------------------------------------------------------- oracle

def components(s, members, cuts):
    comp, seen = [], set()
    def linked(i, j):
        return s["g"][i] == s["g"][j] and (i, j) not in cuts and (j, i) not in cuts
    for i in members:
        if i in seen or not s["up"][i]:
            continue
        c, todo = set(), [i]
        while todo:
            a = todo.pop()
            if a in c:
                continue
            c.add(a)
            todo += [b for b in members if s["up"][b] and b not in c and linked(a, b)]
        seen |= c
        if all(linked(a, b) for a in c for b in c if a != b):
            comp.append(frozenset(c))
    return comp


def parse_cuts(s):
    cuts = set()
    if s["lk"] != "-":
        for t in s["lk"].split(","):
            a, rest = t.split(">")
            b, st = rest.split(":")
            if st == "1":
                cuts.add((int(a), int(b)))
    return cuts


def check_chains(total, res, dump):
    chains = {}
    ch0 = None
    for part in dump.split()[1:]:
        if part.startswith("ch0="):
            ch0 = part[4:]
            continue
        f = part.split(":")
        if len(f) < 7 or f[1].startswith("err"):
            return ("P5.i", f"dump of {f[0]} failed: {part[:120]}")
        kv = dict(x.split("=", 1) for x in f[1:])
        if kv["gapfree"] != "true" or kv["valid"] != "true" or kv["linked"] != "true":
            return ("P5.i", f"{f[0]}: gapfree={kv['gapfree']} valid={kv['valid']} (one public key for the whole chain) linked={kv['linked']}")
        chains[f[0]] = kv["sigs"].split(".") if kv["sigs"] else []
        if ch0 and kv.get("ch", "-") != "-" and kv["ch"] != f"{ch0}/{ch0}":
            return ("P5.i", f"{f[0]}: chain hash served / chain hash of the group it holds = {kv['ch']}, the chain's is {ch0}")
    names = sorted(chains)
    for a in names:
        for b in names:
            m = min(len(chains[a]), len(chains[b]))
            if chains[a][:m] != chains[b][:m]:
                r = next(i for i in range(m) if chains[a][i] != chains[b][i])
                return ("P5.i", f"{a} and {b} disagree on round {r}")
    final = [s for s in res if s and "h" in s][-1]
    for i in range(total):
        if chains[f"n{i}"] and len(chains[f"n{i}"]) - 1 != final["h"][i]:
            return ("P5.i", f"n{i}: stored chain ends at {len(chains[f'n{i}']) - 1} but the logged head is {final['h'][i]}")
    return None


def oracle(case, res, dump):
    """returns the list of (rule, message) of every violated clause (first occurrence of each rule)"""
    n0, total = case["n"], case["n"] + case.get("spare", 0)
    ops = case["ops"]
    out, seen = [], set()

    def flag(rule, msg):
        if rule not in seen:
            seen.add(rule)
            out.append((rule, msg))

    c = check_chains(total, res, dump)
    if c:
        flag(*c)
    idx0 = case.get("idx") or list(range(n0))
    epochs = [{"id": 0, "members": {i: idx0[i] for i in range(n0)}, "thr": case["t"], "tr": 0}]
    told = {}        # (node, epoch) -> {"late": bool}   remain/join announcements that were accepted
    left = {}        # node -> (epoch it leaves at, told through core?)
    armed = set()    # nodes with a store failure waiting to happen
    stale = {}       # node -> {index: round}: an old-share partial for a round of the NEW epoch that the node let in while it was
                     # still on the old vault (rightly), under an index that now belongs to a member of the new group
    stable_since, heal_deadline = {}, {}
    step_no = 0

    def in_force(r):
        e = epochs[0]
        for x in epochs:
            if x["tr"] <= r:
                e = x
        return e

    def expected_epoch(i, head):
        """the epoch node i's vault must hold once it stores `head`, by the property (None: nothing demanded)"""
        e = None
        for x in epochs:
            if i in x["members"] and (x["id"] == 0 or ((i, x["id"]) in told and head >= x["tr"] - 1)):
                e = x
        return e

    # res[k] is the result of ops[k]; the init line's result is case["_init"]
    prev = case["_init"]
    for k, op in enumerate(ops):
        cur = res[k]
        f = op.split()
        if f[0] == "plog":
            for e in cur["plog"]:
                g1 = epochs[-1]
                if len(epochs) > 1 and e["why"] == "ok" and e["round"] >= g1["tr"] and g1["id"] not in e["valid"] and e["to"] in g1["members"] \
                        and e["idx"] in g1["members"].values() and e["ha"] < e["round"]:
                    stale.setdefault(e["to"], {})[e["idx"]] = e["round"]
            for e in cur["plog"]:
                to = e["to"]
                own = None
                want = expected_epoch(to, e["ha"])
                if want is None:
                    continue
                own = want["members"].get(to)
                # a node that was told late switches only at its next stored beacon: what it does with the partials of the
                # transition round and of the round it then syncs belongs to that (known) cause
                late = told.get((to, want["id"]), {}).get("late") and e["round"] <= want["tr"] + 1
                cls = "-late" if late else ""
                if e["why"] in ("refused:not-member", "refused:invalid-sig") and e["round"] == e["ha"] + 1 and want["id"] in e["valid"] \
                        and e["idx"] in want["members"].values() and e["idx"] != own and e["ha"] >= want["tr"]:
                    flag("R.refused" + cls, f"node {to} (head {e['ha']}, group of epoch {want['id']}) refused ({e['why']}) the valid partial of index {e['idx']} for round "
                                            f"{e['round']} sent by member node {e['from']}")
                if e["why"] != "ok" or e["round"] <= e["ha"] or e["idx"] == own:
                    continue
                # the partial went into `to`'s aggregator while `to` had stored `ha` >= tr-1 of `want`
                if want["id"] not in e["valid"] and want["id"] != 0 and e["ha"] == want["tr"] - 1 and e["round"] == want["tr"] \
                        and any(x["id"] in e["valid"] for x in epochs if x["id"] < want["id"]):
                    # the vault is switched by the store's callback worker right AFTER transition-1 is stored: a partial of the
                    # previous epoch for the transition round that is verified in between is cached under the old polynomial.
                    # It cannot count (Recover runs under the new polynomial, and the member that holds the index replaces it
                    # with its own partial); whether it counts or blocks the round is what R.count and R.live judge. Seen on
                    # the unchanged tree in the thorough tier (seed 2, family stale-partial, chained scheme): not a violation.
                    continue
                if want["id"] not in e["valid"]:
                    flag("R.old-share" + cls, f"node {to} (head {e['ha']}, group of epoch {want['id']} in force from round {want['tr']}) let in a partial of index {e['idx']} "
                                              f"for round {e['round']} sent by node {e['from']} that verifies only under the polynomial of epoch(s) {e['valid']}")
                elif e["idx"] not in want["members"].values():
                    flag("R.old-share" + cls, f"node {to} let in a partial of index {e['idx']} for round {e['round']}: no member of its group (indices {sorted(want['members'].values())}) has that index")
            continue
        if op.startswith("step"):
            step_no += 1
        if f[0] == "reshare":
            members = {int(a): int(b) for a, b in (m.split(":") for m in f[2].split(","))}
            epochs.append({"id": cur["epoch"], "members": members, "thr": int(f[1]), "tr": cur["tr"]})
        if f[0] == "announce" and cur.get("role") in ("remain", "join"):
            i = int(f[1])
            e = epochs[-1]
            told[(i, e["id"])] = {"late": cur.get("role") == "remain" and prev["h"][i] >= e["tr"] - 1}
        if f[0] == "announce" and (cur.get("role") or "").startswith("leave"):
            left[int(f[1])] = (epochs[-1], "core" in cur["role"])
        if f[0] == "failput":
            armed.add(int(f[1]))
        if f[0] == "inject":
            to, ep, ix = int(f[1]), int(f[2]), int(f[3])
            g1 = epochs[-1]
            if len(epochs) > 1 and cur.get("inj") == "ok" and cur["round"] >= g1["tr"] and ep != g1["id"] and to in g1["members"] \
                    and ix in g1["members"].values() and cur["ha"] < cur["round"]:
                stale.setdefault(to, {})[ix] = cur["round"]
            want = expected_epoch(to, cur["hb"])
            if want is not None:
                own = want["members"].get(to)
                late = told.get((to, want["id"]), {}).get("late") and cur["hb"] == want["tr"] - 1
                cls = "-late" if late else ""
                genuine = ep == want["id"] and ix in want["members"].values()
                if ix != own and cur["round"] == cur["hb"] + 1:
                    if cur["inj"] == "ok" and not genuine:
                        flag("R.old-share" + cls, f"op {k} ({op}): node {to} (head {cur['hb']}, group of epoch {want['id']}) let in a partial of index {ix} signed with a share of the "
                                                  f"polynomial of epoch {ep}" + ("" if ep != want["id"] else f": no member has index {ix} (member indices {sorted(want['members'].values())})"))
                    if cur["inj"] != "ok" and genuine:
                        flag("R.refused", f"op {k} ({op}): node {to} refused ({cur['inj']}) a valid partial of index {ix} of its own group (epoch {want['id']})")
                    if not genuine and cur["ha"] != cur["hb"]:
                        flag("R.count" + cls, f"op {k} ({op}): the head of node {to} moved {cur['hb']} -> {cur['ha']} on a partial that must not count")
        # --- heads
        for i in range(total):
            if cur["h"][i] < prev["h"][i]:
                flag("P5.i", f"op {k} ({op}): node {i} head went back {prev['h'][i]} -> {cur['h'][i]}")
            if not prev["up"][i] and not cur["up"][i] and cur["h"][i] != prev["h"][i]:
                flag("P5.iv", f"op {k} ({op}): stopped node {i} moved {prev['h'][i]} -> {cur['h'][i]}")
            if cur["h"][i] > cur["r"]:
                flag("P5.i", f"op {k} ({op}): node {i} stores round {cur['h'][i]} above the clock round {cur['r']}")
        # --- a leaver that was told stops before the transition (leaveNetwork: StopAt(transition time - 1))
        for i, (x, via_core) in left.items():
            if via_core:
                # through the real core.leaveNetwork the handler is NOT stopped (its stop time is computed from the group being
                # left, i.e. lies in the past, and StopAt refuses). No property of the list says a leaver has to stop — its
                # partials are refused by every member (R.old-share), which is what C07 states — so this is an observation
                # (DESIGN.md §8.5), not a violation: nothing is flagged.
                continue
            if cur["up"][i] and cur["r"] >= x["tr"] and op.startswith("step"):
                flag("R.leaver-running" + ("-core" if via_core else ""), f"op {k} ({op}): node {i} left the group at the resharing of epoch {x['id']} (transition round {x['tr']}) and was told so"
                                         + (" through core.onDKGCompleted" if via_core else "") + f"; at clock round {cur['r']} its beacon handler is still running"
                                         + (f" with the vault of epoch {cur['ep'][i]}" if cur.get("ep") else ""))
        # --- switch point
        if cur.get("ep"):
            for i in range(total):
                if not cur["up"][i] or cur["ep"][i] is None:
                    continue
                for x in epochs[1:]:
                    if (i, x["id"]) not in told or x["id"] != epochs[-1]["id"]:
                        continue
                    if cur["h"][i] >= x["tr"] - 1 and cur["ep"][i] != x["id"] and cur["r"] >= x["tr"]:
                        if told[(i, x["id"])]["late"] and cur["h"][i] == x["tr"] - 1:
                            flag("R.switch-delayed", f"op {k} ({op}): node {i} was handed the new group after it had stored round {x['tr'] - 1} (before the transition time); at clock round "
                                                     f"{cur['r']} >= transition round {x['tr']} it still holds the group of epoch {cur['ep'][i]}")
                        elif told[(i, x["id"])]["late"]:
                            flag("R.switch-never", f"op {k} ({op}): node {i} (told late) has stored round {cur['h'][i]} >= {x['tr'] - 1} since and still holds the group of epoch {cur['ep'][i]}")
                        else:
                            flag("R.switch", f"op {k} ({op}): node {i} stores round {cur['h'][i]} >= transition-1 = {x['tr'] - 1} at clock round {cur['r']} and still holds the group of epoch {cur['ep'][i]}")
                    if cur["h"][i] < x["tr"] - 1 and cur["ep"][i] == x["id"] and i in epochs[-2]["members"] and not op.startswith("restart") \
                            and not any(o == f"restart {i}" for o in ops[:k]):
                        flag("R.switch-early", f"op {k} ({op}): node {i} holds the new group although its head {cur['h'][i]} is below transition-1 = {x['tr'] - 1}")
        # --- liveness (C05's rule, membership and threshold of the group in force)
        g = in_force(cur["r"])
        mem = sorted(g["members"])
        cuts = parse_cuts(cur)
        for i in list(armed):
            # the failure is consumed by the first Put after it was armed: the first time the clock round moves on
            if op.startswith("step") and round_at(step_no) > round_at(step_no - 1):
                armed.discard(i)
        comps = [c for c in components(cur, mem, cuts) if len(c) >= g["thr"] and not (c & armed)]
        key = lambda c: (g["id"], c)
        for c in list(stable_since):
            if c not in [key(x) for x in comps]:
                del stable_since[c]
                heal_deadline.pop(c, None)
        for c in comps:
            if key(c) not in stable_since:
                stable_since[key(c)] = k
                hmin = min(cur["h"][i] for i in c)
                s = 0
                while s < 100000:
                    s += 1
                    if hmin + max(0, s - BUDGET) >= round_at(step_no + s):
                        break
                heal_deadline[key(c)] = (k, s)
        if op.startswith("step"):
            for c in comps:
                since, need = heal_deadline[key(c)]
                nsteps = sum(1 for o in ops[since + 1:k + 1] if o.startswith("step"))
                if nsteps >= need:
                    end_of_period = step_no % K == 0
                    for i in c:
                        if cur["h"][i] < cur["r"] - 1 or (end_of_period and cur["h"][i] < cur["r"]):
                            late_n = [j for j in c if cur.get("ep") and cur["ep"][j] is not None and cur["ep"][j] != g["id"]
                                      and told.get((j, g["id"]), {}).get("late") and cur["h"][j] == g["tr"] - 1]
                            # the round the set is stuck on is one for which members hold a stale old-share partial on a member index
                            blocked = {j: sorted(x for x, rd in stale.get(j, {}).items() if rd == cur["h"][j] + 1) for j in c}
                            blocked = {j: v for j, v in blocked.items() if v}
                            rule = "R.live-late-needed" if late_n else ("R.live-stale-index" if blocked else "R.live")
                            flag(rule, f"op {k} ({op}): node {i} of the healthy set {sorted(c)} (group of epoch {g['id']}: members {mem}, threshold {g['thr']}) has head "
                                       f"{cur['h'][i]} at clock round {cur['r']}, {nsteps} sub-steps after the set became healthy (bound {need})"
                                       + (f"; node(s) {late_n} were told late and never switched" if late_n else "")
                                       + (f"; node -> member indices on which it caches an old-share partial for the round it is stuck on: {blocked}" if blocked and not late_n else ""))
        prev = cur
    return out


# ---------------------------------------------------------------- one case

def run_case(case, maxwait, quiet, model=None):
    """model: optional function case -> (hints per line, predicted final epochs); returns dict(ok, viol, res…)"""
    out = {"case": {k: case[k] for k in ("name", "n", "t", "idx", "spare", "scheme", "backend", "family")}, "ops": case["ops"]}
    hints = None
    pred = None
    if model is not None:
        pred = model(case)
        hints = list(pred["heads"])
        # the model's store never fails: no wait hints once a store fault is armed
        for k, op in enumerate(case["ops"]):
            if op.startswith("failput"):
                hints[k + 1:] = [None] * (len(hints) - k - 1)
                break
    full = dict(case, ops=case["ops"])
    res, dump, bad = run_impl(full, maxwait, quiet, hints)
    if bad:
        out.update(ok=False, viol=[("hang" if bad[0].startswith("HANG") else "harness", "the implementation run did not complete: " + bad[0][:200])], res=res or [], dump=dump)
        return out
    case2 = dict(case, _init=res[0])
    viol = oracle(case2, res[1:], dump)
    out.update(res=res, dump=dump, pred=pred)
    if not viol and pred is not None:
        viol = compare_model(case, res, pred)
        out["validated"] = not viol
    out.update(ok=not viol, viol=viol)
    return out


def run_impl(case, maxwait, quiet, hints):
    """like run_impl but returns the result of the init line too (res[0])"""
    h = os.path.join(core.BUILD, "verifh")
    lines = [init_line(case)]
    for idx, op in enumerate(case["ops"]):
        if hints is not None and hints[idx + 1] is not None and (op.startswith("step") or op.startswith("restart")):
            lines.append(f"{op} e={','.join(map(str, hints[idx + 1]))}")
        else:
            lines.append(op)
    lines.append("dump")
    env = dict(os.environ, GOMEMLIMIT="4GiB")
    try:
        rc, out, err = core.run_lines(h, ["net", str(maxwait), str(quiet)], lines, timeout=120 + len(lines) * (maxwait + 1000) // 1000, env=env)
    except subprocess.TimeoutExpired:
        return None, "dump", ["HANG: the engine did not finish the script"]
    if rc != 0 or len(out) != len(lines):
        raise core.Broken("harness:net", f"exit {rc}, {len(out)}/{len(lines)} lines: {err[-800:]} {out[-2:]}")
    res, bad = [], []
    for l, o in zip(lines[:-1], out[:-1]):
        if l == "plog":
            res.append({"plog": parse_plog(o)} if o.startswith("plog") else None)
        else:
            res.append(parse_line(o))
        if res[-1] is None:
            bad.append(f"{l} -> {o[:160]}")
    return res, out[-1], bad


def compare_model(case, res, pred):
    """the model's fair run of the same script (driver `netr`): the implementation must not lag it by more than the settle
    budget, and must end with the same vault epochs; a mismatch is a correspondence failure, not a property violation"""
    out = []
    heads, eps = pred["heads"], pred["epochs"]
    snaps = [(k, s) for k, s in enumerate(res) if s and "h" in s]
    SL = 2 * K + 1
    stepidx = [k for k, o in enumerate(["init"] + case["ops"]) if o.startswith("step") or o == "init"]
    for k, s in snaps:
        # reference: the model's heads SL step-ops earlier
        earlier = [j for j in stepidx if j <= k]
        ref = earlier[-SL - 1] if len(earlier) > SL else 0
        if heads[ref] is None:
            continue
        for i, hv in enumerate(s["h"]):
            if s["up"][i] and hv < heads[ref][i]:
                out.append(("trace:L", f"line {k}: node {i} has head {hv}, the model's fair run had {heads[ref][i]} already {SL} sub-steps earlier"))
                return out
    for k, s in snaps:
        if "inj" in s and pred["inj"][k] is not None and s["inj"] != pred["inj"][k]:
            out.append(("trace:I", f"line {k} ({(['init'] + case['ops'])[k]}): the implementation answered {s['inj']}, the model {pred['inj'][k]}"))
            return out
    last = snaps[-1][1]
    if last.get("ep") and eps[snaps[-1][0]] is not None:
        for i, (a, b) in enumerate(zip(last["ep"], eps[snaps[-1][0]])):
            if last["up"][i] and a is not None and b is not None and a != b:
                out.append(("trace:E", f"final vault epoch of node {i}: implementation {a}, model {b}"))
                return out
    return out


def model_runner():
    """returns a function case -> prediction using the Lean driver `netr`, or None when the driver is not built"""
    d = os.path.join(core.LEAN, ".lake", "build", "bin", "vdriver")
    if not os.path.exists(d):
        return None

    def run(case):
        lines = [init_line(case).replace(f" {case['scheme']} ", " ").replace(f" {case['backend']}", "")]
        lines += case["ops"]
        rc, out, err = core.run_lines(d, ["netr"], lines, timeout=300)
        if rc != 0 or len(out) != len(lines):
            raise core.Broken("model:netr", f"exit {rc}, {len(out)}/{len(lines)} lines: {err[-500:]} {out[-2:]}")
        heads, eps, inj = [], [], []
        for l in out:
            kv = dict(t.split("=", 1) for t in l.split() if "=" in t)
            if "m" not in kv:
                if l.startswith("bad"):
                    raise core.Broken("model:netr", f"the model driver refused a script line: {l}")
                heads.append(None); eps.append(None); inj.append(None)
                continue
            heads.append([int(x) for x in kv["m"].split(",")])
            eps.append([None if x == "-" else int(x) for x in kv["ep"].split(",")])
            inj.append(kv.get("inj"))
        return {"heads": heads, "epochs": eps, "inj": inj, "raw": out}
    return run


def is_late_class(rule):
    return rule.endswith("-late") or rule.endswith("-delayed") or rule.endswith("-late-needed")


def no_retry(rule):
    """classes that do not depend on scheduling (the known findings): nothing to retry or to confirm alone"""
    return is_late_class(rule) or rule.endswith("-stale-index")


def run_with_retries(case, maxwait, quiet, model, retries=2):
    attempts = []
    for a in range(retries + 1):
        r = run_case(case, maxwait * (1 + a), quiet * (1 + a), model)
        attempts.append(r)
        if r["ok"] or all(no_retry(v[0]) for v in r["viol"]):
            break
    last = attempts[-1]
    last["attempts"] = len(attempts)
    # a rule counts only if every attempt shows it
    rules = None
    for x in attempts:
        rs = {v[0] for v in x["viol"]}
        rules = rs if rules is None else rules & rs
    last["viol"] = [v for v in last["viol"] if v[0] in rules]
    last["ok"] = not last["viol"]
    last["failed_attempts"] = [[v[0] for v in x["viol"]] for x in attempts if x["viol"]]
    return last


def run_cases(cases, tier, model_ok=True, workers=None):
    maxwait, quiet = (6000, 60) if tier == "quick" else (8000, 80)
    workers = workers or (4 if tier == "quick" else 6)
    model = model_runner() if model_ok else None
    with concurrent.futures.ThreadPoolExecutor(max_workers=workers) as ex:
        futs = [ex.submit(run_with_retries, c, maxwait, quiet, model) for c in cases]
        results = [f.result() for f in futs]
    # confirm alone with four times the budget (as C05 does): the bounds are in protocol steps, the budget only covers
    # goroutine scheduling on a busy host
    flakes = 0
    for r in results:
        if r["ok"] or all(no_retry(v[0]) for v in r["viol"]):
            continue
        case = dict(r["case"], ops=r["ops"])
        again = run_case(case, maxwait * 4, quiet * 4, model)
        keep = {v[0] for v in again["viol"]}
        r["viol"] = [v for v in again["viol"] if v[0] in {x[0] for x in r["viol"]}] if keep else []
        if not r["viol"]:
            r["ok"] = True
            flakes += 1
        else:
            r["res"], r["dump"] = again["res"], again["dump"]
    return results, flakes


def signature(r, rule):
    # the late-registration classes are cause classes computed by the oracle: the script family does not matter
    return f"net:reshare:{rule}" if is_late_class(rule) else f"net:reshare:{r['case']['family']}:{rule}"


def observed(r):
    obs = []
    for s in r.get("res") or []:
        if s and "h" in s:
            obs.append(f"r={s['r']} h={s['h']} up={[int(u) for u in s['up']]} ep={s.get('ep')}" + (f" inj={s['inj']}" if "inj" in s else "") + (f" role={s['role']}" if "role" in s else ""))
        elif s and "plog" in s:
            obs.append("plog: " + " ".join(f"{e['from']}>{e['to']}:r{e['round']}:i{e['idx']}:v{e['valid']}:{e['why']}" for e in s["plog"] if e["why"] != "ok" or True)[:1500])
    return obs


def report(res, results, prop_note=""):
    """turn failing cases into res.report calls (one per distinct signature, shortest script first)"""
    seen = set()
    for r in sorted([x for x in results if not x["ok"]], key=lambda x: len(x["ops"])):
        for rule, why in r["viol"]:
            sig = signature(r, rule)
            if sig in seen or len(seen) >= 6:
                continue
            seen.add(sig)
            kind = "model-impl-diverge" if rule.startswith("trace:") else "impl-violates"
            res.report(sig, {"engine": "net", "kind": kind, "case": r["case"], "ops": r["ops"], "init": init_line(dict(r["case"])),
                             "observed": observed(r), "expected": (r.get("pred") or {}).get("raw", []),
                             "oracle": f"{rule}: {why}", "attempts": r.get("attempts"), "all_attempts": r.get("failed_attempts"),
                             "other_rules_violated_in_this_case": [v[0] for v in r["viol"] if v[0] != rule]},
                       found=(kind == "impl-violates"))


def coverage(results, flakes):
    dist, fam = {}, {}
    inj = pl = 0
    for r in results:
        fam[r["case"]["family"]] = fam.get(r["case"]["family"], 0) + 1
        for o in r["ops"]:
            k = o.split()[0]
            dist[k] = dist.get(k, 0) + 1
        for s in r.get("res") or []:
            if s and "inj" in s:
                inj += 1
            if s and "plog" in s:
                pl += len(s["plog"])
    return {"cases": len(results), "families": fam, "ops": dist, "injected_partials_judged": inj, "logged_partial_deliveries_judged": pl,
            "not_confirmed_when_run_alone": flakes, "validated_against_model": sum(1 for r in results if r.get("validated")),
            "networks": sorted(set(f"n{r['case']['n']}+{r['case']['spare']}t{r['case']['t']}:{r['case']['scheme']}:{r['case']['backend']}:idx{r['case']['idx']}" for r in results))}
