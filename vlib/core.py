"""Shared machinery for /verif/check: build steps, model/impl runners, diff, evidence, findings."""
import fcntl, hashlib, json, os, re, shutil, subprocess, sys, tempfile, time

VERIF = os.path.dirname(os.path.dirname(os.path.abspath(__file__)))
REPO = os.environ.get("VERIF_REPO", "/repo")
BUILD = os.path.join(VERIF, ".build")
LEAN = os.path.join(VERIF, "lean")
GOENV = dict(os.environ, GOFLAGS="-mod=mod", GOPROXY="off")
GOENV.pop("GOTOOLCHAIN", None) if os.environ.get("GOTOOLCHAIN") == "local" else None
GOENV.pop("GOSUMDB", None) if os.environ.get("GOSUMDB") == "off" else None
ALLOWED_AXIOMS = {"propext", "Classical.choice", "Quot.sound"}
FORBIDDEN = re.compile(r"\bsorry\b|\badmit\b|^\s*axiom\s|native_decide|bv_decide|implemented_by|\bunsafe\s|maxHeartbeats\s+0")


class Rng:
    """splitmix64; every random choice in a check derives from one of these."""
    def __init__(self, seed):
        self.s = seed & 0xFFFFFFFFFFFFFFFF
    def next(self):
        self.s = (self.s + 0x9E3779B97F4A7C15) & 0xFFFFFFFFFFFFFFFF
        z = self.s
        z = ((z ^ (z >> 30)) * 0xBF58476D1CE4E5B9) & 0xFFFFFFFFFFFFFFFF
        z = ((z ^ (z >> 27)) * 0x94D049BB133111EB) & 0xFFFFFFFFFFFFFFFF
        return z ^ (z >> 31)
    def below(self, n):
        return self.next() % n if n > 0 else 0
    def range(self, lo, hi):  # inclusive
        return lo + self.below(hi - lo + 1)
    def choice(self, xs):
        return xs[self.below(len(xs))]
    def chance(self, num, den):
        return self.below(den) < num
    def fork(self, tag):
        h = int.from_bytes(hashlib.sha256(f"{self.s}:{tag}".encode()).digest()[:8], "big")
        return Rng(h)
    def shuffle(self, xs):
        xs = list(xs)
        for i in range(len(xs) - 1, 0, -1):
            j = self.below(i + 1)
            xs[i], xs[j] = xs[j], xs[i]
        return xs


class BuildLock:
    def __enter__(self):
        os.makedirs(BUILD, exist_ok=True)
        self.f = open(os.path.join(BUILD, "lock"), "w")
        fcntl.flock(self.f, fcntl.LOCK_EX)
        return self
    def __exit__(self, *a):
        fcntl.flock(self.f, fcntl.LOCK_UN)
        self.f.close()


def sh(cmd, cwd=None, env=None, timeout=None, inp=None):
    p = subprocess.run(cmd, cwd=cwd, env=env, input=inp, stdout=subprocess.PIPE, stderr=subprocess.STDOUT,
                       timeout=timeout, text=True)
    return p.returncode, p.stdout


class Broken(Exception):
    """A proof obligation, the translator or the correspondence no longer checks."""
    def __init__(self, what, detail=""):
        super().__init__(what)
        self.what, self.detail = what, detail


def _newer(src_dir, target):
    if not os.path.exists(target):
        return True
    t = os.path.getmtime(target)
    for root, _, files in os.walk(src_dir):
        for f in files:
            if os.path.getmtime(os.path.join(root, f)) > t:
                return True
    return False


def regen():
    """P0: rebuild go2lean if needed and regenerate lean/Gen from /repo's working tree."""
    with BuildLock():
        g2l = os.path.join(BUILD, "go2lean")
        src = os.path.join(VERIF, "tools", "go2lean")
        if _newer(src, g2l):
            rc, out = sh(["go", "build", "-o", g2l, "."], cwd=src, env=GOENV)
            if rc != 0:
                raise RuntimeError("go2lean build failed:\n" + out)
        tmp = tempfile.mkdtemp(prefix="gen", dir=BUILD)
        try:
            rc, out = sh([g2l, REPO, tmp])
            if rc != 0:
                raise Broken("translator:go2lean", out.strip())
            # only touch files whose content changed, so lake stays incremental
            os.makedirs(os.path.join(LEAN, "Gen"), exist_ok=True)
            want = {"Gen.lean": os.path.join(tmp, "Gen.lean")}
            for f in os.listdir(os.path.join(tmp, "Gen")):
                want[os.path.join("Gen", f)] = os.path.join(tmp, "Gen", f)
            for rel, srcf in want.items():
                dst = os.path.join(LEAN, rel)
                new = open(srcf).read()
                if not os.path.exists(dst) or open(dst).read() != new:
                    open(dst, "w").write(new)
            for f in os.listdir(os.path.join(LEAN, "Gen")):
                if os.path.join("Gen", f) not in want:
                    os.remove(os.path.join(LEAN, "Gen", f))
        finally:
            shutil.rmtree(tmp, ignore_errors=True)


def lake_build(target):
    with BuildLock():
        rc, out = sh(["lake", "build", target], cwd=LEAN)
    return rc, out


def prove(module, theorems):
    """P1: build the property's proof module, audit axioms of every listed theorem, grep for escapes."""
    rc, out = lake_build(module)
    if rc != 0:
        errs = [l for l in out.splitlines() if "error" in l]
        # name the theorem(s) whose proof broke, when lean tells us the position
        named = []
        for l in errs:
            m = re.search(r"(\S+\.lean):(\d+):\d+", l)
            if not m:
                continue
            fp = m.group(1) if os.path.isabs(m.group(1)) else os.path.join(LEAN, m.group(1))
            try:
                src = open(fp).read().splitlines()[:int(m.group(2))]
            except OSError:
                continue
            for ln in reversed(src):
                t = re.match(r"^(?:private |protected )?(?:theorem|lemma|def|example)\s+(\S+)", ln)
                if t:
                    if t.group(1) not in named:
                        named.append(t.group(1))
                    break
        head = ("no longer checks: " + ", ".join(named) + "\n") if named else ""
        raise Broken(f"proof:{module}", head + ("\n".join(errs[:20]) or out[-2000:]))
    path = os.path.join(LEAN, module.replace(".", "/") + ".lean")
    bad = []
    files = [path]
    for root in ("Drand", "Gen", os.path.join("DrandProofs", "Lemmas")):
        for dp, _, fs in os.walk(os.path.join(LEAN, root)):
            files += [os.path.join(dp, f) for f in fs if f.endswith(".lean")]
    # proof modules imported by this one
    for m in re.findall(r"^import (DrandProofs\.\S+)", open(path).read(), flags=re.M):
        files.append(os.path.join(LEAN, m.replace(".", "/") + ".lean"))
    if True:
        if True:
            for ff in files:
                f = os.path.basename(ff)
                txt = open(ff).read()
                txt = re.sub(r"/-.*?-/", "", txt, flags=re.S)
                for i, line in enumerate(txt.splitlines()):
                    line = line.split("--")[0]
                    if FORBIDDEN.search(line):
                        bad.append(f"{f}:{line.strip()}")
    if bad:
        raise Broken(f"proof-hygiene:{module}", "\n".join(bad[:10]))
    audit = f"import {module}\n" + "".join(f"#print axioms {t}\n" for t in theorems)
    af = os.path.join(BUILD, f"audit_{module.replace('.', '_')}_{os.getpid()}.lean")
    open(af, "w").write(audit)
    try:
        rc, out = sh(["lake", "env", "lean", af], cwd=LEAN)
    finally:
        os.remove(af)
    if rc != 0:
        raise Broken(f"proof-audit:{module}", out[-2000:])
    axioms = {}
    cur = None
    for m in re.finditer(r"'([^']+)' (depends on axioms: \[([^\]]*)\]|does not depend on any axioms)", out.replace("\n", " ")):
        axs = [a.strip() for a in (m.group(3) or "").split(",") if a.strip()]
        axioms[m.group(1)] = axs
    missing = [t for t in theorems if t not in axioms]
    if missing:
        raise Broken(f"proof-audit:{module}", "no axioms report for " + ",".join(missing))
    for t, axs in axioms.items():
        extra = set(axs) - ALLOWED_AXIOMS
        if extra:
            raise Broken(f"proof-audit:{module}:{t}", "unexpected axioms " + ",".join(sorted(extra)))
    return axioms


def build_driver():
    rc, out = lake_build("vdriver")
    if rc != 0:
        raise Broken("model:vdriver", "\n".join(l for l in out.splitlines() if "error" in l)[:2000])
    return os.path.join(LEAN, ".lake", "build", "bin", "vdriver")


def build_harness():
    """P2: overlay the harness into /repo's module (no file in /repo is touched) and build it."""
    with BuildLock():
        ov = {}
        hdir = os.path.join(VERIF, "harness")
        for f in os.listdir(os.path.join(hdir, "cmd", "verifh")):
            if f.endswith(".go"):
                ov[os.path.join(REPO, "internal", "verifh", f)] = os.path.join(hdir, "cmd", "verifh", f)
        exp = os.path.join(hdir, "export")
        for root, _, files in os.walk(exp):
            for f in files:
                if f.endswith(".go"):
                    rel = os.path.relpath(root, exp)
                    ov[os.path.join(REPO, rel, f)] = os.path.join(root, f)
        ovf = os.path.join(BUILD, "overlay.json")
        json.dump({"Replace": ov}, open(ovf, "w"), indent=1)
        binp = os.path.join(BUILD, "verifh")
        # API shape of the tree under test (compile-time only; behaviour is classified by the engines' observations):
        # does CallbackStore.AddStreamCallback return a remover? (harness/cmd/verifh/streamadd_v1.go / _v2.go)
        tags = "verif conn_insecure"
        try:
            if re.search(r"AddStreamCallback\(id string, fn CallbackFunc\) \(?(remove )?func\(\)\)?", open(os.path.join(REPO, "internal", "chain", "beacon", "store.go")).read()):
                tags += " cbremover"
        except OSError:
            pass
        rc, out = sh(["go", "build", "-tags", tags, "-overlay", ovf, "-o", binp, "./internal/verifh"],
                     cwd=REPO, env=GOENV)
        if rc != 0:
            raise Broken("harness:build", out[-3000:])
    return binp


_SCRATCH = None


def scratch():
    """per-process scratch directory (tmpfs when available), removed at exit"""
    global _SCRATCH
    if _SCRATCH is None:
        import atexit
        base = "/dev/shm" if os.path.isdir("/dev/shm") and os.access("/dev/shm", os.W_OK) else BUILD
        _SCRATCH = tempfile.mkdtemp(prefix="verif_scratch_", dir=base)
        atexit.register(lambda: shutil.rmtree(_SCRATCH, ignore_errors=True))
    return _SCRATCH


def run_lines(binary, args, lines, timeout=600, env=None):
    inp = "\n".join(lines) + "\n"
    env = dict(env or os.environ, VERIF_TMP=scratch())
    p = subprocess.run([binary] + args, input=inp, stdout=subprocess.PIPE, stderr=subprocess.PIPE, text=True,
                       timeout=timeout, env=env)
    return p.returncode, p.stdout.splitlines(), p.stderr


def run_both(engine, args, lines, timeout=600):
    """Run the same op lines through the implementation harness and the Lean model driver."""
    h = os.path.join(BUILD, "verifh")
    d = os.path.join(LEAN, ".lake", "build", "bin", "vdriver")
    env = dict(os.environ, GOMEMLIMIT="6GiB")
    rc1, o1, e1 = run_lines(h, [engine] + args, lines, timeout, env)
    rc2, o2, e2 = run_lines(d, [engine] + args, lines, timeout)
    if rc1 != 0:
        raise Broken(f"harness:{engine}", f"exit {rc1}: {e1[-1500:]}")
    if rc2 != 0:
        raise Broken(f"model:{engine}", f"exit {rc2}: {e2[-1500:]}")
    return o1, o2


def first_diff(o1, o2):
    for i, (a, b) in enumerate(zip(o1, o2)):
        if a != b:
            return i
    if len(o1) != len(o2):
        return min(len(o1), len(o2))
    return None


def known_findings():
    p = os.path.join(VERIF, "known_findings.json")
    if not os.path.exists(p):
        return {"findings": [], "fixed": []}
    return json.load(open(p))


class Result:
    def __init__(self, prop, tier, seed):
        self.prop, self.tier, self.seed = prop, tier, seed
        self.t0 = time.time()
        self.violations = []      # (replay dict, found_input: bool)
        self.known = []           # strings
        self.cov = {"evaluations": 0, "distinct_nontrivial": 0, "rule": "", "samples": [],
                    "obligations": 0, "discharged": 0, "checker_cmd": "", "trusted_base": []}
        self.assumptions = []
        self.level = "proof"

    def add_violation(self, replay, found=True):
        self.violations.append((replay, found))

    def report(self, signature, replay, found=True):
        """Report a violation unless its signature is a listed known finding (then print KNOWN-FINDING)."""
        for f in known_findings().get("findings", []):
            if f.get("property") == self.prop and f.get("signature") == signature:
                msg = f.get("what", signature)
                if msg not in self.known:
                    self.known.append(msg)
                return False
        self.add_violation(dict(replay, signature=signature), found)
        return True

    def finish(self):
        evdir = os.environ.get("VERIF_EVIDENCE_DIR") or os.path.join(VERIF, "evidence")
        os.makedirs(evdir, exist_ok=True)
        os.makedirs(os.path.join(BUILD, "replay"), exist_ok=True)
        lines = []
        for k in self.known:
            lines.append(f"KNOWN-FINDING: property={self.prop} {k}")
        for i, (rep, found) in enumerate(self.violations):
            rp = os.path.join(BUILD, "replay", f"{self.prop}_{self.tier}_{self.seed}_{i}.json")
            rep = dict(rep, property=self.prop, seed=self.seed, tier=self.tier)
            json.dump(rep, open(rp, "w"), indent=1)
            lines.append(f"VIOLATION property={self.prop} replay={rp}" + ("" if found else " no-failing-input-found"))
        ev = {"property_id": self.prop, "tier": self.tier, "seed": self.seed, "level": self.level,
              "coverage": self.cov, "assumptions": self.assumptions, "wall_s": round(time.time() - self.t0, 2),
              "violations": len(self.violations)}
        if self.known:
            ev["coverage"]["known_findings_reported"] = self.known
        json.dump(ev, open(os.path.join(evdir, f"{self.prop}.json"), "w"), indent=1)
        for l in lines:
            print(l, flush=True)
        return 1 if self.violations else 0
