"""C16 — round numbers and times convert consistently and never wrap."""
from .. import core

ID = "C16"
MODULE = "DrandProofs.C16"
THEOREMS = ["Drand.Time.c16_current_unique", "Drand.Time.c16_next", "Drand.Time.c16_next_before_genesis",
            "Drand.Time.c16_strict_mono", "Drand.Time.c16_round0_is_genesis",
            "Drand.Time.c16_time_of_round_refines", "Drand.Time.c16_time_of_round_exact",
            "Drand.Time.c16_next_round_refines", "Drand.Time.c16_current_round_refines", "Drand.Time.c16_float_floor", "Drand.Time.tie_time_calls"]
TRUSTED = ["Lean 4 kernel; axioms per theorem listed under coverage.axioms",
           "go2lean constants: timeBufferBits, the +k of the round-limit shift (regenerated every run)",
           "correspondence harness engine 'time' calling common.TimeOfRound/NextRound/CurrentRound in-process",
           "IEEE-754 binary64: c16_float_floor proves floor(rnd(a/p)) = a div p for a < 2^53 from three stated facts about the rounding (monotone, exact on integers <= 2^53, relative error <= 2^-53), which are hypotheses about Go's float64 division, not theorems; int(math.Log2(p+1)) = Nat.log2(p+1) is checked by D on the complete power-of-two table"]
ASSUMPTIONS = ["period is a whole number of seconds 1..2^32-1, genesis 0..2^32, now-genesis <= 2^50 (the property's domain)"]

MAXI64 = (1 << 63) - 1
ERR = MAXI64 - (1 << 36)


def exact_tor(p, g, r):
    return g if r == 0 else g + (r - 1) * p


def gen_ops(rng, tier):
    ops = []
    big = tier == "thorough"
    # exhaustive small grid
    pmax, gmax, span, rmax = (64, 8, 1024, 4096) if big else (12, 3, 160, 300)
    for p in range(1, pmax + 1):
        for g in range(0, gmax + 1):
            for now in range(g, g + span + 1, 1 if big else 1):
                ops.append(f"next {now} {p} {g}")
                ops.append(f"cur {now} {p} {g}")
            for r in range(0, rmax + 1, 7 if not big else 1):
                ops.append(f"tor {p} {g} {r}")
    # the complete table for int(math.Log2(p+1)) = Nat.log2 (p+1): p+1 in {2^k-1, 2^k, 2^k+1}
    ps = set()
    for k in range(1, 33):
        for d in (-2, -1, 0, 1):
            p = (1 << k) + d
            if 1 <= p < (1 << 32):
                ps.add(p)
    ps = sorted(ps)
    for p in ps:
        pb = (p + 1).bit_length() - 1
        for sh in range(0, 64):
            lim = ((1 << 64) - 1) >> sh
            for d in (-2, -1, 0, 1, 2):
                r = lim + d
                if 0 <= r < (1 << 64) and (abs(sh - (pb + 2)) <= 2 or rng.chance(1, 8 if not big else 2)):
                    g = rng.choice([0, 1, 1 << 31, 1 << 32, rng.below((1 << 32) + 1)])
                    ops.append(f"tor {p} {g} {r}")
    # boundary-directed now = g + k*p + {-1,0,1}
    n = 20000 if not big else 1500000
    for _ in range(n):
        p = rng.choice(ps) if rng.chance(1, 2) else rng.range(1, (1 << rng.range(1, 32)) - 1 if True else 1)
        p = max(1, min(p, (1 << 32) - 1))
        g = rng.choice([0, 1 << 32, rng.below((1 << 32) + 1), rng.below(1 << 20)])
        kmax = (1 << 50) // p
        k = rng.below(kmax + 1) if rng.chance(3, 4) else min(kmax, rng.below(1 << rng.range(1, 50)))
        for d in (-1, 0, 1):
            now = g + k * p + d
            if now < g - 1 or now - g > (1 << 50):
                continue
            ops.append(f"next {now} {p} {g}")
            ops.append(f"cur {now} {p} {g}")
        # random 64-bit rounds
        r = rng.next() >> rng.below(64)
        ops.append(f"tor {p} {g} {r}")
    # the HTTP layer derives the same schedule (handler/http dateOfRound): mirror every `tor` op as a `date` op
    ops += ["date" + o[3:] for o in ops if o.startswith("tor ")][:: (1 if big else 3)]
    return ops


def oracle(op, out):
    """C16 stated directly on the implementation's answer, in exact integer arithmetic."""
    f = op.split()
    try:
        if f[0] in ("tor", "date"):
            p, g, r = int(f[1]), int(f[2]), int(f[3])
            v = int(out)
            if v == ERR:
                return None
            if v != exact_tor(p, g, r):
                return f"{'TimeOfRound' if f[0] == 'tor' else 'http dateOfRound'}({p}s,{g},{r}) = {v}: neither the exact time {exact_tor(p, g, r)} nor the documented error value"
            if v < 0:
                return "negative time"
            if v > ERR:
                return f"TimeOfRound({p}s,{g},{r}) = {v} is above the documented error value {ERR}: too large to schedule (time.Unix of it overflows), the error value must be returned"
        elif f[0] == "cur":
            now, p, g = int(f[1]), int(f[2]), int(f[3])
            r = int(out)
            if now >= g and not (r >= 1 and exact_tor(p, g, r) <= now < exact_tor(p, g, r + 1)):
                return f"CurrentRound({now},{p}s,{g}) = {r} is not the unique round scheduled at or before now"
        elif f[0] == "next":
            now, p, g = int(f[1]), int(f[2]), int(f[3])
            nr, nt = map(int, out.split())
            if now >= g:
                k = (now - g) // p + 1
                if nr != k + 1 or nt != exact_tor(p, g, nr):
                    return f"NextRound({now},{p}s,{g}) = ({nr},{nt}), expected ({k + 1},{exact_tor(p, g, k + 1)})"
    except Exception as e:
        return f"unparsable answer {out!r}: {e}"
    return None


def explore(ctx, res):
    rng = ctx["rng"]
    tier = "thorough" if ctx["deep"] else ctx["tier"]
    ops = gen_ops(rng, tier)
    import os, json, glob
    corpus = []
    for f in sorted(glob.glob(os.path.join(core.VERIF, "corpus", ID, "*.json"))):
        corpus += json.load(open(f))["ops"]
    ops = corpus + ops
    if ctx["model_ok"]:
        impl, model = core.run_both("time", [], ops)
    else:
        rc, impl, err = core.run_lines(os.path.join(core.BUILD, "verifh"), ["time"], ops)
        model = None
    kinds = {}
    nontriv = set()
    viol = None
    for op, o in zip(ops, impl):
        k = op.split()[0]
        kinds[k] = kinds.get(k, 0) + 1
        if str(ERR) != o:
            nontriv.add(op)
        m = oracle(op, o)
        if m and viol is None:
            viol = (op, o, m)
    errs = sum(1 for o in impl if o == str(ERR))
    res.cov["evaluations"] = len(ops)
    res.cov["distinct_nontrivial"] = len(nontriv)
    res.cov["rule"] = ("ops = exhaustive small grid + complete p+1∈{2^k-1,2^k,2^k+1} table × all 64 shift thresholds ±2 + "
                       "boundary-directed now=g+k·p±1 + random 64-bit rounds; non-trivial = distinct op whose answer is not the error value")
    res.cov["samples"] = [{"op": ops[i], "impl": impl[i], "model": (model[i] if model else None)}
                          for i in (0, len(ops) // 2, len(ops) - 1)]
    res.cov["distribution"] = {"ops_by_kind": kinds, "error_value_answers": errs}
    if viol:
        res.add_violation({"engine": "time", "kind": "impl-violates", "ops": [viol[0]], "observed": [viol[1]], "oracle": viol[2]})
    if model is not None:
        i = core.first_diff(impl, model)
        res.cov["traces_validated_against_impl"] = len(ops) if i is None else i
        if i is not None and not viol:
            # a model/implementation divergence: is the property violated on it?
            op = ops[i] if i < len(ops) else "<length mismatch>"
            res.add_violation({"engine": "time", "kind": "model-impl-diverge", "ops": [op],
                               "observed": impl[i:i + 1], "expected": model[i:i + 1],
                               "note": "correspondence 'time' no longer checks; the property oracle accepts the implementation's answer on this input"},
                              found=False)
