"""C07 — resharing keeps the chain's identity and continuity (PARTIAL: DESIGN.md §3 C07, §6)."""
import glob, json, os
from .. import core, netreshare, dkgrun as D

ID = "C07"
MODULE = "DrandProofs.C07"
THEOREMS = ["Drand.Beacon.Transition." + t for t in [
    "tie_validate_group_transition", "tie_vault_setinfo", "tie_new_chain_info", "tie_transition_new_group", "tie_exec_finish_order",
    "c07_validated_identity", "c07_info_const", "c07_chain_hash_const", "c07_hash_ignores_members", "c07_setinfo_keeps_chain_info",
    "c07_registration", "c07_switch_before", "c07_switch_at", "c07_switch_point", "c07_old_shares_rejected", "c07_left_member_rejected",
    "c07_failed_keeps_old", "c07_refused_transition_keeps_old", "c07_leaver_stop_time_counterexample",
    "c07_terms_pinned", "c07_period_change_refused", "c07_scheme_change_refused", "c07_scheme_unchecked_counterexample",
    "c07_tampered_period_pipeline"]] + \
    ["Drand.DKG.Pedersen." + t for t in ["c07_newshare_eq_eval", "c07_secret_preserved", "c07_pk_preserved", "c07_new_threshold_signs", "c07_old_share_off_new_poly"]] + \
    ["Drand.Net.Reshare." + t for t in ['tie_group_node_lookup', 'tie_broadcast_recipients', 'tie_aggregator_threshold_in_loop', 'tie_transition_skip', 'c03_member_lookup_exact', 'c03_hole_is_not_member', 'c03_admitted_is_member', 'c03_nonmember_index_never_counts', 'c07_old_epoch_never_counts', 'c07_held_members_run', 'c07_beacon_needs_new_members', 'c07_registration_any_time', 'c07_registration_partial', 'c07_switch_any_time', 'c07_switch_partial', 'told_run', 'c07_late_registration_counterexample', 'c07_reshare_step_progress', 'c07_transition_round_produced',
                                        'sane_run', 'sane_init', 'c07_quiet_of_reachable', 'c07_told_is_punctual', 'c07_quiet_counterexample', 'c07_quiet_of_healthy',
                                        'c07_level', 'c07_fair_tick', 'c07_fair_round', 'c07_catch_progress', 'c07_chain_continues', 'c07_round_produced',
                                        'c07_settled_any_time', 'c07_settled_partial', 'c07_no_skip', 'c07_heads_monotone',
                                        'c07_quiet_of_reachable_repaired', 'replace_apply', 'c07_quiet_of_sound', 'c07_fair_tick_repaired', 'c07_chain_continues_repaired', 'cx_sound']]
TRUSTED = ["Lean 4 kernel; axioms per theorem under coverage.axioms",
           "PedersenSpec (hypothesis): kyber's resharing outputs the Lagrange combination of the dealers' reshaped shares (c07_pk_preserved is proved from that); "
           "agreement of all nodes on the dealer set under arbitrary schedules is sampled by the differential runs only",
           "go2lean facts (Gen.DKGRun): validateGroupTransition guard chain, Vault.SetInfo assignments, NewChainInfo field map, TransitionNewGroup target round and callback guard, "
           "executeAndFinishDKG write/send order — tied by tie_* theorems; Info.Hash layout from C17",
           "harness engine 'dkgrun': real dkg.Process instances (reshare scripts), real core validateGroupTransition, a real beacon.Handler + vault around the transition round "
           "(rounds Put one by one, partial signatures made with old/new shares handed to the real ProcessPartialBeacon, labelled by the real VerifyPartial)",
           "the asynchrony of the transition callback worker is an explicit event of the model; the harness waits for the worker before it observes the vault",
           "continuity of the chain itself is C02 (append-only, gap-free) and C05 (liveness); C07 adds the hand-over of shares",
           "IdealSig-style oracle: VerifyPartial answers are labels computed by the real verifier"]
ASSUMPTIONS = ["synchrony of kyber's DKG (every bundle within the phase): measured per epoch by the harness; runs on an overloaded machine that miss it are discarded, not judged",
               "a share of the previous epoch is valid under the new polynomial only by coincidence (excluded when the new threshold is 1: then every share is the secret itself)"]

PERIOD_SIG = "reshare-terms-not-pinned:period"
SCHEME_SIG = "reshare-terms-not-pinned:scheme"


def sched(r, members):
    s = r.choice([None, f"delay={r.range(20, 90)}/dup={r.range(10, 45)}", f"delay={r.range(10, 50)}/slow={r.choice(members)}:{r.range(120, 300)}", f"dup={r.range(20, 60)}"])
    return s


VGT_FIELDS = ["none", "period", "genesis", "seed", "id", "past", "scheme", "threshold"]


def gen_scripts(ctx, tier):
    rng = ctx["rng"].fork("c07")
    seed = ctx["seed"]
    unch = D.SCHEMES[1 + ((seed + 1) % 4)]
    scripts = []
    phase, kick = 15000, 450

    def net(sch, n, tag, ph=phase):
        return D.net_line(sch, n, "default" if rng.chance(1, 2) else f"net{tag}", ph, kick, rng.next() % 10**9)

    def shapes(r, sch, n, name, period, ph=phase):
        """initial on n-1 nodes, same set, +1, -1 (threshold up/down), hand-over checks after every reshare"""
        o = r.shuffle(list(range(n)))
        first, extra = o[:n - 1], o[n - 1]
        gone = r.choice(first[1:])
        rest = [x for x in o if x != gone]
        t1 = r.choice(D.thresholds(n - 1))
        lines = [net(sch, n, name, ph), D.initial_line(first, t1, first[0], period=period, genesis=-r.range(30, 400), sched=sched(r, first)),
                 D.reshare_line(r.shuffle(first), [], [], r.choice(D.thresholds(n - 1)), r.choice(first), sched=sched(r, first)),
                 f"handover node={r.choice(first)}"]
        lines += [f"vgt node={first[0]} field={f}" for f in VGT_FIELDS]
        lines += [D.reshare_line(r.shuffle(first), [extra], [], r.choice([t for t in D.thresholds(n) if t <= n - 1]), r.choice(first), sched=sched(r, o)),
                  f"handover node={r.choice(first)}",
                  D.reshare_line(r.shuffle(rest), [], [gone], r.choice(D.thresholds(n - 1)), r.choice([x for x in rest if x != extra]), sched=sched(r, rest)),
                  f"handover node={r.choice([x for x in rest if x != extra])}"]
        return lines

    scripts.append(("R1-chained-shapes", shapes(rng.fork("R1"), D.CHAINED, 4, "r1", period=2)))
    # R2: abort, failure (too few dealers on line), then the old set reshapes again; replace
    r = rng.fork("R2")
    o = r.shuffle([0, 1, 2, 3])
    first, extra = o[:3], o[3]
    downs = first[1:]
    gone = first[2]
    scripts.append(("R2-abort-fail-replace", [net(unch, 4, "r2", ph=2500),
                    D.initial_line(first, 2, first[0], period=r.choice([3, 30]), genesis=-r.range(30, 4000), sched=sched(r, first)),
                    D.reshare_line(r.shuffle(first), [extra], [], 3, first[0], mode="abort"),
                    D.reshare_line(r.shuffle(first), [], [], 2, first[0], sched=f"down={downs[0]}/down={downs[1]}"),
                    f"abort nodes={D.lst(o)}",
                    D.reshare_line(r.shuffle(first), [], [], 2, first[0], sched=sched(r, first)),
                    f"handover node={first[0]}",
                    D.reshare_line(r.shuffle([x for x in first if x != gone]), [extra], [gone], 2, first[0], sched=sched(r, o)),
                    f"handover node={first[0]}"]))
    # R3/R4: a leader whose binary proposes other terms (period + 1 s; another scheme with the same key group)
    for what in ("period", "scheme"):
        r = rng.fork("R3" + what)
        o = r.shuffle([0, 1, 2, 3])
        first, extra = o[:3], o[3]
        # (a joiner's self-signature covers the scheme name, so the scheme can only be swapped in a reshare without joiners)
        scripts.append((f"R3-tamper-{what}", [net(D.CHAINED, 4, "r3" + what),
                        D.initial_line(first, 2, first[0], period=30, genesis=-r.range(30, 4000)),
                        D.reshare_line(r.shuffle(first), [extra] if what == "period" else [], [], 3, first[0], tamper=what),
                        f"vgt node={first[1]} field=asis"]))
    # R5: completion before / after / across a round boundary: the identity must not move in any of them
    r = rng.fork("R5")
    o = r.shuffle([0, 1, 2])
    late = r.choice(o)
    scripts.append(("R5-round-boundary", [net(unch, 3, "r5"),
                    D.initial_line(o, 2, o[0], period=2, genesis=-2 * r.range(10, 150)),
                    D.reshare_line(r.shuffle(o), [], [], 2, r.choice(o), sched="hold=-900"), f"handover node={o[0]}",
                    D.reshare_line(r.shuffle(o), [], [], 3, r.choice(o), sched="hold=250"), f"handover node={o[1]}",
                    D.reshare_line(r.shuffle(o), [], [], 2, r.choice(o), sched=f"hold=-900/holdx={late}:400"),
                    f"handover node={late}", f"handover node={[x for x in o if x != late][0]}"]))
    if tier == "quick":
        return scripts
    for rep in range(2):
        for si, sch in enumerate(D.SCHEMES):
            for n in (3, 4, 5, 6):
                scripts.append((f"T{rep}-{sch}-{n}", shapes(rng.fork(f"T{rep}{si}{n}"), sch, n, f"t{si}{n}", period=rng.choice([2, 3, 30]))))
    for k in range(10):
        r = rng.fork(f"U{k}")
        n = r.range(3, 5)
        o = r.shuffle(list(range(n)))
        lines = [net(r.choice(D.SCHEMES), n, f"u{k}"), D.initial_line(o, n // 2 + 1, o[0], period=2, genesis=-2 * r.range(10, 450))]
        for e in range(3):
            lines += [D.reshare_line(r.shuffle(o), [], [], r.choice(D.thresholds(n)), r.choice(o),
                                     sched=r.choice(["hold=-900", "hold=250", f"hold=-900/holdx={r.choice(o)}:400", "hold=0"])), f"handover node={r.choice(o)}"]
        scripts.append((f"U-boundaries-{k}", lines))
    return scripts


MAX_REPORTS = 3


def explore(ctx, res):
    res.level = "proof"
    tier = "thorough" if ctx["deep"] else ctx["tier"]
    if ctx.get("replay") and json.load(open(ctx["replay"])).get("engine") == "net":
        cov, _ = netreshare.replay_part(ctx, res, json.load(open(ctx["replay"])))
        res.cov.update(evaluations=sum(cov["ops"].values()), rule="replay of one reshare script of engine net", distribution={"net_reshare": cov})
        return
    # what the beacon nodes do around the transition (engine `net`: real Handlers, kyber-made resharing)
    ncov, nres = netreshare.explore_part(ID, ctx, res)
    corpus = []
    for f in sorted(glob.glob(os.path.join(core.VERIF, "corpus", "C07", "*.json"))):
        corpus.append(("corpus:" + os.path.basename(f), json.load(open(f))["ops"]))
    quick = gen_scripts(ctx, "quick")
    stages = [corpus + quick]
    if tier != "quick":
        names = {q[0] for q in quick}
        stages.append([x for x in gen_scripts(ctx, tier) if x[0] not in names])
    acc = {"evals": 0, "validated": 0, "nontriv": set(), "samples": [], "seen": set(),
           "dist": {"reshares_attempted": 0, "reshares_completed": 0, "reshares_not_completed": 0, "shapes": {}, "handover_traces": 0, "handover_rounds": 0,
                    "partials_offered": {}, "vgt_outcomes": {}, "tamper_outcomes": {}, "old_partials_checked": 0, "model_ops": 0, "schemes": {}, "op_errors": {},
                    "scripts": 0}}
    for stage in stages:
        if any(f for _, f in res.violations):
            break
        evaluate(ctx, res, D.run_scripts(stage, workers=8), acc)
    dist = acc["dist"]
    if dist["reshares_attempted"] and dist["reshares_completed"] == 0:
        raise core.Broken("harness:dkgrun", "no reshare completed on any node: the runs say nothing about the property")
    dist["net_reshare"] = ncov
    res.cov.update(evaluations=acc["evals"] + sum(ncov["ops"].values()), distinct_nontrivial=len(acc["nontriv"]) + sum(1 for r in nres if r.get("res")),
                   traces_validated_against_impl=acc["validated"] + ncov["validated_against_model"], samples=acc["samples"], distribution=dist)
    res.cov["rule"] = ("reshare scripts on 3-4 (thorough: 3-6) real dkg.Process instances: same set, +1, -1, replace, threshold up/down, an aborted and a failed reshare in "
                       "between, 2-4 epochs, completion before/after/across a round boundary, and a leader proposing a changed period / scheme; after each reshare the "
                       "identity fields (public key, chain hash, genesis time, seed, period, scheme, id) of every completing node are compared with the previous group, "
                       "old-epoch partials are checked against the new polynomial, a real beacon.Handler is driven across the transition round, and the real "
                       "validateGroupTransition is applied to single-field perturbations; evaluations = ops run and judged (epochs, hand-overs, transition validations); "
                       "non-trivial = distinct (scheme, shape, size, threshold, epoch) / hand-over traces / validation outcomes; traces_validated = ops whose answers "
                       "the Lean model reproduced")
    res.cov["rule"] += ("; plus engine `net` (vlib/netreshare.py): real beacon.Handlers across a resharing made with kyber polynomials — threshold raised / lowered, a new group "
                        "with a hole in its share indices, joiner needed for the new threshold, TransitionNewGroup called early or late (after transition-1 is stored), leavers "
                        "that keep signing with old shares; oracles: liveness under the group in force, switch point, no old-share / non-member partial let in from the "
                        "transition on, one public key for the whole chain")
    res.cov["level_note"] = ("partial: share algebra, identity under validateGroupTransition, switch point and admission are proved; agreement on the dealer set under "
                             "all schedules is PedersenSpec, sampled")


def evaluate(ctx, res, runs, acc):
    dist = acc["dist"]
    nontriv = acc["nontriv"]
    for name, lines, outs in runs:
        dist["scripts"] += 1
        scheme = None
        for k, (line, r) in enumerate(zip(lines, outs)):
            prefix = lines[:k + 1]
            if line.startswith("net "):
                scheme = r.get("scheme")
                continue
            if r.get("error"):
                dist["op_errors"][str(r["error"])[:60]] = dist["op_errors"].get(str(r["error"])[:60], 0) + 1
                continue
            if r.get("op") in ("initial", "reshare") and not D.synchronous(r):
                dist["epochs_discarded_unsynchronised"] = dist.get("epochs_discarded_unsynchronised", 0) + 1
                break
            acc["evals"] += 1
            bad, mops, mexp, mkind = [], [], [], None
            op = r.get("op")
            if op == "reshare":
                dist["reshares_attempted"] += 1
                comp = D.completed(r)
                shape = ("same" if "join=-" in line and "leave=-" in line else "+1" if "leave=-" in line else "-1" if "join=-" in line else "replace") + \
                        ("/abort" if "mode=abort" in line else "") + ("/tamper" if "tamper=" in line else "") + ("/down" if "down=" in line else "") + \
                        ("/hold" if "hold" in line else "")
                dist["shapes"][shape] = dist["shapes"].get(shape, 0) + 1
                if comp:
                    dist["reshares_completed"] += 1
                    dist["schemes"][scheme] = dist["schemes"].get(scheme, 0) + 1
                    g = comp[sorted(comp)[0]]["fin"]["group"]
                    nontriv.add((scheme, shape, len(g["nodes"]), g["thr"], r["epoch"]))
                else:
                    dist["reshares_not_completed"] += 1
                    nontriv.add((scheme, shape, "not-completed", r["steps"].get("propose"), r["epoch"]))
                dist["old_partials_checked"] += len(r.get("old_partials") or [])
                tam = r.get("tamper")
                if tam:
                    what = line.split("tamper=")[1].split()[0]
                    acc_by = [t for t in tam if t["role"] == "remainer" and t["outcome"] == "ok"]
                    for t in tam:
                        kx = f"{what}:{t['role']}:{t['outcome']}"
                        dist["tamper_outcomes"][kx] = dist["tamper_outcomes"].get(kx, 0) + 1
                    if acc_by:
                        t = acc_by[0]
                        seen = f"stored period {t['stored_period']} s, scheme {t['stored_scheme']}, state {t['stored_state']}"
                        after = ""
                        if comp:
                            ng = comp[sorted(comp)[0]]["fin"]["group"]
                            after = (f"; the DKG then completed on nodes {sorted(comp)} and their finished record holds a group with period {ng['period']} s, scheme {ng['scheme']}, "
                                     f"chain hash {ng['chainhash'][:16]}…")
                        bad.append((PERIOD_SIG if what == "period" else SCHEME_SIG,
                                    f"a remaining member (node {t['node']}) accepted, through the real Process.Packet, a reshare proposal signed by the leader that changes the "
                                    f"{what}: {seen}{after}", {"tamper": tam}))
                for b in D.oracle_c07_epoch(outs, k):
                    # the identity change that follows from an accepted tampered proposal is the same finding, not a second one
                    if tam and b[0] in ("reshare-changed-identity:period", "reshare-changed-identity:scheme", "reshare-changed-identity:chainhash"):
                        continue
                    bad.append(b)
                if comp and ctx["model_ok"]:
                    mops, mexp = D.model_ops_chain(comp[sorted(comp)[0]]["fin"]["group"])
                    mkind = "chain"
            elif op == "initial":
                comp = D.completed(r)
                if comp and ctx["model_ok"]:
                    mops, mexp = D.model_ops_chain(comp[sorted(comp)[0]]["fin"]["group"])
                    mkind = "chain"
            elif op == "abort":
                # nothing completes in an abort: the completed records must be what they were
                before = D.last_groups(outs, k)
                for i, n in r["nodes"].items():
                    was, now = before.get(int(i)), n.get("fin")
                    if (was is None) != (now is None) or (was and (was["epoch"] != now["epoch"] or D.group_diff(was["group"], now["group"]))):
                        bad.append(("failed-reshare-changed-finished-record", f"node {i}: an abort changed the last completed DKG record", {"node": i}))
            elif op == "handover":
                dist["handover_traces"] += 1
                dist["handover_rounds"] += len(r["trace"])
                for o in r["trace"]:
                    for kind in ("old_partial", "new_partial"):
                        if o.get(kind):
                            kx = f"{kind}@{o['live']}:{o[kind]['outcome']}"
                            dist["partials_offered"][kx] = dist["partials_offered"].get(kx, 0) + 1
                bad += D.oracle_handover(r)
                nontriv.add((scheme, "handover", r["t_round"], tuple(o["live"] for o in r["trace"])))
                if ctx["model_ok"]:
                    mops, mexp = D.model_ops_handover(r)
                    mkind = "handover"
            elif op == "vgt":
                kx = f"{r['field']}:{r['outcome']}"
                dist["vgt_outcomes"][kx] = dist["vgt_outcomes"].get(kx, 0) + 1
                bad += D.oracle_vgt(r)
                nontriv.add((scheme, "vgt", r["field"], r["outcome"]))
                if ctx["model_ok"]:
                    mops, mexp = D.model_ops_vgt(r)
                    mkind = "vgt"
            real = False
            for sig, why, detail in bad:
                if sig in acc["seen"] or len([1 for _, f in res.violations if f]) >= MAX_REPORTS:
                    real = real or sig in acc["seen"]
                    continue
                if res.report(sig, {"engine": "dkgrun", "kind": "impl-violates", "script": name, "ops": prefix, "oracle": why, "observed": detail}):
                    acc["seen"].add(sig)
                    real = True
            if real:
                break
            if mops and not any(f for _, f in res.violations):
                mo = D.run_model(mops)
                dist["model_ops"] += len(mops)
                div = None
                for mop, got, want in zip(mops, mo, mexp):
                    if mkind == "chain":
                        why = D.check_chain_pre(got, want)
                        if why:
                            div = (mop, want["chainhash"], got, why)
                    elif got != want:
                        div = (mop, want, got, f"model answered {got!r}, implementation {want!r}")
                    if div:
                        break
                if div:
                    if "model:" + mkind not in acc["seen"]:
                        acc["seen"].add("model:" + mkind)
                        res.add_violation({"engine": "dkgrun", "kind": "model-impl-diverge", "script": name, "ops": prefix + ["# model op: " + div[0]], "observed": [div[1]],
                                           "expected": [div[2]], "note": "correspondence 'dkgrun' (C07: " + mkind + ") no longer checks; the C07 oracle accepts the "
                                           "implementation's answers on this run. " + div[3]}, found=False)
                else:
                    acc["validated"] += 1
            if len(acc["samples"]) < 5 and op in ("reshare", "handover"):
                if op == "reshare":
                    acc["samples"].append({"script": name, "op": line, "completed": sorted(D.completed(r)), "steps": r["steps"]})
                else:
                    acc["samples"].append({"script": name, "op": line, "t_round": r["t_round"], "live": [o["live"] for o in r["trace"]],
                                           "old_partial": [(o.get("old_partial") or {}).get("outcome") for o in r["trace"]],
                                           "new_partial": [(o.get("new_partial") or {}).get("outcome") for o in r["trace"]]})
