"""C08 — DKG state moves only along legal transitions; failures keep the last good epoch."""
import glob, json, os
from .. import core, dkggen

ID = "C08"
MODULE = "DrandProofs.C08"
THEOREMS = ["Drand.DKG." + t for t in [
    "tie_transition_table", "tie_terminal", "tie_proposal_phase", "tie_process_steps_atomic", "tie_validate_epoch", "c08_left_epoch_increases", "c08_legal", "c08_error_no_write",
    "c08_finished_only_by_completion", "c08_completion_whole", "c08_epoch_inv_step", "c08_finished_monotone",
    "c08_epoch_inv_run", "c08_retry_same_epoch", "c08_rejects_stale_epoch", "c08_rejects_same_epoch_unless_terminal",
    "c08_rejects_epoch_jump", "c08_rejects_expired", "c08_rejects_threshold_high", "c08_rejects_threshold_low",
    "c08_rejects_unknown_scheme", "c08_rejects_bad_joiner_signature", "c08_member_rejects", "c08_member_rejects_scheme_period", "c08_first_epoch_rejects",
    "c08_epoch_monotone_partial", "c08_epoch_counterexample"]]
TRUSTED = ["Lean 4 kernel; axioms per theorem under coverage.axioms",
           "go2lean: Status enum, isValidStateChange switch, isProposalPhase, terminalStates, scheme ids, and that Process.Command / Process.Packet take the process mutex before touching process state and hold it until they return (regenerated, tied by tie_* theorems)",
           "harness engine 'dkgsm': a real dkg.Process on a real dkg BoltStore; other parties' packets are made and signed by the harness with real keys; the kyber execution is replaced by harness-driven complete/fail events that call Complete+SaveFinished / Failed+SaveCurrent exactly as executeAndFinishDKG does (export shim)",
           "modelled, not verified: bbolt transactions of the dkg store, BurntSushi/toml round-trip of DBState (C20), time.Now (timeouts are set >= 1 h away from the wall clock)",
           "excluded by hypothesis: the deprecated v1->v2 key-migration branch of StartProposal"]
ASSUMPTIONS = ["the self-signature label of a participant is the answer of the real verifier under the participant's own scheme"]

TABLE = {
    "Fresh": ["Proposing", "Proposed"], "Joined": ["Left", "Executing", "Aborted", "TimedOut"],
    "Proposing": ["Executing", "Aborted", "TimedOut"],
    "Proposed": ["Accepted", "Rejected", "Joined", "Left", "Aborted", "TimedOut"],
    "Accepted": ["Executing", "Aborted", "TimedOut"], "Rejected": ["Aborted", "TimedOut"],
    "Executing": ["Complete", "TimedOut", "Failed"], "Complete": ["Proposing", "Proposed"],
    "Left": ["Joined", "Aborted", "Proposed"], "Aborted": ["Proposing", "Proposed"],
    "TimedOut": ["Proposing", "Proposed", "Aborted"], "Failed": ["Proposing", "Proposed", "Left", "Aborted"]}
TERMINAL = ("Aborted", "TimedOut", "Failed")
FRESH = {"epoch": 0, "state": "Fresh", "thr": 0, "fg": "nil", "R": [], "J": [], "V": [], "seed": "-", "genesis": 0}


def base_of(cur, fin):
    c = cur or FRESH
    if c["state"] in TERMINAL:
        return fin or FRESH
    return c


def parse_T(tok):
    f = tok.split(":")
    l = lambda x: [] if x == "-" else x.split(",")
    return {"bid": f[1], "epoch": int(f[2]), "thr": int(f[3]), "timeout": int(f[4]), "scheme": f[5], "genesis": int(f[6]),
            "seed": f[7], "catchup": int(f[8]), "period": int(f[9]), "leader": f[10], "J": l(f[11]), "R": l(f[12]), "V": l(f[13])}


def addr_of(i):
    i = int(i)
    return dkggen.ALIAS.get(i, i)


def oracle_history(mops, replies, now):
    """C08 evaluated on the implementation's own answers. Returns (why, signature) or None."""
    cur = fin = None
    sut = None
    fin_group = None     # nodes of the group stored by the last successful completion (what the code calls the current members)
    for op, rep in zip(mops, replies):
        f = op.split()
        if f[0] in ("now", "P", "reset"):
            if f[0] == "reset":
                cur = fin = fin_group = None
                sut = f[2]
            continue
        cls, ncur, nfin = dkggen.parse_reply(rep)
        if ncur is not None and "raw" in ncur or nfin is not None and "raw" in (nfin or {}):
            return (f"{op}: unparsable state dump {rep[:200]}", "dump")
        if f[0] == "seq":
            # a gated pair (a packet served while a command sat between its read and its write): every state written, in the
            # order it was written, must be a legal successor of the one stored before it
            parts = [x.strip() for x in cls.split(";;")]
            if any(x.startswith("err:panic") for x in parts):
                return (f"{op}: the process panicked", "panic")
            saves = [] if len(parts) < 3 or parts[2] == "saves=-" else parts[2].split("=", 1)[1].split(",")
            st = base_of(cur, fin)["state"]
            for nxt in saves:
                if nxt != st and nxt not in TABLE[st]:
                    return (f"{op}: the stored state went {st} -> {nxt} (writes in order: {saves}): a command computed from a stale read overwrote "
                            "what the packet had stored", "non-atomic-command:illegal-transition")
                st = nxt if nxt not in TERMINAL else (fin or FRESH)["state"]
            if nfin != fin:
                return (f"{op}: the completed record changed without a completion", "finished-rewritten")
            cur, fin = ncur, nfin
            continue
        if cls.startswith("err:panic"):
            return (f"{op}: the process panicked", "panic")
        if cls.startswith("err:other") or cls == "bad-op":
            return (f"{op}: unexpected outcome {cls}", "outcome")
        is_term_op = f[0] in ("complete", "fail")
        src = (cur or FRESH) if is_term_op else base_of(cur, fin)
        if cls.startswith("err:"):
            if ncur != cur or nfin != fin:
                return (f"{op}: rejected with {cls} but the stored state changed", "error-wrote")
        # the completed record
        if nfin != fin:
            if not (f[0] == "complete" and cls == "ok"):
                return (f"{op}: the completed record changed without a successful completion", "finished-rewritten")
            if nfin["state"] != "Complete" or ncur != nfin or nfin["sh"] != 1 or nfin["fg"] == "nil":
                return (f"{op}: completion stored an incomplete record {nfin}", "completion-not-whole")
            if fin is not None and not nfin["epoch"] > fin["epoch"]:
                return (f"{op}: completed epoch went from {fin['epoch']} to {nfin['epoch']}", "finished-not-later")
            g = f[1].split(":") if f[1].startswith("G:") else None
            fin_group = [x for x in g[4].split(",") if x] if g and len(g) > 4 else None
        # legal transitions
        if ncur != cur and ncur is not None and ncur["state"] != src["state"]:
            if ncur["state"] not in TABLE[src["state"]]:
                return (f"{op}: illegal transition {src['state']} -> {ncur['state']}", "illegal-transition")
        # transitions are legal *for the node's role*: only the leader's operator starts the execution
        if f[0] == "cmd" and f[1] == "execute" and cls == "ok" and ncur is not None and ncur["state"] == "Executing" \
                and sut is not None and ncur["leader"] != "nil" and addr_of(ncur["leader"]) != addr_of(sut):
            return (f"{op}: a node that is not the leader ({sut}, leader {ncur['leader']}) moved itself to Executing", "execute-by-non-leader")
        # epoch of the in-progress record
        if ncur is not None and cur is not None and ncur["epoch"] < cur["epoch"]:
            if cur["state"] in TERMINAL:
                return (f"{op}: current epoch decreased {cur['epoch']} -> {ncur['epoch']} after a terminal attempt above the last completed epoch + 1",
                        "current-epoch-decreases:terminal-attempt-above-finished+1")
            return (f"{op}: current epoch decreased {cur['epoch']} -> {ncur['epoch']}", "epoch-decreased")
        # proposals that must be rejected
        accepted_terms = None
        if cls in ("ok", "saved-then-err:gossip-empty") and ncur != cur and ncur is not None and ncur["state"] in ("Proposed", "Proposing"):
            if f[0] == "pkt" and f[1].startswith("proposal/"):
                accepted_terms = parse_T(f[1].split("/", 1)[1])
            elif f[0] == "cmd":
                accepted_terms = {"epoch": ncur["epoch"], "thr": ncur["thr"], "timeout": ncur["timeout"], "scheme": ncur["scheme"],
                                  "genesis": ncur["genesis"], "seed": ncur["seed"], "J": ncur["J"], "R": ncur["R"], "V": ncur["V"], "leader": ncur["leader"]}
        if accepted_terms:
            t = accepted_terms
            n = len(t["J"]) + len(t["R"])
            why = None
            if t["timeout"] < now - 5:
                why = "time-expired proposal accepted"
            elif t["thr"] > n or t["thr"] < n // 2 + 1:
                why = f"threshold {t['thr']} out of range for {n} nodes accepted"
            elif t["scheme"] not in dkggen.SCH:
                why = "unknown scheme accepted"
            elif t["epoch"] < src["epoch"] or (t["epoch"] == src["epoch"]):
                why = f"stale epoch {t['epoch']} accepted on top of {src['epoch']}"
            elif src["state"] == "Complete":
                # the current members are the nodes of the completed group (a subset of remaining + joining: the qualified ones)
                members = {addr_of(x) for x in (fin_group if fin_group is not None else src["R"] + src["J"])}
                named = {addr_of(x) for x in t["R"] + t["V"]}
                if t["genesis"] != src["genesis"] or t["seed"] != src["seed"]:
                    why = "a member accepted changed genesis parameters"
                elif t["scheme"] != src["scheme"] or t.get("period", src["period"]) != src["period"]:
                    why = "a member accepted a changed scheme or beacon period"
                elif len(set(addr_of(x) for x in t["R"] + t["V"])) != len(t["R"] + t["V"]) and not members <= {addr_of(x) for x in t["R"] + t["V"]}:
                    why = "a member accepted a proposal that names a member twice and drops another"
                elif not members <= named:
                    why = f"a member accepted a proposal dropping current members {sorted(members - named)}"
                elif t["epoch"] != src["epoch"] + 1:
                    why = f"a member accepted epoch {t['epoch']} on top of {src['epoch']}"
            if why:
                return (f"{op}: {why}", "bad-proposal-accepted")
        cur, fin = ncur, nfin
    return None


def run_histories(ctx, res, engine_ops, label, workers=8):
    """shared driver: run histories on the implementation and the model (batched, in parallel worker processes);
    returns list of (ops, mops, impl, model)"""
    from concurrent.futures import ThreadPoolExecutor
    h = os.path.join(core.BUILD, "verifh")
    d = os.path.join(core.LEAN, ".lake", "build", "bin", "vdriver")
    chunks = [engine_ops[k::workers] for k in range(workers) if engine_ops[k::workers]]

    def work(chunk):
        lines = [o for ops in chunk for o in ops]
        rc, outl, err = core.run_lines(h, ["dkgsm"], lines, timeout=1800)
        if rc != 0 or len(outl) != len(lines):
            raise core.Broken("harness:dkgsm", f"exit {rc}, {len(outl)}/{len(lines)} lines: {err[-1200:]}")
        rows = [l.split("\t") for l in outl]
        mops = [r[1] for r in rows]
        impl = [r[2] for r in rows]
        model = None
        if ctx["model_ok"]:
            rc, model, err = core.run_lines(d, ["dkgsm"], mops)
            if rc != 0 or len(model) != len(mops):
                raise core.Broken("model:dkgsm", err[-1000:])
        out, k = [], 0
        for ops in chunk:
            n = len(ops)
            out.append((ops, mops[k:k + n], impl[k:k + n], model[k:k + n] if model is not None else None))
            k += n
        return out

    with ThreadPoolExecutor(max_workers=workers) as ex:
        parts = list(ex.map(work, chunks))
    return [x for part in parts for x in part]


def histories(ctx, n):
    rng = ctx["rng"]
    hs = []
    for f in sorted(glob.glob(os.path.join(core.VERIF, "corpus", "C08", "*.json")) + glob.glob(os.path.join(core.VERIF, "corpus", "C09", "*.json"))):
        hs.append(json.load(open(f))["ops"])
    hs += dkggen.directed_histories(dkggen.SCH[ctx["seed"] % 5])
    hs += dkggen.epoch_sweep_histories(dkggen.SCH[ctx["seed"] % 5])
    if ctx["tier"] != "quick" or ctx.get("deep"):
        for sc in dkggen.SCH:
            if sc != dkggen.SCH[ctx["seed"] % 5]:
                hs += dkggen.epoch_sweep_histories(sc, E=3 + dkggen.SCH.index(sc) % 3)
        for sc in dkggen.SCH:
            if sc != dkggen.SCH[ctx["seed"] % 5]:
                hs += dkggen.directed_histories(sc)
    for i in range(n):
        hs.append(dkggen.gen_history(rng.fork(f"h{i}"), dkggen.SCH[i % 5], deep=(i % 3 == 0))[0])
    return hs


def shrink(ops, bad):
    """delta-debug a history (keeping the header) against a predicate on the real implementation"""
    h = os.path.join(core.BUILD, "verifh")
    head = [o for o in ops if o.split()[0] in ("now", "mkpart", "reset")]
    body = [o for o in ops if o.split()[0] not in ("now", "mkpart", "reset")]
    def fails(b):
        rc, lines, err = core.run_lines(h, ["dkgsm"], head + b)
        if rc != 0:
            return False
        rows = [l.split("\t") for l in lines]
        return bad([r[1] for r in rows], [r[2] for r in rows])
    changed = True
    while changed and len(body) > 1:
        changed = False
        for i in range(len(body)):
            cand = body[:i] + body[i + 1:]
            if fails(cand):
                body, changed = cand, True
                break
    return head + body


def norm_state(st):
    """what two runs of the same history must agree on (absolute times differ from run to run)"""
    if st is None:
        return None
    return tuple((k, tuple(v) if isinstance(v, list) else v) for k, v in sorted(st.items()) if k not in ("timeout", "genesis", "fg"))


def final_of(impl):
    cls, cur, fin = dkggen.parse_reply(impl[-1])
    return (norm_state(cur), norm_state(fin))


def gate_check(ctx, res, prop):
    """Command's read-modify-write is atomic: a packet that arrives while a command sits between its read of the stored state
    and the rest is served either wholly before or wholly after the command. Runs every gated pair on the real process next to
    the two sequential orders of the same pair (all three on the implementation) and requires the gated outcome — answers and
    final stored state — to be one of the two. Returns (histories to run through the ordinary oracle too, count)."""
    groups = []
    for sc in ([dkggen.SCH[ctx["seed"] % 5]] if not (ctx["tier"] != "quick" or ctx.get("deep")) else dkggen.SCH):
        groups += dkggen.gate_groups(sc)
    flat = [h for g in groups for h in g[1:]]
    by_ops = {tuple(ops): (mops, impl, model) for ops, mops, impl, model in run_histories(ctx, res, flat, prop)}
    bad = 0
    for name, gated, cmd_first, pkt_first in groups:
        gm, gi, _ = by_ops[tuple(gated)]
        _, ai, _ = by_ops[tuple(cmd_first)]
        _, bi, _ = by_ops[tuple(pkt_first)]
        parts = [x.strip() for x in gi[-2].split(" | ")[0].split(";;")]
        order_cmd_first = gm[-2].split()[1] == "cmd"
        got_cls = (parts[0], parts[1]) if order_cmd_first else (parts[1], parts[0])       # (cmd answer, pkt answer)
        got = (got_cls, final_of(gi))
        seq_a = ((ai[-3].split(" | ")[0], ai[-2].split(" | ")[0]), final_of(ai))
        seq_b = ((bi[-2].split(" | ")[0], bi[-3].split(" | ")[0]), final_of(bi))
        if got != seq_a and got != seq_b and bad == 0:
            bad += 1
            res.report("non-atomic-command:not-serialisable",
                       {"engine": "dkgsm", "kind": "impl-violates", "ops": gated, "observed": gi[-2:],
                        "expected": ["command first: " + str(ai[-3:-1]), "packet first: " + str(bi[-3:-1])],
                        "oracle": f"gated pair {name}: the packet was served while the command sat between its read of the stored state and its "
                                  f"write; answers (command, packet) = {got_cls} and the final state match neither sequential order — the "
                                  "command's read-modify-write is not atomic with respect to packets"})
    return [g[1] for g in groups], len(groups)


def explore(ctx, res, oracle=oracle_history, prop="C08"):
    tier = "thorough" if ctx["deep"] else ctx["tier"]
    n = 150 if tier == "quick" else 4000
    gated, n_gated = ([], 0)
    if prop == "C08":
        gated, n_gated = gate_check(ctx, res, prop)
    runs = run_histories(ctx, res, histories(ctx, n) + gated, prop)
    total = validated = 0
    classes, nontriv, samples = {}, set(), []
    reported = {}
    diverged = None
    for ops, mops, impl, model in runs:
        total += len(ops)
        now = int(mops[0].split()[1]) if mops and mops[0].startswith("now") else 0
        for r in impl:
            c = r.split(" | ")[0]
            classes[c] = classes.get(c, 0) + 1
        states = {dkggen.parse_reply(r)[1]["state"] for r in impl if " | " in r and dkggen.parse_reply(r)[1]}
        if len(states) >= 3:
            nontriv.add(tuple(ops))
        v = oracle(mops, impl, now)
        if v:
            why, sig = v
            if sig in reported:
                # one replay per kind of failure (the first history that shows it, shrunk) is what a reader needs
                reported[sig] += 1
                continue
            reported[sig] = 1
            def bad(m, i, sig=sig, now=now):
                x = oracle(m, i, now)
                return x is not None and x[1] == sig
            is_known = any(k.get("property") == prop and k.get("signature") == sig for k in ctx.get("findings", core.known_findings()).get("findings", []))
            small = ops if (is_known or len(res.violations) >= 2) else shrink(ops, bad)
            res.report(sig, {"engine": "dkgsm", "kind": "impl-violates", "ops": small, "oracle": why})
            continue
        if model is not None:
            if model != impl:
                # keep going: another history may show the property itself failing on the implementation
                if diverged is None:
                    j = core.first_diff(impl, model)
                    diverged = {"engine": "dkgsm", "kind": "model-impl-diverge", "ops": ops[:j + 1], "observed": impl[j:j + 1],
                                "expected": model[j:j + 1],
                                "note": f"correspondence 'dkgsm' no longer checks; the {prop} oracle accepts the implementation's answers on every history explored"}
            else:
                validated += 1
        if len(samples) < 3:
            samples.append({"ops": [o for o in ops if not o.startswith("mkpart")][:8], "impl": impl[-1][:200]})
    if diverged is not None and not res.violations:
        res.add_violation(diverged, found=False)
    res.cov.update(evaluations=total, distinct_nontrivial=len(nontriv), traces_validated_against_impl=validated, samples=samples)
    res.cov["rule"] = ("histories of 15-80 steps over 1-4 epochs seen from one real dkg.Process (leader, member, leaver or joiner), 5 schemes: valid protocol flows "
                       "(propose, join/accept/reject, execute, complete/fail/abort, retry) with 30-45% adversarial noise (commands at the wrong moment, 26 single-field "
                       "mutations of the terms, wrong signer, wrong claimed sender, signature over other terms, replays, short signatures, stray completions); "
                       "evaluations = op lines; non-trivial = distinct history that visits at least 3 different states")
    res.cov["distribution"] = {"outcome_classes": dict(sorted(classes.items(), key=lambda x: -x[1])[:40]), "gated_pairs": n_gated,
                               "histories_failing_per_signature": dict(reported)}
