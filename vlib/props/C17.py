"""C17 — chain hash and group hash commit to exactly the parameters they identify."""
import hashlib, os, subprocess
from .. import core

ID = "C17"
MODULE = "DrandProofs.C17"
THEOREMS = ["Drand.Codec." + t for t in [
    "tie_infoHash", "tie_groupHash", "tie_nodeHash", "tie_distPublicHash", "tie_defaultId", "tie_algos",
    "c17_chain_deterministic", "c17_chain_period", "c17_chain_genesis", "c17_chain_pk", "c17_chain_seed",
    "c17_chain_id", "c17_chain_injective", "c17_chain_seed_id_ambiguity", "c17_chain_ignores_members",
    "c17_decode_rejects", "c17_decode_accepts", "c17_group_perm", "c17_group_threshold", "c17_group_genesis",
    "c17_group_transition", "c17_group_id", "c17_group_pk", "c17_coeffs_flatten_injective", "c17_group_nodes"]]
TRUSTED = ["Lean 4 kernel; axioms per theorem under coverage.axioms",
           "go2lean hash-layout extractor (Info.Hash, Group.Hash, Node.Hash, DistPublic.Hash, IsDefaultBeaconID) — regenerated and tied by rfl theorems tie_*",
           "collision freedom of SHA-256 / BLAKE2b-256 is an explicit hypothesis (HashOK) of the theorems that need it",
           "python hashlib (sha256, blake2b digest_size=32) to hash the model's preimage",
           "modelled, not verified: kyber point MarshalBinary (opaque bytes), BurntSushi/toml, encoding/json, protobuf (exercised by the round-trip oracles)"]
ASSUMPTIONS = ["period is a whole number of seconds < 2^32; node indices are distinct within a group"]


def H(algo, b):
    return hashlib.sha256(b).digest() if algo == "sha256" else hashlib.blake2b(b, digest_size=32).digest()


def eval_toks(line, algo):
    out = b""
    for t in line.split():
        kind, hexs = t.split(":")
        raw = b"" if hexs == "-" else bytes.fromhex(hexs)
        out += raw if kind == "R" else H("blake2b256", raw)
    return H(algo, out)


def explore(ctx, res):
    tier = "thorough" if ctx["deep"] else ctx["tier"]
    count = 8 if tier == "quick" else 120
    h = os.path.join(core.BUILD, "verifh")
    rc, lines, err = core.run_lines(h, ["hash", str(ctx["seed"]), str(count)], [], timeout=3000)
    if rc != 0:
        raise core.Broken("harness:hash", err[-1500:])
    rows = [l.split("\t") for l in lines]
    base = {}
    for r in rows:
        if r[0] == "M" and r[1].count("/") == 2:
            base[r[1]] = r[3].split(":")[1]
    viol = []
    kinds = {}
    for r in rows:
        kinds[r[0]] = kinds.get(r[0], 0) + 1
        if r[0] == "EQ" and r[3] != base.get(r[1]):
            viol.append({"case": r[1], "label": r[2], "oracle": f"hash must be unchanged by '{r[2]}' but {r[3]} != {base.get(r[1])}"})
        elif r[0] == "NE" and r[3] == base.get(r[1]):
            viol.append({"case": r[1], "label": r[2], "oracle": f"changing '{r[2]}' did not change the hash {r[3]}"})
        elif r[0] == "REJ" and r[3] != "rejected":
            viol.append({"case": r[1], "label": r[2], "oracle": "chain info whose embedded hash does not match its fields was accepted on decode"})
        elif r[0] in ("ERR", "PANIC"):
            viol.append({"case": r[1], "label": r[2], "oracle": f"encoding path failed: {r[3]}"})
    mrows = [r for r in rows if r[0] == "M"]
    res.cov["evaluations"] = len(rows)
    res.cov["distinct_nontrivial"] = len({r[2] for r in mrows})
    res.cov["rule"] = ("per scheme (5) × generated group (1–6 nodes, sparse indices, optional seed/dist key/transition, id ∈ {'', default, custom}): "
                       "M = real Hash() vs hash of the Lean model's preimage; EQ = hash invariant under node permutation, id ''≡default, TOML/protobuf/JSON paths, membership changes (chain hash); "
                       "NE = hash changes under each single-field perturbation; REJ = tampered JSON chain info rejected. non-trivial = distinct model-comparison inputs")
    res.cov["distribution"] = {"lines_by_kind": kinds}
    res.cov["samples"] = [{"case": r[1], "op": r[2][:160], "real": r[3]} for r in mrows[:2]] + \
                         [{"case": r[1], "label": r[2], "value": r[3]} for r in rows if r[0] in ("EQ", "NE", "REJ")][:4]
    for v in viol[:3]:
        ops = [r[2] for r in mrows if r[1] == v["case"]]
        res.add_violation(dict(v, engine="hash", kind="impl-violates", ops=ops, harness_args=["hash", str(ctx["seed"]), str(count)]))
    if viol:
        return
    if ctx["model_ok"]:
        d = os.path.join(core.LEAN, ".lake", "build", "bin", "vdriver")
        rc, mo, err = core.run_lines(d, ["hash"], [r[2] for r in mrows])
        if rc != 0 or len(mo) != len(mrows):
            raise core.Broken("model:hash", err[-1000:])
        ok = 0
        for r, m in zip(mrows, mo):
            algo, real = r[3].split(":")
            try:
                got = eval_toks(m, algo).hex()
            except Exception as e:
                got = f"unparsable model output {m[:80]!r}: {e}"
            if got != real:
                res.add_violation({"engine": "hash", "kind": "model-impl-diverge", "ops": [r[2]], "observed": [real], "expected": [got],
                                   "note": f"correspondence 'hash' no longer checks for case {r[1]}; equality/inequality oracles on the implementation all pass"}, found=False)
                break
            ok += 1
        res.cov["traces_validated_against_impl"] = ok
