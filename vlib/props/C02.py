"""C02 — one gap-free, append-only chain; honest nodes never disagree or rewrite."""
import os
from .. import core

ID = "C02"
MODULE = "DrandProofs.C02"
DEPENDS = ["C18", "C10"]  # base store = sorted map (C18); stores filled by sync, incl. follow mode without the append layer, are written in order (C10): re-checked with this property (check, P5b)
THEOREMS = ["Drand.Chain." + t for t in [
    "c02_init_inv", "c02_put_inv", "c02_restart", "c02_chain_inv", "c02_append_only", "c02_reput_head",
    "c02_gap_refused", "c02_agree", "c02_resync_sound", "c02_restart_genesis", "c02_failed_write_no_effect", "tie_appendStore_locked"]]
TRUSTED = ["Lean 4 kernel; axioms per theorem under coverage.axioms",
           "the base store is the sorted map of C18 (bbolt/memdb refine it: C18's correspondence)",
           "sync.Mutex gives mutual exclusion: appendStore.Put holds its mutex for its whole body (regenerated lock fact), so interleavings of the aggregation and sync paths are sequences of Puts",
           "SigUnique (uniqueness of BLS signatures) is an explicit hypothesis of c02_agree / c02_resync_sound",
           "harness engine 'chain': real newAppendStore(NewSchemeStore(base)) over trimmed bolt (previous-required iff chained), untrimmed bolt, memdb"]
ASSUMPTIONS = ["every write of a participating node goes through the store stack built by newChainStore; the repair path writes verified beacons only (C10)"]
BACKENDS = ["trimmed", "bolt", "mem", "mem10"]
SCHEMES = ["pedersen-bls-chained", "pedersen-bls-unchained", "bls-unchained-g1-rfc9380", "bls-unchained-on-g1", "bls-bn254-unchained-on-g1"]


def sig_of(rng, r, alt=False):
    return f"{(r * 7 + (1 if alt else 0)) % 256:02x}{r % 256:02x}"


def gen_sequence(rng, chained, ring=False):
    seed = rng.choice(["aa", "5eed", "00"])
    scheme = SCHEMES[0] if chained else rng.choice(SCHEMES[1:])
    seq = [f"init {scheme} {seed}"]
    head = 0
    sigs = {0: seed}
    for _ in range(rng.range(15, 60)):
        k = rng.below(100)
        if k < 45:      # the honest next beacon
            r = head + 1
            s = sig_of(rng, r)
            p = sigs[head] if chained or rng.chance(1, 2) else "-"
            seq.append(f"put {r} {s} {p}")
            head, sigs[r] = r, s
        elif k < 55:    # re-put of the head, equal or different
            v = rng.below(3)
            s = sigs[head] if v != 1 else sig_of(rng, head, True)
            p = (sigs.get(head - 1, "-") if chained else "-") if v != 2 else "ff"
            seq.append(f"put {head} {s} {p}")
        elif k < 65:    # head+1 with a wrong previous signature
            seq.append(f"put {head + 1} {sig_of(rng, head + 1, True)} {rng.choice(['ff', '-', sigs.get(max(0, head - 1), 'aa')])}")
            if not chained:
                head += 1
                sigs[head] = sig_of(rng, head, True)
        elif k < 80:    # gaps and the past
            r = rng.choice([head + 2, head + 3, max(0, head - 1), max(0, head - 2), 0, head + 50])
            seq.append(f"put {r} {sig_of(rng, r, rng.chance(1, 2))} {sigs.get(r - 1, '-') if r > 0 else '-'}")
        elif k < 84:
            n = rng.range(2, 12)
            seq.append(f"race {n} {rng.range(2, 6)}")
            for i in range(n):
                head += 1
                sigs[head] = f"{(head * 7) % 256:02x}{head % 256:02x}5a"
        elif k < 86:    # a write that fails below the wrappers must not advance the chain head
            r = head + 1
            seq.append(f"failput {r} {sig_of(rng, r)} {sigs[head] if chained else '-'}")
            if ring:      # memdb ignores the context, the write succeeds
                head, sigs[r] = r, sig_of(rng, r)
            elif rng.chance(1, 2):   # the round after a failed write must still be refused
                seq.append(f"put {r + 1} {sig_of(rng, r + 1)} {rng.choice([sigs[head], sig_of(rng, r)]) if chained else '-'}")
                seq.append("scan")
        elif k < 90:
            seq.append("restart")
        elif k < 94:
            seq.append("last")
        else:
            seq.append("scan")
    seq += ["scan", "restart", "scan", "last"]
    return seq


def parse_scan(out):
    if out == "empty":
        return []
    res = []
    for t in out.split("|"):
        f = t.split()
        res.append((int(f[0]), f[1], f[2]))
    return res


def oracle_seq(seq, outs, window=None):
    """C02 on the implementation's own answers: gap-free 0..head, linked, append-only, no rewrite."""
    chained = seq[0].split()[1] == SCHEMES[0]
    store = None
    for op, out in zip(seq, outs):
        f = op.split()
        if out.startswith("err:") or out.startswith("panic"):
            return f"{op}: unexpected outcome {out}"
        if f[0] == "race":
            # concurrent writers: every beacon appended exactly once, nobody failed
            oks = out.split()[1].split("=")[1].split(",")
            if out.split()[2] != "bad=0" or any(o != "1" for o in oks):
                return f"{op}: concurrent writers produced {out} (each round must be appended exactly once)"
        if f[0] == "scan":
            cur = parse_scan(out)
            rounds = [c[0] for c in cur]
            if not cur or rounds != list(range(rounds[0], rounds[0] + len(rounds))):
                return f"stored rounds are not consecutive: {rounds}"
            if window is not None and len(rounds) > window:
                return f"ring holds {len(rounds)} rounds, capacity {window}"
            if rounds[0] != 0 and window is None:
                return f"chain does not start at round 0: {rounds[:3]}"
            for a, b in zip(cur, cur[1:]):
                if chained and b[2] != a[1]:
                    return f"round {b[0]} previous signature {b[2]} is not the stored signature {a[1]} of round {a[0]}"
                if not chained and b[2] != "-":
                    return f"unchained round {b[0]} stored with a previous signature"
            if store is not None:
                old = dict((c[0], c) for c in store)
                for c in cur:
                    if c[0] in old and old[c[0]] != c:
                        return f"round {c[0]} was rewritten: {old[c[0]]} -> {c}"
                if window is not None and rounds[0] < store[0][0]:
                    return f"the ring's window moved backwards: {store[0][0]} -> {rounds[0]}"
                if rounds[-1] < store[-1][0]:
                    return "head went backwards"
            store = cur
    return None


def explore(ctx, res):
    rng = ctx["rng"]
    tier = "thorough" if ctx["deep"] else ctx["tier"]
    n = 120 if tier == "quick" else 3000
    total, validated, nontriv, dist, samples = 0, 0, set(), {}, []
    diverged = None
    h = os.path.join(core.BUILD, "verifh")
    for backend in BACKENDS:
        seqs = [gen_sequence(rng.fork(f"{backend}{i}"), i % 2 == 0, backend.startswith("mem")) for i in range(n)]
        lines = [l for s in seqs for l in s]
        if ctx["model_ok"]:
            impl, model = core.run_both("chain", [backend], lines)
        else:
            rc, impl, err = core.run_lines(h, ["chain", backend], lines)
            model = None
        total += len(lines)
        i = 0
        for s in seqs:
            outs = impl[i:i + len(s)]
            for o in outs:
                k = o if o in ("ok", "already", "dup-diff-prev", "dup-diff-sig", "bad-round", "bad-prev", "err-write") else "read"
                dist[k] = dist.get(k, 0) + 1
            if outs.count("ok") > 2:
                nontriv.add((backend, tuple(s)))
            why = oracle_seq(s, outs, window=(int(backend[3:]) if backend.startswith("mem") and len(backend) > 3 else (2000 if backend == "mem" else None)))
            if why:
                res.add_violation({"engine": "chain", "backend": backend, "kind": "impl-violates", "ops": s, "observed": outs, "oracle": why})
                break
            if model is not None:
                mo = model[i:i + len(s)]
                if mo != outs:
                    # keep looking: another sequence may show the property itself failing on the implementation
                    if diverged is None:
                        j = core.first_diff(outs, mo)
                        diverged = {"engine": "chain", "backend": backend, "kind": "model-impl-diverge", "ops": s[:j + 1],
                                    "observed": outs[j:j + 1], "expected": mo[j:j + 1],
                                    "note": "correspondence 'chain' no longer checks; the gap-free/append-only oracle accepts the implementation's answers on every sequence explored"}
                else:
                    validated += 1
            i += len(s)
        samples.append({"backend": backend, "ops": seqs[0][:10], "impl": impl[:10]})
        if res.violations:
            break
    if diverged is not None and not res.violations:
        res.add_violation(diverged, found=False)
    res.cov.update(evaluations=total, distinct_nontrivial=len(nontriv), traces_validated_against_impl=validated, samples=samples)
    res.cov["rule"] = ("per back-end (trimmed bolt with previous-required iff chained, untrimmed bolt, memdb) × chained/unchained: random op sequences around the head "
                       "(head+1 honest, head re-put equal/different, wrong previous signature, gaps, past rounds, restarts, scans); non-trivial = distinct sequence with more than 2 successful appends")
    res.cov["distribution"] = {"outcomes": dist}
