"""C19 — requests reach only the beacon chain they name."""
import glob, itertools, json, os, time
from concurrent.futures import ThreadPoolExecutor
from .. import core

ID = "C19"
MODULE = "DrandProofs.C19"
THEOREMS = ["Drand.Daemon." + t for t in [
    "tie_defaultBeaconID", "tie_defaultChainHash", "tie_isDefaultBeaconID", "tie_canon", "tie_compareBeaconIDs",
    "tie_script_readBeaconID", "tie_script_getBeaconProcessByID", "tie_script_getBeaconProcessFromRequest",
    "tie_script_InstantiateBeaconProcess", "tie_script_AddBeaconHandler", "tie_script_RemoveBeaconHandler",
    "tie_script_RemoveBeaconProcess", "tie_script_LoadBeaconFromStore", "tie_script_LoadBeaconFromDisk",
    "tie_script_LoadBeaconsFromDisk", "tie_script_LoadBeacon", "tie_script_Shutdown", "tie_script_storeDKGOutput",
    "tie_script_dkgCallback", "tie_serviceMethods", "tie_serviceMethodsBypassingRouting",
    "tie_script_http_RegisterNewBeaconHandler", "tie_script_http_RemoveBeaconHandler",
    "tie_script_http_RegisterDefaultBeaconHandler", "tie_script_http_getBeaconHandler",
    "tie_script_http_readChainHash", "c19_hex_ne_default", "c19_sound", "c19_mismatch_rejected",
    "c19_hash_alone_selects", "c19_neither_is_default", "c19_http", "c19_http_default_only", "c19_table_inv",
    "c19_table_inv_partial", "c19_table_inv_counterexample", "c19_stop_unresolves", "c19_remove_local",
    "c19_load_registers", "c19_local"]]
TRUSTED = ["Lean 4 kernel; axioms per theorem under coverage.axioms",
           "go2lean routing extractor: DefaultBeaconID, DefaultChainHash, IsDefaultBeaconID, GetCanonicalBeaconID, CompareBeaconIDs translated to Lean definitions (tied by rfl), and the normalised statement scripts of the 19 functions that read or write the routing tables compared with golden copies (tie_script_*); that the model follows those statements is by inspection plus the differential run",
           "harness engine 'route': a real DrandDaemon (NewDrandDaemon on loopback, memdb) with real file key stores; the DKG database is a stub that always reports 'no completed DKG' (group-file path of LoadBeaconFromStore); DKG completion enters at the real storeDKGOutput",
           "c19_remove_local assumes distinct running processes have distinct non-empty chain hashes (the id is part of the preimage, C17; SHA-256 collision freedom); the harness checks it for its labels",
           "modelled, not verified: Go map semantics, sync.RWMutex (each control call is one atomic step of the model), chi URL routing, gRPC transport (the service methods are called in-process in the quick tier)"]
ASSUMPTIONS = ["a group stored under / produced for beacon id X carries group.ID = X (guaranteed by the DKG, not by the loader)",
               "a DKG completion on a process that already has a group keeps its chain hash (public key and scheme unchanged: C07 + kyber resharing); the model shows the stale entry otherwise (c19_table_inv_counterexample) and the check replays it on the real code",
               "LoadBeaconsFromDisk runs on a daemon without running processes (start-up), control calls are serialised",
               "a request with an unknown chain hash is served by the process named by its id while that process has no group yet (the pending-DKG exception coded in readBeaconID)"]

PERIOD = 30
GENESIS = 4102444800          # 2100-01-01, far in the future: no round is produced in the quick engine
IDS = ["default", "foo", "bar"]
LABELS = [f"{i}.{v}" for i in IDS for v in (1, 2)]
UNKNOWN32 = "11" * 32
DEFAULT_AS_BYTES = "default".encode().hex()


def canon(i):
    return "default" if i in ("", "default", "-", "nil") else i


# ---------------------------------------------------------------- parsing of answers

def split_obs(line):
    a, _, b = line.partition(" ;; ")
    return a, b


def kv(s):
    d = {}
    for t in s.split():
        k, _, v = t.partition("=")
        d[k] = v
    return d


def parse_list(s):
    s = s.strip()
    assert s.startswith("[") and s.endswith("]"), s
    return [x for x in s[1:-1].split(",") if x]


def parse_tabs(line):
    a, b = split_obs(line)
    d = kv(a)
    P = {}
    for e in parse_list(d["procs"]):
        i, rest = e.split(">", 1)
        name, h = rest.rsplit(":", 1)
        P[i] = {"name": name, "hash": None if h == "-" else h}
    hashes = dict(e.split(">", 1) for e in parse_list(d["hashes"]))
    http = dict(e.split(">", 1) for e in parse_list(d["http"]))
    return P, hashes, http, kv(b)


# ---------------------------------------------------------------- the property, evaluated on the implementation's answers

class Suite:
    """one probe suite: the table dump and the answers to the request / http probes taken in one state"""
    def __init__(self, probes, answers):
        self.probes, self.answers = probes, answers
        self.P, self.hashes, self.http, self.tobs = parse_tabs(answers[0])


def owners(P, h):
    return [i for i in P if P[i]["hash"] == h]


def check_suite(su, ready, live=None):
    """C19 on one state. `ready` = ids whose last load / DKG completion was answered ok (only those must be
    reachable; every answer must be sound whatever the state). Returns None or a description."""
    P = su.P
    for op, ans in zip(su.probes[1:], su.answers[1:]):
        f = op.split()
        a, o = split_obs(ans)
        if ans.startswith("panic") or a == "bad-op":
            return f"{op}: {ans}"
        if f[0] == "req":
            d, ob = kv(a), kv(o)
            idtok, htok = f[1], f[2]
            named = None if idtok in ("-", "nil") else canon(idtok)
            h = None if htok == "-" else htok.lower()
            own = owners(P, h) if h else []
            served = not d["proc"].startswith("err:")
            if served:
                name = d["proc"]
                pid = name.rsplit("#", 1)[0]
                if pid not in P or P[pid]["name"] != name:
                    return f"{op}: answered by {name}, which is not a running process ({sorted(P)})"
                if named is not None and pid != named:
                    return f"{op}: names beacon id {named} but is answered by {name}"
                own_ready = [i for i in own if i in ready]
                if h and own_ready and pid not in own_ready:
                    return f"{op}: names the chain hash of {own_ready} but is answered by {name}"
                if h and not own_ready and pid not in own:
                    # the hash is not registered for any loaded chain: only the pending-DKG exception may answer
                    if P[pid]["hash"] is not None:
                        return f"{op}: names a chain hash no running chain has, yet is answered by {name} whose chain hash is {P[pid]['hash']}"
                    if pid != canon(idtok):
                        return f"{op}: unknown chain hash answered by {name}, not the process its id names"
                if named is None and not h and pid != "default":
                    return f"{op}: neither id nor hash, answered by {name} instead of the default chain"
                want = P[pid]["hash"]
                bph = ob.get("bp", "").rsplit(":", 1)[-1]
                if (want or "-") != bph:
                    return f"{op}: the answering object's own group hash {bph} differs from the running process' {want}"
                for ep in ("ci", "grp"):
                    got = ob.get(ep)
                    if want is None and got != "err:no-group":
                        return f"{op}: {ep} answered {got} for a process without a group"
                    if want is not None and got != want:
                        return f"{op}: {ep} answered with chain {got}, the request names {want}"
                for ep in ("idn", "pk"):
                    if ob.get(ep) != pid:
                        return f"{op}: {ep} answered with the identity of {ob.get(ep)}, expected {pid}"
                if h and pid in own and ob.get("ci") != h:
                    return f"{op}: chain info of {ob.get('ci')} returned for a request naming hash {h}"
                r = ob.get("rand", "")
                if live is not None and r.startswith("r") and not r.startswith("r0:"):
                    lab = live.get(want)
                    if r.split(":", 1)[1] != lab:
                        return f"{op}: randomness verifies under {r}, the named chain is {lab}"
            # completeness / refusal
            if h and len(own) == 1:
                x = own[0]
                if named is not None and named != x:
                    if served and x in ready:
                        return f"{op}: mismatching id/hash pair was answered ({d['proc']})"
                elif x in ready:
                    if not served or d["proc"] != P[x]["name"]:
                        return f"{op}: the known chain hash of {x} must select it, got {d['proc']}"
            if not h:
                tgt = named or "default"
                if tgt in P:
                    if not served or d["proc"] != P[tgt]["name"]:
                        return f"{op}: must be answered by {P[tgt]['name']}, got {d['proc']}"
                elif served:
                    return f"{op}: {tgt} is not running but the request was answered by {d['proc']}"
            if d["id"].startswith("err:"):
                if d["proc"] != d["id"]:
                    return f"{op}: readBeaconID refused ({d['id']}) but the request went to {d['proc']}"
            elif d["proc"] != "err:not-running" and d["proc"].rsplit("#", 1)[0] != d["id"]:
                return f"{op}: readBeaconID answered {d['id']} but the request went to {d['proc']}"
        elif f[0] == "http" and f[1] == "chains":
            listed = set(parse_list(a.split("=", 1)[1]))
            running = {P[i]["hash"] for i in P if P[i]["hash"]}
            if not listed <= running:
                return f"http chains lists {sorted(listed - running)} which no running chain has"
            must = {P[i]["hash"] for i in ready if i in P and P[i]["hash"]}
            if not must <= listed:
                return f"http chains misses {sorted(must - listed)}"
        elif f[0] == "http":
            d, ob = kv(a), kv(o)
            sel = d["sel"]
            code, _, info = ob.get("info", "").partition(":")
            path = f[1]
            try:
                hb = b"" if path == "-" else bytes.fromhex(path)
            except ValueError:
                hb = None
            if hb is None:
                if sel != "bad" or code != "400":
                    return f"{op}: undecodable chain hash in the path answered {ans}"
                continue
            h = hb.hex()
            own = ["default"] if (h == "" and "default" in P) else owners(P, h) if h else []
            if sel not in ("-", "bad"):
                pid = sel.rsplit("#", 1)[0]
                if pid not in P or P[pid]["name"] != sel:
                    return f"{op}: served by the handler of {sel}, which is not a running process"
                if pid not in own:
                    return f"{op}: path names {'the default chain' if h == '' else 'hash ' + h} but the handler of {sel} serves it"
                if code == "200" and info != P[pid]["hash"]:
                    return f"{op}: returned chain info {info}, the chain named is {P[pid]['hash']}"
                lat = ob.get("latest", "")
                if live is not None and lat.startswith("200:r") and not lat.startswith("200:r0:"):
                    if lat.split(":", 2)[2] != live.get(P[pid]["hash"]):
                        return f"{op}: latest randomness verifies under {lat}, the named chain is {live.get(P[pid]['hash'])}"
            elif code == "200":
                return f"{op}: no handler selected but status 200"
            if len(own) == 1 and own[0] in ready and P[own[0]]["hash"]:
                if sel != P[own[0]]["name"] or code != "200":
                    return f"{op}: must be served by {P[own[0]]['name']}, got {ans}"
            if not own and sel != "-":
                return f"{op}: nothing running under that name, yet {sel} serves it"
    if "default" in ready and "default" in P and P["default"]["hash"]:
        if su.tobs.get("default-shares") != P["default"]["hash"]:
            return f"the default HTTP entry does not share the handler of the default chain's hash ({su.tobs})"
    return None


def check_step(before, after, op, ans, ready_before):
    """history rules for one control call: only the chain(s) the call names may change, a successful stop removes
    the chain, a successful load starts it; everything answered by another chain stays byte-identical."""
    f = op.split()
    if f[0] not in ("load", "stop", "dkg", "boot"):
        return None
    if f[0] == "dkg":
        named = {f[1]}
    elif f[0] == "boot":
        named = set(after.P) - set(before.P)
    else:
        named = {canon(f[1])} | (set(owners(before.P, f[2].lower())) if f[2] != "-" else set())
    for i in set(before.P) | set(after.P):
        if i not in named and before.P.get(i) != after.P.get(i):
            return f"{op} ({ans}) changed the running process of {i}: {before.P.get(i)} -> {after.P.get(i)}"
    if ans != "ok" and f[0] in ("stop",) and before.P != after.P:
        return f"{op} was refused ({ans}) but the running set changed"
    if f[0] == "stop" and ans == "ok":
        gone = [i for i in named if i in before.P and i not in after.P]
        if len(gone) != 1:
            return f"{op} answered ok; exactly one named chain must be gone, running before {sorted(before.P)} after {sorted(after.P)}"
    if f[0] == "load" and ans == "ok":
        new = [i for i in named if i in after.P and (i not in before.P)]
        if len(new) != 1:
            return f"{op} answered ok but no new process is running ({sorted(before.P)} -> {sorted(after.P)})"
    named_hashes = {P[i]["hash"] for P in (before.P, after.P) for i in named if i in P and P[i]["hash"]}
    import re
    norm = lambda t: re.sub(r"(rand=r|latest=200:r)\d+:", r"\1*:", t)   # live chains: the round advances with time
    for p, x, y in zip(before.probes[1:], before.answers[1:], after.answers[1:]):
        if x == y or norm(x) == norm(y):
            continue
        pf = p.split()
        # a probe that itself names a changed chain (by id or by one of its hashes) may of course change
        if pf[0] == "req" and (canon(pf[1]) in named and pf[1] not in ("-", "nil") or pf[2].lower() in named_hashes):
            continue
        if pf[0] == "http" and pf[1].lower() in named_hashes:
            continue
        a, _ = split_obs(x)
        d = kv(a)
        who = d.get("proc") or d.get("sel") or ""
        if "#" in who:
            pid = who.rsplit("#", 1)[0]
            if pid not in named and pid in ready_before:
                return f"{op} ({ans}) changed the answer to '{p}' which was served by {who}: {x!r} -> {y!r}"
    return None


# ---------------------------------------------------------------- generation

class Gen:
    def __init__(self, hashes):
        self.h = hashes
        self._probes = {}

    def g(self, label):
        return f"{label}={self.h[label]}"

    def probes(self, ids=IDS):
        key = tuple(ids)
        if key not in self._probes:
            self._probes[key] = self._mk_probes(ids)
        return self._probes[key]

    def _mk_probes(self, ids):
        hs = ["-"] + [self.h[l] for l in LABELS if l.split(".")[0] in ids] + ["aabb", DEFAULT_AS_BYTES, UNKNOWN32,
                                                                            self.h["foo.1"] + "00", self.h["foo.1"][:-2]]
        out = ["tabs", "req nil -"]
        for i in ["-"] + ids + ["zed"]:
            for h in hs:
                out.append(f"req {i} {h}")
        out += [f"http {p}" for p in ["-"] + [self.h[l] for l in LABELS if l.split(".")[0] in ids] +
                [self.h["foo.1"].upper(), "zz", "abc", "default", "aabb", UNKNOWN32, "chains"]]
        return out


class Tracker:
    """generation-time guess of the running set (only steers the generator; the oracle uses what the implementation reports)"""
    def __init__(self):
        self.run = {}
        self.disk = {}


def macro_ops(gen, ids):
    """the alphabet of the exhaustive enumeration: each entry (tag, id, lines)"""
    A = []
    for x in ids:
        lid = "-" if x == "default" else x
        A.append(("loadF", x, None, [f"disk {x} fresh", f"load {lid} -"]))
        for v in (1, 2):
            A.append((f"load{v}", x, f"{x}.{v}", [f"disk {x} grp:{gen.g(f'{x}.{v}')}", f"load {x} -"]))
        A.append(("stop", x, None, [f"stop {x} -"]))
        for v in (1, 2):
            A.append((f"dkg{v}", x, f"{x}.{v}", [f"dkg {x} {gen.g(f'{x}.{v}')}"]))
    return A


def within_assumptions(seq):
    """a DKG completion may not change the chain hash of a process that has a group"""
    run = {}
    for tag, x, label, _ in seq:
        if tag.startswith("load"):
            if x not in run:
                run[x] = label
        elif tag == "stop":
            run.pop(x, None)
        elif tag.startswith("dkg") and x in run:
            if run[x] is not None and run[x] != label:
                return False
            run[x] = label
    return True


def history_lines(gen, seq, ids):
    """op lines of one history: every control call followed by `tabs`; the full probe suite before and after the last call"""
    pr = gen.probes(ids)
    lines, marks = [], []          # marks: (kind, index range)
    for k, (_, _, _, ls) in enumerate(seq):
        if k == len(seq) - 1:
            marks.append(("suite", len(lines), len(lines) + len(pr)))
            lines += pr
        for l in ls:
            marks.append(("op", len(lines), len(lines) + 1))
            lines.append(l)
        marks.append(("tabs", len(lines), len(lines) + 1))
        lines.append("tabs")
    marks.append(("suite", len(lines), len(lines) + len(pr)))
    lines += pr
    return lines, marks


def random_history(gen, rng, n_ops):
    """longer histories over three chains with every request form the control calls accept"""
    seq = []
    run = {}
    maybe = {}
    for _ in range(n_ops):
        x = rng.choice(IDS)
        k = rng.below(100)
        if k < 34:
            what = rng.choice(["fresh", "grp1", "grp2", "grp1", "bad", "nokey", "none"])
            if what.startswith("grp"):
                label = f"{x}.{what[3]}"
                d = f"disk {x} grp:{gen.g(label)}"
            elif what == "bad":
                label = f"{x}.1"
                d = f"disk {x} bad:{gen.g(label)}"
            else:
                label = None
                d = f"disk {x} {what}"
            form = rng.choice([f"load {x} -", f"load {'-' if x == 'default' else x} -",
                               f"load {x} {gen.h[x + '.1']}", f"load {x} {UNKNOWN32}", f"load zed -"])
            seq.append(("load", x, label, [d, form]))
            if label:
                maybe.setdefault(x, set()).add(label)
            if x not in run and what in ("fresh", "grp1", "grp2", "bad") and "zed" not in form:
                run[x] = label
        elif k < 62:
            cur = run.get(x)
            hs = ["-", "-", gen.h[cur] if cur else UNKNOWN32, gen.h[rng.choice(LABELS)], "aabb"]
            seq.append(("stop", x, None, [f"stop {rng.choice([x, x, x, 'zed', rng.choice(IDS)])} {rng.choice(hs)}"]))
            # the tracker may be wrong about the outcome; it only steers
            if seq[-1][3][0].split()[1] == x and seq[-1][3][0].split()[2] in ("-", gen.h.get(cur or "", "")):
                run.pop(x, None)
        elif k < 80:
            # a DKG completion must not change the chain hash of a process that may already have one (assumption):
            # `maybe` over-approximates the labels the process of x can carry
            label = f"{x}.{rng.range(1, 2)}"
            if maybe.setdefault(x, set()) <= {label}:
                maybe[x].add(label)
                seq.append(("dkg", x, label, [f"dkg {x} {gen.g(label)}"]))
                if x in run:
                    run[x] = label
        else:
            seq.append(("probe", x, None, ["tabs"]))
    return seq


def boot_history(gen, rng):
    """start-up: a disk with several beacon folders, LoadBeaconsFromDisk (all / single), then stops and reloads"""
    ids = [i for i in IDS if rng.chance(2, 3)] or ["foo"]
    seq = []
    lines = []
    for x in ids:
        what = rng.choice(["fresh", "grp1", "grp2"])
        lines.append(f"disk {x} " + ("fresh" if what == "fresh" else f"grp:{gen.g(x + '.' + what[3])}"))
    mode = rng.choice(["boot all", "boot all", f"boot single {rng.choice(ids)}", "boot single -", "boot single zed"])
    seq.append(("boot", None, None, lines + [mode]))
    for _ in range(rng.range(0, 3)):
        x = rng.choice(IDS)
        if rng.chance(1, 2):
            seq.append(("stop", x, None, [f"stop {x} -"]))
        else:
            seq.append(("load", x, None, [f"load {x} -"]))
    return seq


def malformed_histories(gen, rng, n):
    """outside the property's assumptions or outside the protocol: compared with the model only"""
    hs = []
    f1, f2, b1, d1 = gen.g("foo.1"), gen.g("foo.2"), gen.g("bar.1"), gen.g("default.1")
    fixed = [
        [f"disk foo grp:{f1}", "load foo -", f"dkg foo {f2}"],                      # reshare that changes the chain hash
        [f"disk foo grp:{f1}", "load foo -", f"dkg foo {f2}", "stop foo -"],
        [f"disk foo grp:{b1}", "load foo -", f"disk bar grp:{b1}", "load bar -"],      # same chain under two ids
        [f"disk foo grp:{b1}", "load foo -", f"disk bar grp:{b1}", "load bar -", "stop foo -"],
        [f"disk foo grp:{d1}", "load foo -", f"disk default grp:{d1}", "load - -", "stop default -"],
        [f"disk foo fresh", "load foo -", f"dkg foo {b1}"],                             # DKG output carrying another id
        [f"disk foo fresh", "load foo -", f"disk bar fresh", "load bar -", f"dkg foo {b1}"],
        [f"disk foo grp:{f1}", "boot all", "boot all"],                                 # start-up load on a running daemon
        ["boot all"], ["boot single -"], ["load zed -", "boot all"],
        ["boot single DEFAULT", "boot single default"], ["boot single zed", "load - -", "tabs"],   # NewFileStores creates the default folder
        ["stop - -", "stop nil -", "load nil -", "req", "http", "frobnicate 1 2", "disk foo what", "dkg foo nolabel"],
    ]
    hs += fixed
    toks = ["-", "nil", "default", "foo", "bar", "zed", "DEFAULT", "foo.1"]
    for _ in range(n):
        ls = []
        for _ in range(rng.range(2, 9)):
            k = rng.below(6)
            x = rng.choice(IDS)
            lab = rng.choice(LABELS)
            if k == 0:
                ls.append(f"disk {x} {rng.choice(['grp:', 'bad:'])}{gen.g(lab)}")
            elif k == 1:
                ls.append(f"load {rng.choice(toks)} {rng.choice(['-', gen.h[lab], 'aabb'])}")
            elif k == 2:
                ls.append(f"stop {rng.choice(toks[2:])} {rng.choice(['-', gen.h[lab], 'aabb'])}")
            elif k == 3:
                ls.append(f"dkg {x} {gen.g(lab)}")
            elif k == 4:
                ls.append(f"disk {x} {rng.choice(['none', 'nokey', 'fresh'])}")
            else:
                ls.append(rng.choice(["boot single " + rng.choice(toks[2:]), "tabs"]))
        hs.append(ls)
    return hs


# ---------------------------------------------------------------- running

def group_hashes(period=PERIOD, genesis=GENESIS):
    rc, out, err = core.run_lines(os.path.join(core.BUILD, "verifh"), ["route-groups", str(period), str(genesis)] + LABELS, [])
    if rc != 0 or len(out) != len(LABELS):
        raise core.Broken("harness:route-groups", err[-1000:])
    h = dict(l.split() for l in out)
    if len(set(h.values())) != len(LABELS):
        raise core.Broken("harness:route-groups", "two labels share a chain hash")
    return h


def run_impl(lines, args):
    rc, o, e = core.run_lines(os.path.join(core.BUILD, "verifh"), ["route"] + args, lines, timeout=3000,
                              env=dict(os.environ, GOMEMLIMIT="6GiB"))
    if rc != 0 or len(o) != len(lines):
        raise core.Broken("harness:route", f"exit {rc}, {len(o)} answers for {len(lines)} ops: {e[-1500:]}")
    return o


def run_model(lines):
    rc, o, e = core.run_lines(os.path.join(core.LEAN, ".lake", "build", "bin", "vdriver"), ["route"], lines, timeout=3000)
    if rc != 0 or len(o) != len(lines):
        raise core.Broken("model:route", f"exit {rc}, {len(o)} answers for {len(lines)} ops: {e[-1500:]}")
    return o


def eval_history(lines, marks, out, stats, live=None):
    """apply the oracle to one history's answers; returns None or (why, index of the failing line)"""
    ready = set()
    prev_suite = None
    prev_ready = set()
    last_op = None
    cur = None
    for kind, a, b in marks:
        if kind == "op":
            op, ans = lines[a], out[a]
            if ans.startswith("panic"):
                return f"{op}: {ans}", a
            f = op.split()
            if f[0] != "tabs":
                stats["ops"][f[0]] = stats["ops"].get(f[0], 0) + 1
                stats["outcomes"][f"{f[0]}:{ans[:24]}"] = stats["outcomes"].get(f"{f[0]}:{ans[:24]}", 0) + 1
            last_op = (op, ans, a)
        elif kind == "tabs":
            P = parse_tabs(out[a])[0]
            if last_op:
                op, ans, _ = last_op
                f = op.split()
                if f[0] in ("load", "dkg", "boot") and ans == "ok":
                    if f[0] == "load":
                        ready |= {i for i in P if i == canon(f[1])}
                    elif f[0] == "dkg":
                        ready |= {f[1]} & set(P)
                    else:
                        ready |= set(P)
                ready &= set(P)
        elif kind == "suite":
            su = Suite(lines[a:b], out[a:b])
            stats["suites"] += 1
            stats["probes"] += b - a
            stats["running"][len(su.P)] = stats["running"].get(len(su.P), 0) + 1
            why = check_suite(su, ready, live)
            if why:
                return why, b - 1
            if prev_suite is not None and last_op is not None:
                why = check_step(prev_suite, su, last_op[0], last_op[1], prev_ready)
                if why:
                    return why, b - 1
            prev_suite, prev_ready = su, set(ready)
    return None


def simple_marks(gen, ops_lists, ids=IDS):
    """history given as a list of control-call line groups: suite after every group"""
    pr = gen.probes(ids)
    lines, marks = [], []
    marks.append(("suite", 0, len(pr)))
    lines += pr
    for ls in ops_lists:
        for l in ls:
            marks.append(("op", len(lines), len(lines) + 1))
            lines.append(l)
            marks.append(("tabs", len(lines), len(lines) + 1))
            lines.append("tabs")
        marks.append(("suite", len(lines), len(lines) + len(pr)))
        lines += pr
    return lines, marks


def signature(why):
    """canonical signature of a violation: the rule that fired, without operands"""
    import re
    s = re.sub(r"[0-9a-f]{8,}", "H", why)
    s = re.sub(r"#\d+", "#n", s)
    return s[:160]


def shrink(gen, groups, args, live=None):
    """delta-debug the list of control-call groups of a failing history against the oracle on the real code"""
    def fails(gs):
        lines, marks = simple_marks(gen, gs)
        try:
            out = run_impl(lines + ["reset"], args)
        except core.Broken:
            return None
        st = new_stats()
        return eval_history(lines, marks, out, st, live)
    cur = list(groups)
    changed = True
    while changed and len(cur) > 1:
        changed = False
        for i in range(len(cur)):
            cand = cur[:i] + cur[i + 1:]
            if fails(cand):
                cur, changed = cand, True
                break
    r = fails(cur)
    return cur, r


def new_stats():
    return {"ops": {}, "outcomes": {}, "suites": 0, "probes": 0, "running": {}}


def explore(ctx, res):
    """quick / thorough budget as asked; when a proof, a tie or a build broke (ctx['deep']) search with the quick budget
    first and escalate to the thorough one only if that found no failing input"""
    if ctx["deep"] and ctx["tier"] == "quick":
        explore_once(ctx, res, "quick")
        if any(f for _, f in res.violations) or res.known:
            return
        res.violations[:] = []
        ctx = dict(ctx, rng=ctx["rng"].fork("deep"))
    explore_once(ctx, res, "thorough" if ctx["deep"] else ctx["tier"])


def explore_once(ctx, res, tier):
    rng = ctx["rng"]
    args = [str(PERIOD), str(GENESIS)]
    H = group_hashes()
    gen = Gen(H)
    stats = new_stats()
    t0 = time.time()

    # ---- histories -------------------------------------------------------------------------------------
    hist = []        # (tag, groups of control lines, lines, marks, oracle?)
    def add(tag, groups, oracle=True, ids=IDS, seq=None):
        if seq is not None:
            lines, marks = history_lines(gen, seq, ids)
        else:
            lines, marks = simple_marks(gen, groups, ids)
        hist.append((tag, groups, lines, marks, oracle))

    for f in sorted(glob.glob(os.path.join(core.VERIF, "corpus", ID, "*.json"))):
        c = json.load(open(f))
        groups = [[subst(l, H) for l in g] for g in c["groups"]]
        add("corpus:" + os.path.basename(f), groups, oracle=c.get("expect", "ok") == "ok")
    if ctx.get("replay"):
        c = json.load(open(ctx["replay"]))
        add("replay", c.get("groups") or [[l] for l in c["ops"]], oracle=True)

    ids2 = ["default", "foo"]
    if tier == "quick":
        plans = [(ids2, 3)]
    else:
        plans = [(IDS, 3), (ids2, 4)]
    n_exh = 0
    for ids, depth in plans:
        A = macro_ops(gen, ids)
        for d in range(1, depth + 1):
            for combo in itertools.product(A, repeat=d):
                if not within_assumptions(combo):
                    continue
                add("exh", [c[3] for c in combo], ids=ids, seq=list(combo))
                n_exh += 1
    # three chains running (two with groups, one waiting for its DKG / with a group), then every sequence of 1–2 calls
    A3 = macro_ops(gen, IDS)
    byname = {(t, x): m for m in A3 for t, x in [(m[0], m[1])]}
    for base in ([("load1", "default"), ("load1", "foo"), ("loadF", "bar")], [("load2", "default"), ("loadF", "foo"), ("load1", "bar")]):
        prefix = [byname[b] for b in base]
        for d in (1, 2) if tier != "quick" or base[0][0] == "load1" else (1,):
            for combo in itertools.product(A3, repeat=d):
                seq = prefix + list(combo)
                if not within_assumptions(seq):
                    continue
                add("exh3", [c[3] for c in seq], seq=seq)
                n_exh += 1
    n_rand = 150 if tier == "quick" else 3000
    for i in range(n_rand):
        r = rng.fork(f"rand{i}")
        seq = random_history(gen, r, r.range(4, 10))
        add("rand", [s[3] for s in seq])
    for i in range(40 if tier == "quick" else 300):
        seq = boot_history(gen, rng.fork(f"boot{i}"))
        add("boot", [s[3] for s in seq])
    for ls in malformed_histories(gen, rng.fork("mal"), 60 if tier == "quick" else 1500):
        add("malformed", [[l] for l in ls], oracle=False)

    # ---- run, sharded ------------------------------------------------------------------------------------
    nshard = 12 if tier == "quick" else 96      # results are judged shard by shard and dropped
    shards = [[] for _ in range(nshard)]
    for k, h in enumerate(hist):
        shards[k % nshard].append(h)

    def run_shard(sh):
        lines = []
        for h in sh:
            lines += h[2] + ["reset"]
        impl = run_impl(lines, args)
        model = run_model(lines) if ctx["model_ok"] else None
        return impl, model

    total = 0
    validated = 0
    nontriv = set()
    samples = []
    diverged = None
    ex = ThreadPoolExecutor(max_workers=12)
    for sh, (impl, model) in zip(shards, ex.map(run_shard, shards)):
        i = 0
        for tag, groups, lines, marks, oracle in sh:
            out = impl[i:i + len(lines)]
            total += len(lines)
            if oracle:
                r = eval_history(lines, marks, out, stats)
                if r:
                    why, at = r
                    small, r2 = shrink(gen, groups, args)
                    why2 = r2[0] if r2 else why
                    rep = {"engine": "route", "kind": "impl-violates", "harness_args": ["route"] + args,
                           "groups": small, "ops": [l for g in small for l in g], "oracle": why2, "observed": out[max(0, at - 2):at + 1]}
                    res.report(signature(why2), rep)
                    finish(res, total, nontriv, stats, samples, validated, t0, len(hist), n_exh)
                    ex.shutdown(wait=False, cancel_futures=True)
                    return
            else:
                for l, o in zip(lines, out):
                    f = l.split()
                    if f and f[0] in ("load", "stop", "dkg", "boot", "disk"):
                        stats["ops"][f[0]] = stats["ops"].get(f[0], 0) + 1
                        stats["outcomes"][f"{f[0]}:{o[:24]}"] = stats["outcomes"].get(f"{f[0]}:{o[:24]}", 0) + 1
            if any(o == "ok" and l.split()[0] in ("load", "stop", "dkg", "boot") for l, o in zip(lines, out)):
                nontriv.add(tuple(l for g in groups for l in g))
            if model is not None and diverged is None:
                mo = model[i:i + len(lines)]
                io = [split_obs(x)[0] for x in out]
                if io != mo:
                    j = core.first_diff(io, mo)
                    diverged = {"engine": "route", "kind": "model-impl-diverge", "harness_args": ["route"] + args,
                                "ops": [l for l in lines[:j + 1] if l.split()[0] not in ("req", "http", "tabs")] + [lines[j]],
                                "observed": io[j:j + 1], "expected": mo[j:j + 1],
                                "note": f"correspondence 'route' no longer checks ({tag} history); the routing oracle accepts the implementation's answers on the histories within the property's assumptions"}
                else:
                    validated += 1
            if len(samples) < 5 and tag in ("exh", "exh3", "rand", "boot", "malformed") and not any(s["kind"] == tag for s in samples):
                k = next((n for n, l in enumerate(lines) if l.startswith("req foo ") and not out[n].startswith("id=err")), 0)
                samples.append({"kind": tag, "control_calls": [l for g in groups for l in g][:8],
                                "probe": lines[k], "impl": out[k][:300]})
            i += len(lines) + 1

    ex.shutdown()
    # the assumption witness of c19_table_inv_counterexample, replayed on the real code
    w = [[f"disk foo grp:{gen.g('foo.1')}", "load foo -"], [f"dkg foo {gen.g('foo.2')}"]]
    lines, marks = simple_marks(gen, w)
    out = run_impl(lines + ["reset"], args)
    r = eval_history(lines, marks, out, new_stats())
    res.cov["assumption_witness"] = {"ops": [l for g in w for l in g],
                                     "real_code": (r[0] if r else "the stale entry is no longer reproduced"),
                                     "meaning": "a DKG completion that changes the chain hash of a running process leaves the old hash routed to it (the model's c19_table_inv_counterexample); outside the property's assumptions, reported for information"}
    if diverged:
        res.add_violation(diverged, found=False)
    finish(res, total, nontriv, stats, samples, validated, t0, len(hist), n_exh)
    if tier == "thorough" and not res.violations:
        live_check(ctx, res)


def subst(line, H):
    for k, v in H.items():
        line = line.replace("{g:" + k + "}", f"{k}={v}").replace("{h:" + k + "}", v)
    return line


def finish(res, total, nontriv, stats, samples, validated, t0, nhist, n_exh):
    res.cov["evaluations"] = stats["probes"] + sum(stats["ops"].values())
    res.cov["op_lines"] = total
    res.cov["distinct_nontrivial"] = len(nontriv)
    res.cov["traces_validated_against_impl"] = validated
    res.cov["histories"] = nhist
    res.cov["histories_exhaustive"] = n_exh
    res.cov["rule"] = ("histories of control calls on one real daemon: every sequence of up to 3 (quick: 2 chains; thorough: 3 chains, and 4 calls on 2 chains) "
                       "of {load fresh, load group v1, load group v2, stop, DKG completion v1/v2} that respects the assumptions, random histories of 4–10 calls on 3 chains with every request form "
                       "(id / '' / hash / wrong hash / unknown id, bad and missing key folders), start-up loads (LoadBeaconsFromDisk all/single), and a malformed stream compared with the model only. "
                       "Before and after the last call of a history (exhaustive) or after every call (others) the full cross product "
                       "id ∈ {absent, nil metadata, default, foo, bar, unknown} × hash ∈ {absent, hash of each chain variant (running or not), 2-byte, bytes of 'default', unknown 32-byte, known+1 byte, known−1 byte} "
                       "is sent through readBeaconID, getBeaconProcessFromRequest, ChainInfo, GetIdentity, GroupFile, PublicKey, Status, PublicRand, and the HTTP handler is probed with "
                       "no hash, each hash, upper-case, undecodable, unknown paths and /chains. evaluations = probe answers + control calls judged by the oracle; non-trivial = distinct control-call sequence with at least one successful load/stop/DKG")
    res.cov["samples"] = samples
    res.cov["distribution"] = {"control_calls": stats["ops"], "outcomes": stats["outcomes"], "probe_suites": stats["suites"],
                               "running_chains_at_probe_time": {str(k): v for k, v in sorted(stats["running"].items())}}
    res.cov["explore_wall_s"] = round(time.time() - t0, 1)


# ---------------------------------------------------------------- thorough: chains that really produce randomness

def live_check(ctx, res):
    """two or three 1-of-1 chains on the same real daemon, period 1 s, genesis a few seconds ahead: after rounds have
    been produced, every answer that carries randomness must verify under the distributed key of the chain it names."""
    genesis = int(time.time()) + 4
    H = group_hashes(1, genesis)
    gen = Gen(H)
    live = {H[l]: l for l in LABELS}
    groups = [[f"disk default grp:{gen.g('default.1')}", f"disk foo grp:{gen.g('foo.1')}", f"disk bar grp:{gen.g('bar.2')}", "boot all"],
              ["sleep 7s"], ["stop foo -"], ["sleep 2s"], [f"disk foo grp:{gen.g('foo.2')}", "load foo -"], ["sleep 4s"],
              ["stop default -"], ["sleep 2s"]]
    lines, marks = simple_marks(gen, groups)
    out = run_impl(lines, ["1", str(genesis)])
    st = new_stats()
    r = eval_history(lines, marks, out, st, live)
    served = sum(1 for o in out if "rand=r" in o and "rand=r0:" not in o) + sum(1 for o in out if "latest=200:r" in o and "latest=200:r0:" not in o)
    res.cov["live"] = {"answers_with_verified_randomness": served, "probe_suites": st["suites"], "probes": st["probes"]}
    if r:
        res.report(signature(r[0]), {"engine": "route", "kind": "impl-violates", "harness_args": ["route", "1", "<genesis>"],
                                     "groups": groups, "ops": [l for g in groups for l in g], "oracle": r[0]})
    elif served == 0:
        res.add_violation({"engine": "route", "kind": "model-impl-diverge", "note": "the live chains produced no randomness; the live oracle checked nothing"}, found=False)
