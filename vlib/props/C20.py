"""C20 — persisted and transmitted state round-trips without loss."""
import glob, json, os, subprocess
from concurrent.futures import ThreadPoolExecutor
from .. import core

ID = "C20"
MODULE = "DrandProofs.C20"
THEOREMS = ["Drand.Codec." + t for t in [
    "c20_identity", "c20_group_toml", "c20_group_proto", "c20_group_equal_impure_counterexample",
    "c20_reject_threshold_toml", "c20_reject_threshold_proto", "c20_reject_threshold_proto_partial",
    "c20_reject_threshold_proto_counterexample", "c20_reject_scheme_toml", "c20_reject_scheme_proto",
    "c20_share", "c20_pair", "c20_info_json", "c20_info_proto", "c20_info_proto_empty_scheme",
    "c20_beacon_json", "c20_beacon_proto", "c20_dbstate", "c20_dbstate_equals_share_counterexample",
    "c20_fields_covered", "c20_exemptions_needed", "c20_info_json_tags", "tie_mirror_fields", "tie_beacon_json",
    "tie_guards", "tie_minimumT", "tie_schemes", "c20_hex_roundtrip", "c20_leaf_demo_ok"]]
TRUSTED = ["Lean 4 kernel; axioms per theorem under coverage.axioms",
           "go2lean mirror extractor (tools/go2lean/mirrors.go): struct field lists, fields read/written by 12 conversion pairs, json tags, "
           "scheme-name switch, GetSchemeByID shape, MinimumT, if-guard chains of the decoders — regenerated every run, tied by decide/rfl theorems",
           "leaves are abstract in the model (hex, Duration text, kyber point/scalar decoding = canonical MarshalBinary bytes, net.SplitHostPort, "
           "Group.Hash/Info.Hash as functions of the C17 parameters); their round-trip facts are the explicit hypothesis LeafOK "
           "(proved for real lower-case hex: c20_hex_roundtrip)",
           "modelled, not verified: BurntSushi/toml, encoding/json, nikkolasg/hexjson, protobuf wire format, bbolt, the filesystem — "
           "a mirror value is what the library returns after writing and re-reading it (exercised by every sample of the codec engine)",
           "kyber's dkg.MinimumT (used by Group.FromTOML) is the pinned dependency's (n>>1)+1, same as key.MinimumT (regenerated)",
           "harness engine 'codec' and its error-class substring table (harness/cmd/verifh/codec.go)"]
ASSUMPTIONS = ["well-formedness of the encoded value as its producers establish it (Group.WFTOML / WFProto, Share.WF, Pair.WF, Info.WF, "
               "DBState.WF in lean/Drand/Codec/Mirror.lean): known scheme, keys that decode under it, threshold in range, a stored seed is "
               "non-empty; on the protobuf path additionally whole-second periods < 2^32 s, non-zero genesis time, dialable addresses, "
               "dist key of exactly `threshold` coefficients",
               "the type's own equality helpers are impure/fragile in two corners that the model reproduces exactly and the run confirms: "
               "Group.Equal sorts the receiver's nodes when it has no stored seed; DBState.Equals (test helper) uses reflect.DeepEqual on the share"]

SIG_KNOWN = "group-proto:threshold-above-n:empty-node-list"


def parse_dump(s):
    d = {}
    for tok in s.split():
        k, _, v = tok.partition("=")
        d[k] = v
    return d


def norm(d):
    """nil and empty are the same for byte strings / absent optional scalars when comparing before and after"""
    return {k: ("-" if v == "nil" else v) for k, v in d.items()}


def hexs(s):
    return s.encode().hex() if s else "-"


def unhexs(h):
    return "" if h in ("-", "nil") else bytes.fromhex(h).decode("utf-8", "replace")


def sub(d, prefix):
    p = prefix + "."
    return {k[len(p):]: v for k, v in d.items() if k.startswith(p)}


def nodes_sorted(g):
    n = int(g.get("Nodes.len", "0"))
    idx = [int(g[f"Nodes.{i}.Index"]) for i in range(n)]
    return idx == sorted(idx)


def expect_group(b, path, ghash):
    """the property's reference: what a decoded group must be, given the group before encoding"""
    e = dict(b)
    e["ID"] = hexs("default") if unhexs(b["ID"]) in ("", "default") else b["ID"]
    if b["GenesisSeed"] == "nil":
        e["GenesisSeed"] = ghash
    if path == "proto":
        for k in ("Period", "CatchupPeriod"):
            e[k] = str(int(b[k]) // 10**9 * 10**9)
        for i in range(int(b["Nodes.len"])):
            e[f"Nodes.{i}.Identity.Scheme"] = b["Scheme"]
    return e


def expected_after(codec, b, ex):
    e = dict(b)
    if codec in ("group-toml", "group-file"):
        e = expect_group(b, "toml", ex.get("hb"))
    elif codec in ("group-proto", "group-proto-target"):
        e = expect_group(b, "proto", ex.get("hb"))
    elif codec in ("info-json", "info-proto", "info-hexjson"):
        e["Period"] = str(int(b["Period"]) // 10**9 * 10**9)
    elif codec.startswith("dbstate"):
        e["GenesisTime.off"] = "0"
        if b.get("FinalGroup") != "nil":
            g = expect_group(sub(b, "FinalGroup"), "toml", ex.get("hb"))
            for k, v in g.items():
                e["FinalGroup." + k] = v
    return e


def expected_flag(codec, b):
    """what the type's own equality must answer (see ASSUMPTIONS for the two impure corners)"""
    if codec.startswith("group"):
        return b["GenesisSeed"] != "nil" or nodes_sorted(b)
    if codec.startswith("dbstate"):
        if b.get("KeyShare") != "nil":
            return False
        if b.get("FinalGroup") == "nil":
            return True
        g = sub(b, "FinalGroup")
        return g["GenesisSeed"] != "nil" or nodes_sorted(g)
    return True


def oracle_rt(codec, before, outcome, extras):
    """C20 evaluated directly on the implementation's answer for one round trip; returns a reason or None"""
    if not outcome.startswith("ok "):
        return f"encode→decode of a well-formed value failed: {outcome[:200]}"
    b, a = parse_dump(before), parse_dump(outcome[3:])
    ex = parse_dump(extras)
    e = expected_after(codec, b, ex)
    na, ne = norm(a), norm(e)
    diff = sorted(k for k in set(na) | set(ne) if na.get(k) != ne.get(k))
    if diff:
        k = diff[0]
        return (f"field {k} does not round-trip: before {b.get(k)!r}, expected after {e.get(k)!r}, decoded {a.get(k)!r}"
                + (f" (+{len(diff) - 1} more: {','.join(diff[1:6])})" if len(diff) > 1 else ""))
    if "hb" in ex and ex.get("hb") != ex.get("ha"):
        return f"hash changed across the round trip: {ex.get('hb')} -> {ex.get('ha')}"
    flag = ex.get("equal", ex.get("equals"))
    if flag is not None and (flag == "true") != expected_flag(codec, b):
        return f"the type's own equality answered {flag}, expected {expected_flag(codec, b)}"
    if ex.get("recvindep", "true") != "true":
        return (f"decoding a group file depends on what the receiving value held before ({ex.get('recvindep')}): what is reloaded is not what was written, "
                "and an unknown scheme is not rejected")
    if ex.get("sameenc", "true") != "true":
        return (f"the JSON encoding of the same value depends on how it is handed to the encoder: the {ex.get('sameenc')} encoding differs from the "
                "pointer encoding (what is then decoded is not what was written)")
    if ex.get("current_same") == "false":
        return "SaveFinished wrote different records to the finished and the current bucket"
    return None


# ---------------------------------------------------------------- malformed stream (decode-only ops on mirrors)

def mirror_n(m):
    return int(m["Nodes.len"])


def drop_nodes(m):
    out = {k: v for k, v in m.items() if not k.startswith("Nodes.")}
    out["Nodes.len"] = "0"
    return out


def mutations(path, m, rng, schemes, deep):
    """yield (label, mutated mirror dict, extra label tokens)"""
    n = mirror_n(m)
    big = ["2147483647"] if path == "toml" else ["2147483648", "4294967295"]
    thrs = sorted({0, n // 2, n // 2 + 1, n, n + 1, n + 7}) + [int(x) for x in big]
    if path == "toml":
        thrs.append(-1)
    for t in thrs:
        yield f"thr={t}", dict(m, Threshold=str(t)), []
    for s in ["", "bls-unknown-scheme", "Pedersen-BLS-Chained", schemes[0] + " "]:
        yield f"scheme={s!r}", dict(m, SchemeID=hexs(s)), []
    for t in (0, 1, 2, 5):
        yield f"no-nodes thr={t}", dict(drop_nodes(m), Threshold=str(t)), []
    if path == "toml":
        j = rng.below(n)
        key = unhexs(m[f"Nodes.{j}.PublicTOML.Key"])
        yield "node-key-truncated", dict(m, **{f"Nodes.{j}.PublicTOML.Key": hexs(key[:-2])}), ["@inv=" + key[:-2]]
        yield "node-key-odd-hex", dict(m, **{f"Nodes.{j}.PublicTOML.Key": hexs(key[:-1])}), []
        yield "node-key-non-hex", dict(m, **{f"Nodes.{j}.PublicTOML.Key": hexs("zz" + key[2:])}), []
        yield "node-scheme-unknown", dict(m, **{f"Nodes.{j}.PublicTOML.SchemeName": hexs("nope")}), []
        yield "node-sig-bad-hex", dict(m, **{f"Nodes.{j}.PublicTOML.Signature": hexs("0g")}), []
        if m.get("PublicKey") != "nil":
            c = unhexs(m["PublicKey.Coefficients.0"])
            yield "coeff-truncated", dict(m, **{"PublicKey.Coefficients.0": hexs(c[:-2])}), ["@inv=" + c[:-2]]
        yield "period-garbage", dict(m, Period=hexs("xyz")), []
        yield "catchup-empty", dict(m, CatchupPeriod="-"), []
        yield "seed-bad-hex", dict(m, GenesisSeed=hexs("abc")), []
        yield "seed-empty", dict(m, GenesisSeed="-"), []
    else:
        j = rng.below(n)
        key = m[f"Nodes.{j}.Public.Key"]
        yield "node-key-truncated", dict(m, **{f"Nodes.{j}.Public.Key": key[:-2]}), ["@inv=" + key[:-2]]
        yield "node-addr-no-port", dict(m, **{f"Nodes.{j}.Public.Address": hexs("localhost")}), ["@badaddr=" + hexs("localhost")]
        yield "genesis-zero", dict(m, GenesisTime="0"), []
        yield "period-zero", dict(m, Period="0"), []
        k = int(m["DistKey.len"])
        if k > 0:
            c = m["DistKey.0"]
            yield "coeff-truncated", dict(m, **{"DistKey.0": c[:-2]}), ["@inv=" + c[:-2]]
            fewer = {kk: v for kk, v in m.items() if kk != f"DistKey.{k - 1}"}
            fewer["DistKey.len"] = str(k - 1)
            yield "coeff-count", fewer, []
        other = [s for s in schemes if s != unhexs(m["SchemeID"])][0]
        yield "target-mismatch", dict(m, target=hexs(other)), []
        yield "target-match", dict(m, target=m["SchemeID"]), []
        yield "no-metadata", dict({kk: v for kk, v in m.items() if not kk.startswith("Metadata")}, Metadata="nil"), []
        yield "seed-absent", dict(m, GenesisSeed="nil"), []


def classify_reject(path, m, schemes):
    """does the property demand that this mirror is rejected? returns a signature kind or None"""
    n, thr = mirror_n(m), int(m["Threshold"])
    sch = unhexs(m["SchemeID"])
    known = sch in schemes or (path == "toml" and sch == "")
    if not known:
        return "unknown-scheme"
    if thr < n // 2 + 1:
        return "threshold-below-min"
    if thr > n:
        return "threshold-above-n:empty-node-list" if n == 0 else "threshold-above-n"
    return None


def is_hex(s):
    try:
        bytes.fromhex(s)
        return len(s) % 2 == 0
    except ValueError:
        return False


def point_queries(path, m, schemes):
    """the (scheme, point bytes) pairs the decoder will consult for this mirror — only used to label the model's oracle"""
    q = []
    default = schemes[0]
    if path == "toml":
        g = unhexs(m["SchemeID"]) or default
        for j in range(mirror_n(m)):
            sn = unhexs(m[f"Nodes.{j}.PublicTOML.SchemeName"]) or default
            k = unhexs(m[f"Nodes.{j}.PublicTOML.Key"])
            if sn in schemes and is_hex(k) and k:
                q.append((sn, k.lower()))
        if g in schemes and m.get("PublicKey") != "nil":
            for j in range(int(m["PublicKey.Coefficients.len"])):
                k = unhexs(m[f"PublicKey.Coefficients.{j}"])
                if is_hex(k) and k:
                    q.append((g, k.lower()))
    else:
        g = unhexs(m["SchemeID"])
        if g in schemes:
            for j in range(mirror_n(m)):
                k = m[f"Nodes.{j}.Public.Key"]
                if k not in ("-", "nil"):
                    q.append((g, k))
            for j in range(int(m["DistKey.len"])):
                k = m[f"DistKey.{j}"]
                if k not in ("-", "nil"):
                    q.append((g, k))
    return q


def dec_line(path, m, labels=(), strict=False):
    codec = "group-toml" if path == "toml" else ("group-proto!" if strict else "group-proto")
    return " ".join(["dec", codec] + [f"{k}={v}" for k, v in m.items()] + list(labels))


def run_harness_gen(seed, count):
    h = os.path.join(core.BUILD, "verifh")
    rc, lines, err = core.run_lines(h, ["codec", str(seed), str(count)], [], timeout=3000, env=dict(os.environ, GOMEMLIMIT="4GiB"))
    if rc != 0:
        raise core.Broken("harness:codec", f"exit {rc}: {err[-1500:]}")
    return lines


def run_model(lines):
    d = os.path.join(core.LEAN, ".lake", "build", "bin", "vdriver")
    rc, out, err = core.run_lines(d, ["codec"], lines, timeout=3000)
    if rc != 0 or len(out) != len(lines):
        raise core.Broken("model:codec", f"exit {rc}, {len(out)}/{len(lines)} lines: {err[-800:]}")
    return out


def compare_model(impl_outcome, impl_extras, model_line):
    """None when the model predicts exactly the implementation's answer"""
    if not impl_outcome.startswith("ok "):
        return None if model_line.split(":")[:2] == impl_outcome.split(":")[:2] else f"impl {impl_outcome[:120]!r} vs model {model_line[:120]!r}"
    if not model_line.startswith("ok "):
        return f"impl accepted, model says {model_line[:120]!r}"
    a, m = norm(parse_dump(impl_outcome[3:])), norm(parse_dump(model_line[3:]))
    ex = parse_dump(impl_extras)
    for f in ("equal", "equals"):
        if f in m:
            if ex.get(f) != m.pop(f):
                return f"equality helper: impl {ex.get(f)} vs model"
    diff = sorted(k for k in set(a) | set(m) if a.get(k) != m.get(k))
    if diff:
        return f"field {diff[0]}: impl {a.get(diff[0])!r} vs model {m.get(diff[0])!r} (+{len(diff) - 1})"
    return None


def replay(ctx, res):
    """./check C20 --replay f : re-run the recorded input on a fresh harness and re-evaluate the oracle"""
    r = json.load(open(ctx["replay"]))
    h = os.path.join(core.BUILD, "verifh")
    op = r["ops"][0]
    if op.startswith("dec "):
        rc, out, err = core.run_lines(h, ["codec", "ops"], [op])
        toks = op.split()
        path = "toml" if toks[1] == "group-toml" else "proto"
        m = parse_dump(" ".join(t for t in toks[2:] if not t.startswith("@")))
        rc2, so, _ = core.run_lines(h, ["codec", "0", "0"], [])
        schemes = so[0].split("\t")[1].split(",")
        must = classify_reject(path, m, schemes)
        print(f"replay: {out[0][:300]}  (property demands rejection: {must})")
        if must and out[0].startswith("ok"):
            res.report(f"group-{path}:{must}", dict(r, observed=[out[0][:500]]))
    else:
        args = r["harness_args"]
        for l in run_harness_gen(int(args[1]), int(args[2])):
            f = l.split("\t")
            if f[0] == "RT" and f[1] == r["case"] and f[2] == r["codec"]:
                why = oracle_rt(f[2], f[3], f[4], f[5]) if not f[4].startswith("panic") else f[4]
                print(f"replay: case {f[1]} codec {f[2]}: {'VIOLATES: ' + why if why else 'passes the oracle'}")
                if why:
                    res.add_violation(dict(r, observed=[f[4][:4000]], oracle=why))
    res.cov["evaluations"] = 1
    res.cov["rule"] = "replay of one recorded input"


def explore(ctx, res):
    rng = ctx["rng"]
    tier = "thorough" if ctx["deep"] else ctx["tier"]
    deep = tier == "thorough"
    count, shards = (8, 1) if tier == "quick" else (40, 12)
    if ctx["deep"] and ctx["tier"] == "quick":
        count, shards = 16, 6   # something upstream broke: search harder than quick, still bounded
    h = os.path.join(core.BUILD, "verifh")
    dist = {"by_codec": {}, "by_scheme": {}, "by_nodes": {}, "by_status": {}, "optional_absent": {}, "equality_helper": {},
            "dec_by_outcome": {}, "dec_by_mutation": {}}
    samples, nontrivial = [], set()
    evaluations = validated = 0
    viol = []  # (signature, replay)

    def bump(table, key):
        dist[table][key] = dist[table].get(key, 0) + 1

    if ctx.get("replay"):
        return replay(ctx, res)

    # ---------------- P3 corpus: decode-only witnesses first
    corpus_ops = []
    for f in sorted(glob.glob(os.path.join(core.VERIF, "corpus", ID, "*.json"))):
        c = json.load(open(f))
        corpus_ops.append((os.path.basename(f), c))

    # ---------------- P4/P5 round trips
    seeds = [ctx["seed"] * 1000 + s for s in range(shards)]
    with ThreadPoolExecutor(max_workers=min(shards, 12)) as ex:
        outs = list(ex.map(lambda s: run_harness_gen(s, count), seeds))
    schemes = None
    mirrors = []     # (case, path, mirror dict, group-before dict)
    for seed, lines in zip(seeds, outs):
        rts, group_before = [], {}
        for l in lines:
            f = l.split("\t")
            if f[0] == "SCHEMES":
                schemes = f[1].split(",")
            elif f[0] == "RT":
                rts.append(f)
                if f[2] == "group-toml":
                    group_before[f[1]] = f[3]
            elif f[0] == "MIR":
                mirrors.append((f[1], "toml" if f[2] == "group-toml" else "proto", parse_dump(f[3]), seed))
        model_in = [f"rt {f[2]} {f[3]} " + " ".join(t for t in f[5].split() if t.startswith("@")) for f in rts]
        model_out = run_model(model_in) if ctx["model_ok"] else [None] * len(rts)
        for f, mo in zip(rts, model_out):
            _, cs, codec, before, outcome, extras = f
            evaluations += 1
            bump("by_codec", codec)
            bump("by_scheme", cs.split("/")[0])
            b = parse_dump(before) if before != "-" else {}
            if codec == "group-toml":
                bump("by_nodes", b.get("Nodes.len", "?"))
                for k, absent in (("TransitionTime", b.get("TransitionTime") == "0"), ("GenesisSeed", b.get("GenesisSeed") == "nil"),
                                  ("PublicKey", b.get("PublicKey") == "nil"), ("ID-default", unhexs(b.get("ID", "-")) in ("", "default")),
                                  ("CatchupPeriod", b.get("CatchupPeriod") == "0")):
                    if absent:
                        bump("optional_absent", "group." + k)
            if codec == "dbstate-toml":
                bump("by_status", b.get("State", "?"))
                for k in ("FinalGroup", "KeyShare", "Leader"):
                    if b.get(k) == "nil":
                        bump("optional_absent", "dbstate." + k)
            ex = parse_dump(extras)
            flag = ex.get("equal", ex.get("equals"))
            if flag is not None:
                bump("equality_helper", f"{codec.split('-')[0]}:{flag}")
            if outcome.startswith("panic"):
                why = f"panic in the round trip: {outcome[:300]}"
            else:
                why = oracle_rt(codec, before, outcome, extras)
            if why:
                viol.append((f"{codec}:round-trip", {"engine": "codec", "kind": "impl-violates", "case": cs, "codec": codec,
                             "ops": [f"rt {codec} {before}"], "observed": [outcome[:4000]], "oracle": why,
                             "harness_args": ["codec", str(seed), str(count)]}))
                continue
            nontrivial.add((codec, before))
            if len(samples) < 6 and codec in ("group-toml", "dbstate-bolt-current", "info-json", "group-proto", "pair-file", "beacon-json") \
                    and codec not in [s["codec"] for s in samples]:
                samples.append({"case": cs, "codec": codec, "before": before[:300], "outcome": outcome[:300], "extras": extras[:200]})
            if mo is not None:
                d = compare_model(outcome, extras, mo)
                if d:
                    res.add_violation({"engine": "codec", "kind": "model-impl-diverge", "case": cs, "codec": codec,
                                       "ops": [f"rt {codec} {before}"], "observed": [outcome[:2000]], "expected": [mo[:2000]],
                                       "note": f"correspondence 'codec' no longer checks ({d}); the round-trip oracle accepts the implementation's answer",
                                       "harness_args": ["codec", str(seed), str(count)]}, found=False)
                    ctx["model_ok"] = False
                else:
                    validated += 1

    # ---------------- malformed stream
    ops = []   # (label, path, mirror, labels)
    for name, c in corpus_ops:
        for op in c["ops"]:
            toks = op.split()
            path = "toml" if toks[1] == "group-toml" else "proto"
            m = parse_dump(" ".join(t for t in toks[2:] if not t.startswith("@")))
            ops.append(("corpus:" + name, path, m, [t for t in toks[2:] if t.startswith("@")]))
    per = min(len(mirrors), 400 if deep else 20)
    gb = {}
    for seed, lines in zip(seeds, outs):
        for l in lines:
            f = l.split("\t")
            if f[0] == "RT" and f[2] == "group-toml":
                gb[(seed, f[1])] = parse_dump(f[3])
    for cs, path, m, seed in rng.fork("mirrors").shuffle(mirrors)[:per]:
        labels = []
        if path == "toml":
            g = gb[(seed, cs)]
            labels = [f"@dur:{m['Period']}={g['Period']}", f"@dur:{m['CatchupPeriod']}={g['CatchupPeriod']}"]
        ops.append(("valid", path, m, labels))
        for label, mm, extra in mutations(path, m, rng.fork(cs + path), schemes, deep):
            ops.append((label, path, mm, labels + extra))
    # label the model's point oracle: ask kyber (through the harness, not through the decoders) which bytes are points of which scheme
    queries = sorted({q for _, p, m, _ in ops for q in point_queries(p, m, schemes)})
    by_scheme = {}
    for sn, k in queries:
        by_scheme.setdefault(sn, []).append(k)
    qlines = [f"pointok {hexs(sn)} " + " ".join(ks) for sn, ks in sorted(by_scheme.items())]
    rc, qout, err = core.run_lines(h, ["codec", "ops"], qlines, timeout=3000)
    if rc != 0 or len(qout) != len(qlines):
        raise core.Broken("harness:codec-ops", f"pointok: exit {rc}: {err[-1000:]}")
    invalid = set()
    for (sn, ks), o in zip(sorted(by_scheme.items()), qout):
        for k, ok in zip(ks, o.split()):
            if ok != "true":
                invalid.add((sn, k))
    labelled = []
    for label, p, m, lab in ops:
        inv = {}
        for sn, k in point_queries(p, m, schemes):
            if (sn, k) in invalid:
                inv.setdefault(sn, set()).add(k)
        labelled.append((label, p, m, [t for t in lab if not t.startswith("@inv")] + [f"@inv:{hexs(sn)}=" + ",".join(sorted(ks)) for sn, ks in sorted(inv.items())]))
    ops = labelled
    lines = [dec_line(p, m, lab) for _, p, m, lab in ops]
    rc, impl, err = core.run_lines(h, ["codec", "ops"], lines, timeout=3000)
    if rc != 0 or len(impl) != len(lines):
        raise core.Broken("harness:codec-ops", f"exit {rc}, {len(impl)}/{len(lines)}: {err[-1000:]}")
    if ctx["model_ok"]:
        model = run_model(lines)
        strict = run_model([dec_line(p, m, lab, strict=True) for _, p, m, lab in ops])
    else:
        model = strict = [None] * len(lines)
    as_is = corrected = 0
    for (label, path, m, lab), line, out, mo, ms in zip(ops, lines, impl, model, strict):
        evaluations += 1
        bump("dec_by_mutation", f"{path}:{label.split('=')[0].split()[0]}")
        bump("dec_by_outcome", f"{path}:{out.split()[0] if out.startswith('ok') else ':'.join(out.split(':')[:2])}")
        if out.startswith("panic") or out == "bad-op" or out.startswith("err:other"):
            viol.append((f"group-{path}:decoder-crash", {"engine": "codec", "kind": "impl-violates", "ops": [line], "observed": [out[:500]],
                         "oracle": f"decoding a malformed group ({label}) must answer with a classified error, got {out[:120]!r}"}))
            continue
        must = classify_reject(path, m, schemes)
        if must and out.startswith("ok"):
            viol.append((f"group-{path}:{must}", {"engine": "codec", "kind": "impl-violates", "ops": [line], "observed": [out[:500]],
                         "oracle": f"a group encoding with {must} (n={mirror_n(m)}, threshold={m['Threshold']}, scheme={unhexs(m['SchemeID'])!r}) "
                                   f"was accepted on the {path} path", "mutation": label}))
            if mo is not None and out.split()[:1] == mo.split()[:1]:
                as_is += 1
            continue
        if label == "valid" and not out.startswith("ok"):
            viol.append((f"group-{path}:valid-mirror-rejected", {"engine": "codec", "kind": "impl-violates", "ops": [line], "observed": [out[:300]],
                         "oracle": "the mirror the implementation itself produced for a well-formed group was rejected"}))
            continue
        nontrivial.add(("dec", line))
        if mo is None:
            continue
        d = compare_model(out, "", mo)
        if d and ms is not None and compare_model(out, "", ms) is None:
            corrected += 1   # the implementation behaves like the corrected (strict) variant on this op
            validated += 1
        elif d:
            res.add_violation({"engine": "codec", "kind": "model-impl-diverge", "ops": [line], "observed": [out[:1000]], "expected": [mo[:1000]],
                               "note": f"correspondence 'codec' (decode of a {label} mirror) no longer checks: {d}"}, found=False)
            break
        else:
            validated += 1
    dist["variant_of_GroupFromProto"] = {"as_is_on_finding_ops": as_is, "corrected_on_ops": corrected}

    # ---------------- report
    seen = set()
    for sig, rep in viol:   # one replay per signature, smallest input first
        if sig in seen:
            continue
        seen.add(sig)
        same = [r for s2, r in viol if s2 == sig]
        rep = min(same, key=lambda r: len(r["ops"][0]))
        rep["occurrences"] = len(same)
        res.report(sig, rep)
        if len(res.violations) >= 5:
            break
    res.cov["evaluations"] = evaluations
    res.cov["distinct_nontrivial"] = len(nontrivial)
    res.cov["traces_validated_against_impl"] = validated
    res.cov["rule"] = ("per scheme (5) × generated case: a group of 1–10 nodes (sizes cycled, sparse/unsorted indices), share, key pair, chain info, "
                       "two beacons with arbitrary byte strings, a DKG state in a cycled status; every third case has EVERY field non-zero "
                       "(reflection fill + assertion), the others drop optional fields at random; each value goes through the real "
                       "TOML bytes / key files / BoltStore / JSON / hexjson / protobuf-wire encode→decode (19 codecs). Oracle: decoded dump = "
                       "documented canonical form of the dump before, equal hash, the type's equality helper answers as predicted. "
                       "Malformed stream: per sampled mirror (GroupTOML / GroupPacket) threshold ∈ {0,n/2,n/2+1,n,n+1,n+7,2^31..}, unknown/empty "
                       "scheme, node list emptied, truncated/odd/non-hex keys and coefficients, bad durations/seed/address, zero genesis/period, "
                       "coefficient count, target scheme; oracle: out-of-range threshold or unknown scheme ⇒ rejected. "
                       "evaluations = round trips + decode ops; non-trivial = distinct inputs whose answer passed the oracle")
    res.cov["samples"] = samples
    res.cov["distribution"] = dist
    res.cov["error_class_table"] = "harness/cmd/verifh/codec.go: codecErrTable (substring → class)"
