"""C13 — a crash at any point leaves a restartable, self-consistent node."""
import glob, json, os, re
from concurrent.futures import ThreadPoolExecutor
from .. import core

ID = "C13"
MODULE = "DrandProofs.C13Reconcile"   # imports DrandProofs.C13 (model ties, chain store, dkg.db, as-is start-up)
THEOREMS = ["Drand.Persist." + t for t in [
    "tie_executeAndFinishDKG", "tie_onDKGCompleted", "tie_transitionToNext", "tie_joinNetwork", "tie_leaveNetwork",
    "tie_storeDKGOutput", "tie_saveGroup", "tie_saveShare", "tie_reset", "tie_keySaveVariant", "tie_keySave", "tie_createSecureFile",
    "tie_dkgSaveFinished", "tie_dkgSaveCurrent", "tie_chainPut", "tie_callbackStorePut", "tie_bpLoad",
    "tie_loadBeaconFromStore", "tie_startupVariant", "tie_reconcileKeyFiles", "tie_newHandler", "tie_boltOpen",
    "crashImages_after", "crashImages_during",
    "c13_chain_prefix", "c13_chain_gapfree", "c13_served_stored", "c13_dkgdb_whole", "c13_staged_keeps_finished",
    "c13_save_atomic", "c13_no_torn_file", "c13_no_startup_panic_atomic", "c13_no_truncated_accepted_atomic",
    "c13_no_torn_file_code", "c13_no_torn_file_counterexample_inplace",
    "c13_files_one_epoch_exact", "c13_files_one_epoch_partial", "c13_remaining_windows_atomic",
    "c13_window_counterexample_db_ahead", "c13_window_counterexample_first_dkg", "c13_window_counterexample_torn_group",
    "c13_window_counterexample_group_ahead_of_share", "c13_window_counterexample_torn_share",
    "c13_eviction_exact", "c13_eviction_partial", "c13_window_counterexample_leave",
    "c13_resumes", "c13_completion_resumes", "c13_staged_and_beacons_preserve",
    # the reconciling start-up (DrandProofs/C13Reconcile.lean)
    "reconcileOps_cases", "c13_sane_of_consistent", "c13_sane_completion", "c13_sane_eviction", "c13_sane_staged_beacons",
    "c13_reconcile_keeps_db", "c13_sane_reconcile_crash", "c13_reconcile_consistent", "c13_reconciled_keeps_db", "c13_sane_reconciled",
    "c13_reconcile_idempotent", "c13_reconcile_noop_when_consistent", "c13_reconcile_no_record", "c13_reconcile_never_downgrades",
    "c13_sane_restarts", "c13_files_one_epoch_fixed", "c13_windows_closed_by_reconcile", "c13_full_code",
    "c13_reconcile_member_repairs", "c13_files_one_epoch_fixed_partial_inplace", "c13_reconcile_inplace_counterexample"]]
TRUSTED = ["Lean 4 kernel; axioms per theorem under coverage.axioms",
           "go2lean persistence-order extractor (tools/go2lean/persist.go): call orders of executeAndFinishDKG, onDKGCompleted, "
           "transitionToNext, joinNetwork, leaveNetwork, storeDKGOutput, fileStore.SaveGroup/SaveShare/Reset, key.Save/Delete, "
           "fs.CreateSecureFile, dkg BoltStore.SaveFinished/save/SaveCurrent, boltdb Put (both), BeaconProcess.Load, "
           "LoadBeaconFromStore, callbackStore.Put, NewHandler, bolt.Open options — regenerated every run, tied by rfl theorems tie_*",
           "harness engine 'crash': real calls on a real directory; crash points reconstructed from the inotify event stream of the "
           "groups folder (the file-write protocol is observed, not assumed: create/truncate + modify on the target = written in place, "
           "torn prefixes of the target are crash images; create + modify on a sibling followed by a rename onto the target = replaced "
           "atomically, torn prefixes of the sibling are crash images and the target keeps its old content until the rename) and from "
           "bbolt's transaction counter; the image 'one commit back' is obtained by invalidating the newest "
           "bbolt meta page of a copy (bbolt's two-meta-page design)",
           "variant of the file-write primitive key.Save (inPlace | atomicRename): the regenerated fact Gen.keySaveVariant (go2lean "
           "refuses any third shape); the Lean driver follows it, the observed step trace of the real code must agree with it",
           "variant of the start-up path DrandDaemon.LoadBeaconFromStore (asIs | reconcile): the regenerated fact Gen.startupVariant (go2lean "
           "accepts exactly the two call lists, and for the reconciling one exactly one shape of reconcileKeyFiles — reads, four early "
           "returns before any write, Reset for a node outside the recorded group, else SaveGroup, SaveShare; in-sync test = equality of "
           "the distributed public polynomial — and of dkg.Process.LastCompleted); the Lean driver follows it; the real start-up's own "
           "writes into the groups folder are observed (inotify) and must agree with it; a start-up that writes is itself killed at each "
           "of its steps and restarted (second level; third level in the every-offset mode)",
           "transition times grow with the epochs (the never-downgrade guard of reconcileKeyFiles compares TransitionTime; the model "
           "compares epochs)",
           "trusted, not verified: bbolt (a transaction is atomic and durable once Update returned: files are opened with default "
           "options, fsync on commit), the file system (create/truncate, rename, unlink and chmod are atomic; an interrupted write "
           "leaves a prefix), BurntSushi/toml",
           "the DKG protocol itself is not run: the harness fabricates what a completed DKG hands over (group, share, Complete "
           "DBState via the real DBState.Complete) and performs SaveFinished / onDKGCompleted in the order go2lean extracted from "
           "executeAndFinishDKG",
           "scheme mismatch between key pair and group file is not modelled (one scheme per scenario)"]
ASSUMPTIONS = ["one beacon id per node directory; bolt back-end (memdb keeps nothing, postgres is out of scope)",
               "a node not in the group of its last completed epoch is self-consistent iff it holds no key files"]

SCHEMES = ["pedersen-bls-chained", "pedersen-bls-unchained", "bls-unchained-on-g1", "bls-unchained-g1-rfc9380", "bls-bn254-unchained-on-g1"]

CALL_OF = {"SaveFinished": "SaveFinished", "SaveCurrent": "SaveCurrent",
           "Create(group)": "SaveGroup", "Write(group)": "SaveGroup",
           "Create(share)": "SaveShare", "Chmod(share)": "SaveShare", "Write(share)": "SaveShare",
           "Create(group.tmp)": "SaveGroup", "Chmod(group.tmp)": "SaveGroup", "Write(group.tmp)": "SaveGroup", "Rename(group.tmp,group)": "SaveGroup",
           "Create(share.tmp)": "SaveShare", "Chmod(share.tmp)": "SaveShare", "Write(share.tmp)": "SaveShare", "Rename(share.tmp,share)": "SaveShare",
           "Remove(share)": "Reset", "Remove(group)": "Reset", "Remove(share.tmp)": "Reset", "Remove(group.tmp)": "Reset"}

# The seven windows that exist only while key.Save writes its target in place (a crash leaves the target truncated or
# torn). On a tree whose key.Save is the atomicRename variant (regenerated fact Gen.keySaveVariant) they cannot occur;
# if one is observed there nevertheless it is a VIOLATION, whatever known_findings.json lists (DESIGN 2.5, `fixed:`).
INPLACE_ONLY = {
    "dkg-completion:crash-during-SaveGroup:group-unreadable:refused",
    "dkg-completion:crash-during-SaveGroup:group-decoder-panic:panicked",
    "dkg-completion:crash-during-SaveGroup:truncated-group-accepted:panicked",
    "dkg-completion:crash-during-SaveGroup:group-ahead-of-share:started",
    "dkg-completion:crash-during-SaveGroup:group-ahead-of-share:refused",
    "dkg-completion:crash-during-SaveShare:share-unreadable:refused",
    "dkg-completion:crash-during-SaveShare:truncated-share-accepted:started",
}
# The six ordering windows (three separately atomic steps SaveFinished / SaveGroup / SaveShare, resp. SaveFinished / Reset, with
# nothing at start-up that reconciles the key files with dkg.db). On a tree whose start-up path reconciles (regenerated fact
# Gen.startupVariant = "reconcile") they cannot occur; if one is observed there it is a VIOLATION, whatever known_findings.json lists.
ORDERING_ONLY = {
    "dkg-completion:crash-after-SaveFinished-before-SaveGroup:db-ahead-of-key-files:started",
    "dkg-completion:crash-after-SaveFinished-before-SaveGroup:db-ahead-of-key-files:refused",
    "dkg-completion:crash-after-SaveGroup-before-SaveShare:group-ahead-of-share:started",
    "dkg-completion:crash-after-SaveGroup-before-SaveShare:group-ahead-of-share:refused",
    "dkg-eviction:crash-after-SaveFinished-before-Reset:db-ahead-of-key-files:started",
    "dkg-eviction:crash-during-Reset:group-ahead-of-share:refused",
}
ORDERING_SYMPTOMS = ("db-ahead-of-key-files", "group-ahead-of-share", "share-ahead-of-group", "key-files-of-an-epoch-without-this-node")
TORN_SYMPTOMS = ("group-unreadable", "group-decoder-panic", "truncated-group-accepted", "share-unreadable", "share-decoder-panic",
                 "truncated-share-accepted")


def is_tmp_step(base):
    """a step that only touches a temporary sibling: nothing a restart looks at changes"""
    return ".tmp" in base and not base.startswith("Rename(")

WHAT = {
    "db-ahead-of-key-files": "dkg.db records the new epoch as completed while the key files are still the previous epoch's (or absent)",
    "group-unreadable": "the group file is empty or a torn prefix that does not decode: Load answers ErrDKGNotStarted and the daemon refuses to start",
    "startup-panic": "a torn group file makes the start-up path panic (decoder nil dereference, or a truncated group without distributed key is accepted and dereferenced in NewChainInfo)",
    "group-ahead-of-share": "group file of the new epoch with the share of the previous epoch (or none): Load succeeds / fails on the share, the pair is not one epoch",
    "share-unreadable": "the share file is empty or a torn prefix that does not decode: Load fails and the daemon refuses to start",
    "truncated-share-accepted": "a torn prefix of the share file decodes without error to a truncated share (no commitments / default scheme) and the beacon starts with it",
}


def order_from_gen():
    """the order of SaveFinished and the hand-over to the consumer as go2lean extracts it from executeAndFinishDKG of the
    tree under test (fresh run of the extractor: lean/Gen may be stale when the translator refused the source)"""
    import subprocess, tempfile, shutil
    tmp = tempfile.mkdtemp(prefix="c13gen", dir=core.scratch())
    try:
        p = subprocess.run([os.path.join(core.BUILD, "go2lean"), core.REPO, tmp], stdout=subprocess.PIPE, stderr=subprocess.PIPE, text=True)
        if p.returncode != 0:
            return "SaveFinished,send", "go2lean refused the source: " + p.stderr.strip()[:300]
        txt = open(os.path.join(tmp, "Gen", "Persist.lean")).read()
        m = re.search(r"def executeAndFinishDKGPersist : List String := \[(.*?)\]", txt)
        calls = re.findall(r'"([^"]*)"', m.group(1))
        a, b = calls.index("store.SaveFinished"), calls.index("completedDKGs.send")
        vm = re.search(r'def keySaveVariant : String := "(\w+)"', txt)
        global SAVE_VARIANT, STARTUP_VARIANT
        SAVE_VARIANT = vm.group(1) if vm else None
        sm = re.search(r'def startupVariant : String := "(\w+)"', txt)
        STARTUP_VARIANT = sm.group(1) if sm else None
        return ("SaveFinished,send" if a < b else "send,SaveFinished"), "extracted"
    except Exception as e:
        return "SaveFinished,send", f"not extracted ({e})"
    finally:
        shutil.rmtree(tmp, ignore_errors=True)


SAVE_VARIANT = None  # "inPlace" | "atomicRename" | None (translator refused the source): set by order_from_gen()
STARTUP_VARIANT = None  # "asIs" | "reconcile" | None: set by order_from_gen()


def parse_r2(v, sep_item="+", sep_field="~"):
    """'trace:a,b+label~fin~g~s~load[~r3:…]+…' -> (trace list, [(label, rec, nested (trace, items) or None)])"""
    items = v.split(sep_item)
    trace = []
    out = []
    for it in items:
        if it.startswith("trace:"):
            trace = re.findall(r"[^,(]+(?:\([^)]*\))?", it[6:])
            continue
        fs = it.split(sep_field)
        if len(fs) < 5:
            out.append((it, {"fin": "?", "g": "?", "s": "?", "load": "?"}, None))
            continue
        rec = {"fin": canon_val(fs[1]), "g": canon_val(fs[2]), "s": canon_val(fs[3]), "load": canon_val(fs[4])}
        nested = None
        if len(fs) > 5 and fs[5].startswith("r3:"):
            nested = parse_r2(sep_field.join(fs[5:])[3:], "&", "^")
        out.append((fs[0], rec, nested))
    return trace, out


def observed_variant(trace):
    """which file-write protocol the real code was SEEN to use in one completion (from the inotify step trace)"""
    renames = [t for t in trace if t.startswith("Rename(") and ".tmp," in t]
    inplace = [t for t in trace if t in ("Write(group)", "Write(share)")]
    if renames and not inplace:
        return "atomicRename"
    if inplace and not renames:
        return "inPlace"
    return "mixed" if renames or inplace else None


# ------------------------------------------------------------------------------------------------
# parsing / canonicalisation

def canon_val(v):
    v = re.sub(r"partial\[[^\]]*\]", "partial", v)
    if v.startswith("panic"):
        return "panic"
    return v


def parse_rec(fields):
    r = {}
    for f in fields:
        if "=" in f:
            k, v = f.split("=", 1)
            r[k] = canon_val(v)
    return r


def rec_str(r, keys=("fin", "cur", "g", "s", "load")):
    return ";".join(f"{k}={r.get(k, '?')}" for k in keys)


def parse_cuts(line):
    """'hdr | label;rec | …' -> (hdr, [(label, rec dict)])"""
    parts = [p.strip() for p in line.split(" | ")]
    cuts = []
    for p in parts[1:]:
        fs = p.split(";")
        cuts.append((fs[0], parse_rec(fs[1:])))
    return parts[0], cuts


def torn_class(label, rec, new_epoch):
    if ".tmp)" in label:
        return "tmp"  # the file being written is a temporary sibling: no loader reads it
    which = "g" if "(group)" in label else "s"
    v = rec.get(which, "?")
    if v == "err":
        return "bad"
    if v == "panic":
        return "panics"
    if v == f"E{new_epoch}":
        return "same"
    if v == "partial":
        return "accepted"
    return "unclassified:" + v


def epoch_num(v):
    if v in ("absent", "none"):
        return 0
    m = re.fullmatch(r"E(\d+)", v)
    return int(m.group(1)) if m else None


def consistent(rec, member):
    """the property statement on one recovered image (independent of the Lean model)"""
    fin, g, s, load = rec.get("fin"), rec.get("g"), rec.get("s"), rec.get("load")
    if fin == "none":
        return g == "absent" and s == "absent" and load == "fresh"
    e = epoch_num(fin)
    if e is None or e == 0:
        return False
    if member.get(e, False):
        return g == fin and s == fin and load == f"ok:{fin}/{fin}"
    return g == "absent" and s == "absent"


def startup_class(load):
    load = load or "?"
    if load.startswith("ok:"):
        return "started"
    if load == "fresh":
        return "fresh-install"
    if load == "panic":
        return "panicked"
    return "refused"


def symptom(rec):
    """what is wrong with a recovered image, and what the start-up path did with it"""
    return symptom_files(rec) + ":" + startup_class(rec.get("load"))


def symptom_files(rec):
    fin, g, s, load = rec.get("fin"), rec.get("g"), rec.get("s"), rec.get("load")
    if epoch_num(fin) is None:
        return "dkg-db-not-whole"
    if g == "panic":
        return "group-decoder-panic"
    if g in ("err", "nil"):
        return "group-unreadable"
    if g == "partial":
        return "truncated-group-accepted"
    if s == "panic":
        return "share-decoder-panic"
    if s == "err":
        return "share-unreadable"
    if s == "partial":
        return "truncated-share-accepted"
    ge, se, fe = epoch_num(g), epoch_num(s), epoch_num(fin)
    if ge is None or se is None:
        return "unclassified"
    if ge == se:
        if fe > ge:
            return "db-ahead-of-key-files"
        if fe < ge:
            return "key-files-ahead-of-db"
        if "ok:" not in (load or "") and load != "fresh":
            return "start-up-fails[" + str(load) + "]"
        return "key-files-of-an-epoch-without-this-node"
    return "group-ahead-of-share" if ge > se else "share-ahead-of-group"


def window(label, trace, torn):
    base = label.split("@")[0]
    if is_tmp_step(base):
        # creating / writing / tearing a temporary sibling changes nothing a restart looks at: the crash point belongs to
        # the window opened by the last step that did (the rename is what takes effect)
        if base in trace:
            i = len(trace) - 1 - trace[::-1].index(base)
            prev = [t for t in trace[:i] if not is_tmp_step(t)]
        else:
            prev = []
        label, base, torn = (prev[-1] if prev else "start"), (prev[-1] if prev else "start"), False
    trace = [t for t in trace if not is_tmp_step(t)]
    call = CALL_OF.get(base, base)
    if torn:
        return f"during-{call}"
    if base == "start":
        return "before-" + (CALL_OF.get(trace[0], trace[0]) if trace else "anything")
    if base.endswith("~prev-commit"):
        return "between-the-commits-of-" + base.split("~")[0]
    if base not in trace:
        return "at-" + base
    i = len(trace) - 1 - trace[::-1].index(base)
    if i + 1 >= len(trace):
        return "after-the-last-step"
    nxt = CALL_OF.get(trace[i + 1], trace[i + 1])
    return f"during-{call}" if nxt == call else f"after-{call}-before-{nxt}"


# ------------------------------------------------------------------------------------------------
# scenarios

def scenario_fixed(scheme, n, per, seed):
    alln = ",".join(str(i) for i in range(n))
    sub = ",".join(str(i) for i in range(n - 1))
    thr = n // 2 + 1
    return [f"init {scheme} {n} {per} {seed}", "staged proposed", "staged accepted", "staged executing",
            f"dkg first {alln} {thr}", "load", "beacon 3", "staged proposed", "staged executing",
            f"dkg stay {sub} {max(2, (n - 1) // 2 + 1)}", "beacon 2", "load", "restart", "beacon 1",
            "staged executing", "staged failed", "load", "staged left", "dkg skip 1,2 2", "load", "restart"]


def scenario_join_evict(scheme, n, per, seed):
    others = ",".join(str(i) for i in range(1, n))
    alln = ",".join(str(i) for i in range(n))
    thr = n // 2 + 1
    return [f"init {scheme} {n} {per} {seed}", f"dkg skip {others} {max(2, (n - 1) // 2 + 1)}", "staged executing",
            f"dkg join {alln} {thr} tt=-3", "beacon 2", "load", "staged executing",
            f"dkg evict {others} {max(2, (n - 1) // 2 + 1)}", "load", "restart"]


def scenario_first_evict(scheme, n, per, seed):
    others = ",".join(str(i) for i in range(1, n))
    alln = ",".join(str(i) for i in range(n))
    return [f"init {scheme} {n} {per} {seed}", "staged executing", f"dkg first {alln} {n // 2 + 1}", "beacon 1",
            f"dkg evict {others} {max(2, (n - 1) // 2 + 1)}", "load"]


def scenario_stray(scheme, n, per, seed):
    """stale temporary files (what a run that died inside a Save leaves behind) before loads, restarts, a resharing and
    an eviction: nothing may load them, a later Save must replace them"""
    alln = ",".join(str(i) for i in range(n))
    others = ",".join(str(i) for i in range(1, n))
    thr = n // 2 + 1
    return [f"init {scheme} {n} {per} {seed}", "staged executing", f"dkg first {alln} {thr}", "stray group", "stray share", "load",
            "restart", "beacon 1", "staged executing", f"dkg stay {alln} {thr}", "load", "restart", "stray share", "stray group",
            "load", f"dkg evict {others} {max(2, (n - 1) // 2 + 1)}", "load"]


def scenario_random(rng, length):
    n = rng.range(3, 6)
    scheme = rng.choice(SCHEMES)
    ops = [f"init {scheme} {n} {rng.choice([15, 30, 60])} {rng.below(1 << 30)}"]
    member = running = False
    evictable = False
    have_epoch = False
    alive = True
    for _ in range(length):
        k = rng.below(100)
        if not alive:
            break
        if k < 22 and running:
            ops.append(f"beacon {rng.range(1, 3)}")
        elif k < 40:
            ops.append("staged " + rng.choice(["proposed", "accepted", "executing", "failed", "aborted"]))
        elif k < 46:
            ops.append("load")
        elif k < 48:
            ops.append("stray " + rng.choice(["group", "share"]))
        elif k < 54 and (member or not have_epoch):
            ops.append("restart")
        elif k < 80:
            size = rng.range(3, n)
            others = rng.shuffle(list(range(1, n)))[:size - 1]
            ms = ",".join(str(i) for i in sorted([0] + others))
            thr = rng.range(size // 2 + 1, size)
            if not have_epoch:
                ops.append(f"dkg first {ms} {thr}")
                evictable = True
            elif member:
                ops.append(f"dkg stay {ms} {thr}")
                evictable = False
            else:
                ops.append(f"dkg join {ms} {thr} tt=-3")
                evictable = True
            member = running = have_epoch = True
        elif k < 88 and member and evictable:
            size = rng.range(2, n - 1)
            ms = ",".join(str(i) for i in sorted(rng.shuffle(list(range(1, n)))[:size]))
            ops.append(f"dkg evict {ms} {max(2, size // 2 + 1) if size >= 2 else 1}")
            ops.append("load")
            member = False
            alive = False  # a node that left has no further scripted life (its daemon does not restart)
        elif k < 94 and not member:
            size = rng.range(2, n - 1)
            ms = ",".join(str(i) for i in sorted(rng.shuffle(list(range(1, n)))[:size]))
            ops.append(f"dkg skip {ms} {max(2, size // 2 + 1)}")
            have_epoch = True
        else:
            ops.append("load")
    return ops


# ------------------------------------------------------------------------------------------------

class Tracker:
    """python's own bookkeeping of the scripted history (which epochs exist, which include this node)"""
    def __init__(self):
        self.member = {}
        self.last_epoch = 0
        self.rest = None  # record at rest after the previous op (canonical)


def evaluate(ops, outs, order, res, stats, ctx, scenario_id):
    """property oracle on the implementation's answers for one scenario; returns list of (signature, replay)"""
    tr = Tracker()
    problems = []
    history = []

    def problem(sig, op_index, why, observed):
        problems.append((sig, {"engine": "crash", "kind": "impl-violates", "ops": minimise(ops[:op_index + 1]),
                               "observed": observed, "oracle": why, "scenario": scenario_id}))

    for i, (op, out) in enumerate(zip(ops, outs)):
        f = op.split()
        history.append(op)
        stats["ops"][f[0] + (":" + f[1] if f[0] in ("dkg", "staged") else "")] = stats["ops"].get(f[0] + (":" + f[1] if f[0] in ("dkg", "staged") else ""), 0) + 1
        if out.startswith("panic") or out.startswith("err:") or out == "bad-op":
            problem(f"harness:{f[0]}:unexpected-answer", i, f"the harness could not perform '{op}': {out[:200]}", [out[:300]])
            break
        if f[0] == "init":
            tr = Tracker()
            if out != "ok":
                problem("init:fresh-node-does-not-start", i, f"a fresh node directory does not start: {out}", [out])
            continue
        if f[0] == "stray":
            if out not in ("ok", "no-node"):
                problem("harness:stray:unexpected-answer", i, f"could not plant a stale temporary file: {out}", [out])
            continue
        if f[0] == "restart":
            stats["restarts"] += 1
            if tr.rest is not None and consistent(tr.rest, tr.member):
                e = epoch_num(tr.rest.get("fin"))
                if (e == 0 or tr.member.get(e, False)) and out != "ok":
                    problem("rest:restart-fails", i, f"restart of a self-consistent member node answered {out}", [out])
            continue
        if f[0] == "load":
            fs = out.split(";")
            rec = parse_rec(fs[1:])
            stats["evaluations"] += 1
            stats["loads"][rec.get("load")] = stats["loads"].get(rec.get("load"), 0) + 1
            if not consistent(rec, tr.member):
                problem("rest:" + symptom(rec), i, "the node at rest (no crash) is not self-consistent: " + rec_str(rec), [out])
            ch = rec.get("chain", "")
            if ch not in ("nodb",) and not re.fullmatch(r"0-(\d+),last=\1", ch):
                problem("rest:chain-not-gap-free", i, f"the chain store at rest is not a gap-free chain from round 0: {ch}", [out])
            tr.rest = rec
            continue
        if f[0] == "beacon":
            for part in out.split(" | "):
                m = re.fullmatch(r"put(\d+):tx=(\d+):before\{(.*?)\}:after\{(.*?)\}", part)
                if not m:
                    if part in ("not-running", "no-node"):
                        continue
                    problem("beacon:unparsable", i, f"cannot read {part[:100]}", [part[:300]])
                    break
                r, tx = int(m.group(1)), int(m.group(2))
                before, after = parse_rec(m.group(3).split(";")), parse_rec(m.group(4).split(";"))
                stats["evaluations"] += 2
                stats["cuts"]["Put"] = stats["cuts"].get("Put", 0) + 2
                if tx != 1:
                    problem("beacon:put-is-not-one-transaction", i, f"storing round {r} took {tx} bbolt commits", [part])
                if before.get("chain") != f"0-{r - 1},last={r - 1}":
                    problem("beacon:crash-before-commit-not-a-prefix", i,
                            f"a crash just before round {r} is committed recovers chain {before.get('chain')}, expected 0-{r - 1}", [part])
                if after.get("chain") != f"0-{r},last={r}":
                    problem("beacon:stored-chain-not-a-gap-free-prefix", i,
                            f"after Put({r}) returned a restart finds chain {after.get('chain')}, expected the gap-free chain 0-{r} (every round already served)", [part])
                for rec in (before, after):
                    if tr.rest is not None and rec.get("load") != tr.rest.get("load"):
                        problem("beacon:start-up-changed", i, f"start-up outcome changed by a beacon Put: {rec.get('load')} vs {tr.rest.get('load')}", [part])
            continue
        if f[0] == "staged":
            hdr, cuts = parse_cuts(out)
            if hdr != "tx=1":
                problem("dkg-staged:not-one-transaction", i, f"SaveCurrent took {hdr}", [out[:300]])
            prev = cuts[0][1] if cuts else None
            for label, rec in cuts:
                stats["evaluations"] += 1
                stats["cuts"][label] = stats["cuts"].get(label, 0) + 1
                if prev and (rec.get("fin"), rec.get("g"), rec.get("s"), rec.get("load")) != (prev.get("fin"), prev.get("g"), prev.get("s"), prev.get("load")):
                    problem("dkg-staged:" + symptom(rec), i, "a step that only stages DKG state changed the completed state: " + rec_str(rec), [label + ";" + rec_str(rec)])
                if not re.fullmatch(r"fresh|staged\d+:\w+|E\d+", rec.get("cur", "")):
                    problem("dkg-staged:dkg-db-not-whole", i, "staged record is not one whole record: " + rec_str(rec), [label + ";" + rec_str(rec)])
                if tr.rest is not None and consistent(tr.rest, tr.member) and not consistent(rec, tr.member):
                    problem("dkg-staged:" + symptom(rec), i, "crash image of a staging step is not self-consistent: " + rec_str(rec), [label + ";" + rec_str(rec)])
            if cuts:
                tr.rest = cuts[-1][1]
            continue
        if f[0] == "dkg":
            kind = f[1]
            e = tr.last_epoch + 1
            tr.last_epoch = e
            tr.member[e] = "0" in f[2].split(",")
            if kind == "skip":
                continue
            if out == "no-node":
                continue
            hdr, cuts = parse_cuts(out)
            hm = re.fullmatch(r"tx=(\d+);trace=(.*)", hdr)
            if not hm:
                problem("dkg:unparsable", i, hdr[:200], [out[:300]])
                break
            tx, trace = int(hm.group(1)), re.findall(r"[^,(]+(?:\([^)]*\))?", hm.group(2))  # "Rename(a,b)" is one step
            script = "dkg-eviction" if kind == "evict" else "dkg-completion"
            stats["traces"][",".join(trace)] = stats["traces"].get(",".join(trace), 0) + 1
            ov = observed_variant(trace)
            if ov is not None:
                stats["observed_variants"][ov] = stats["observed_variants"].get(ov, 0) + 1
                if SAVE_VARIANT is not None and ov != SAVE_VARIANT:
                    problem(f"key-save-protocol:observed-{ov}-source-says-{SAVE_VARIANT}", i,
                            f"the real key store was seen to write its files with protocol '{ov}' (steps {','.join(trace)}) while the "
                            f"extractor classifies key.Save as '{SAVE_VARIANT}'", [hdr])
            old_fin = cuts[0][1].get("fin") if cuts else None
            prev_whole = None
            for label, rec in cuts:
                stats["evaluations"] += 1
                torn = "@" in label
                base = label.split("@")[0]
                stats["cuts"][base + ("@torn" if torn else "")] = stats["cuts"].get(base + ("@torn" if torn else ""), 0) + 1
                stats["loads"][rec.get("load")] = stats["loads"].get(rec.get("load"), 0) + 1
                stats["distinct"].add((kind, tr.member[e], old_fin, base, torn, rec_str(rec)))
                if torn:
                    cl = torn_class(label, rec, e)
                    key = ("group" if "(group" in label else "share") + ":" + cl
                    stats["torn"][key] = stats["torn"].get(key, 0) + 1
                if label == "SaveFinished~rollback":
                    # machinery check: one commit back is the image before the call
                    if prev_whole is not None and rec_str(rec) != rec_str(prev_whole):
                        raise core.Broken("harness:crash:bolt-rollback", f"one commit back differs from the image before SaveFinished: {rec_str(rec)} vs {rec_str(prev_whole)}")
                    continue
                # (1) the key-generation database holds one whole epoch, old or new
                fin, cur = rec.get("fin"), rec.get("cur")
                if fin not in (old_fin, f"E{e}") or (fin == f"E{e}" and cur != fin):
                    problem(f"{script}:crash-{window(label, trace, torn)}:dkg-db-not-whole", i,
                            f"dkg.db is neither the old nor the new pair of records: fin={fin} cur={cur} (old {old_fin}, new E{e})", [label + ";" + rec_str(rec)])
                    if not torn:
                        prev_whole = rec
                    continue
                # (2) key files are one epoch, the one the database records; the node resumes
                if not consistent(rec, tr.member):
                    sig = f"{script}:crash-{window(label, trace, torn)}:{symptom(rec)}"
                    problem(sig, i, f"crash image '{label}' of '{op}': a restart finds {rec_str(rec)} — not one epoch equal to the completed epoch of dkg.db", [label + ";" + rec_str(rec)])
                # (3) the start-up path wrote key files itself (a reconciling start-up): it was killed at each of its own
                # steps and restarted — every such restart must find the same: one epoch, the one the database records
                if "r2" in rec:
                    stats["startup_wrote"] += 1
                    check_restarts(rec["r2"], rec, f"{script}:crash-{window(label, trace, torn)}", label, op, i, tr, problem, stats, 2)
                if not torn:
                    prev_whole = rec
            stats["completions"] += 1
            ov2 = "reconcile" if any("r2" in rec for _, rec in cuts) else "asIs"
            stats["observed_startup"][ov2] = stats["observed_startup"].get(ov2, 0) + 1
            if STARTUP_VARIANT is not None and ov2 != STARTUP_VARIANT:
                problem(f"start-up-protocol:observed-{ov2}-source-says-{STARTUP_VARIANT}", i,
                        f"the real start-up path was seen to {'write' if ov2 == 'reconcile' else 'write no'} key files on the crash images of '{op}' "
                        f"while the extractor classifies LoadBeaconFromStore as '{STARTUP_VARIANT}'", [hdr])
            if tx != 1:
                problem(f"{script}:completion-is-not-one-transaction", i, f"SaveFinished took {tx} bbolt commits; the image between them is a crash point", [hdr])
            if cuts:
                tr.rest = [c for c in cuts if "@" not in c[0]][-1][1]
            continue
    return problems


def check_restarts(r2, parent, where, label, op, i, tr, problem, stats, level):
    rtrace, items = parse_r2(r2) if isinstance(r2, str) else r2
    stats["startup_traces"][",".join(rtrace)] = stats["startup_traces"].get(",".join(rtrace), 0) + 1
    for l2, r, nested in items:
        stats["evaluations"] += 1
        stats["restart_images"][level] = stats["restart_images"].get(level, 0) + 1
        torn2 = "@" in l2
        stats["distinct"].add(("restart", level, where, l2.split("@")[0], torn2, rec_str(r, ("fin", "g", "s", "load"))))
        w2 = window(l2, rtrace, torn2)
        if r.get("fin") != parent.get("fin"):
            problem(f"{where}:restart-killed-{w2}:dkg-db-changed", i,
                    f"crash image '{label}' of '{op}', restarted, the restart killed at its own step '{l2}', restarted again: dkg.db reads "
                    f"fin={r.get('fin')}, it was {parent.get('fin')} — start-up must not touch the completed record", [label + " -> " + l2 + ";" + rec_str(r, ("fin", "g", "s", "load"))])
        elif not consistent(r, tr.member):
            problem(f"{where}:restart-killed-{w2}:{symptom(r)}", i,
                    f"crash image '{label}' of '{op}', restarted, the restart killed at its own step '{l2}' (level {level}), restarted again: "
                    f"that restart finds {rec_str(r, ('fin', 'g', 's', 'load'))} — not one epoch equal to the completed epoch of dkg.db",
                    [label + " -> " + l2 + ";" + rec_str(r, ("fin", "g", "s", "load"))])
        if nested is not None:
            check_restarts(nested, r, where + ":restart-killed-" + w2, label + " -> " + l2, op, i, tr, problem, stats, level + 1)


def report(res, sig, replay):
    """known-finding filter, keyed on the variant of key.Save the tree under test has: a window of the in-place variant
    (torn / truncated / unreadable key file) observed on a tree whose Save replaces files atomically is a VIOLATION even
    though known_findings.json still lists it for trees that write in place"""
    if STARTUP_VARIANT == "reconcile" and (sig in ORDERING_ONLY or
                                           (sig.startswith("dkg-") and any(t in sig.split(":") for t in ORDERING_SYMPTOMS))):
        res.add_violation(dict(replay, signature=sig, note="LoadBeaconFromStore is the reconciling variant on this tree (Gen.startupVariant): "
                               "whatever the crash point, start-up must leave group file and share of the epoch dkg.db records as completed "
                               "— c13_files_one_epoch_fixed; this image refutes it"))
        return True
    if SAVE_VARIANT == "atomicRename" and (sig in INPLACE_ONLY or any(t in sig.split(":") for t in TORN_SYMPTOMS)):
        res.add_violation(dict(replay, signature=sig, note="key.Save is the atomicRename variant on this tree (Gen.keySaveVariant): a crash "
                               "must leave every key file complete (old or new) — c13_no_torn_file; this image refutes it"))
        return True
    return res.report(sig, replay)


def minimise(ops):
    """keep the last init and, after it, only what creates state (DKG and beacon ops) plus the failing op"""
    start = max(i for i, o in enumerate(ops) if o.startswith("init"))
    ops = ops[start:]
    keep = [ops[0]] + [o for o in ops[1:-1] if o.startswith("dkg") or o.startswith("beacon") or o.startswith("stray")] + ([ops[-1]] if len(ops) > 1 else [])
    return keep


def canon_r2(rec, epoch, is_impl):
    """second-level images of one record in a form comparable between implementation and model: (pre, trace, whole items,
    torn items keyed by class). The third level (every-offset mode only) is not part of the comparison."""
    if "r2" not in rec:
        return (rec.get("pre"), None, [], {})
    trace, items = parse_r2(rec["r2"])
    whole, torn = [], {}
    for l, r, _ in items:
        val = rec_str(r, ("fin", "g", "s", "load"))
        if "@" not in l:
            whole.append((l, val))
        elif is_impl:
            cl = torn_class(l, r, epoch)
            torn.setdefault(l.split("@")[0] + "@" + ("bad" if cl == "tmp" else cl), set()).add(val)
        else:
            torn.setdefault(l, set()).add(val)
    return (rec.get("pre"), ",".join(trace), whole, torn)


def r2_agree(a, b):
    """implementation record a vs model record b (outputs of canon_r2): same pre-image, same steps, same whole images, and
    every torn image the implementation produced is one the model lists for its class"""
    if a[:3] != b[:3]:
        return False
    return all(k in b[3] and v <= b[3][k] for k, v in a[3].items())


def model_compare(ops, impl, model, member_of):
    """canonicalise the implementation's answers to the model's vocabulary and compare line by line"""
    agree = 0
    last_epoch = 0
    for i, (op, a, b) in enumerate(zip(ops, impl, model)):
        f = op.split()
        if f[0] == "init":
            last_epoch = 0
        if f[0] == "dkg":
            last_epoch += 1
        if f[0] in ("init", "restart") or a in ("skipped", "no-node", "not-running"):
            ca, cb = canon_val(a), b
        elif f[0] == "load":
            fs = a.split(";")
            ra, rb = parse_rec(fs[1:]), parse_rec(b.split(";")[1:])
            ca = "rest;" + rec_str(ra, ("fin", "cur", "g", "s", "load", "chain"))
            cb = "rest;" + rec_str(rb, ("fin", "cur", "g", "s", "load", "chain"))
            if ca == cb and not r2_agree(canon_r2(ra, last_epoch, True), canon_r2(rb, last_epoch, False)):
                ca, cb = a[:1500], b[:1500]
        elif f[0] == "beacon":
            ca, cb = a, b
        else:
            hdr_a, cuts_a = parse_cuts(a)
            hdr_b, cuts_b = parse_cuts(b)
            table = {l: rec_str(r) for l, r in cuts_b if "@" in l}
            whole_a = [(l, rec_str(r)) for l, r in cuts_a if "@" not in l]
            whole_b = [(l, rec_str(r)) for l, r in cuts_b if "@" not in l]
            ca, cb = (hdr_a, whole_a), (hdr_b, whole_b)
            if ca == cb:
                for (l, ra), (_, rb) in zip([c for c in cuts_a if "@" not in c[0]], [c for c in cuts_b if "@" not in c[0]]):
                    xa, xb = canon_r2(ra, last_epoch, True), canon_r2(rb, last_epoch, False)
                    if not r2_agree(xa, xb):
                        return agree, i, [l + ";restart-level:" + str(xa)[:1200]], [l + ";restart-level:" + str(xb)[:1200]]
            if ca == cb:
                for l, r in cuts_a:
                    if "@" in l:
                        cl = torn_class(l, r, last_epoch)
                        if cl == "tmp":
                            cl = "bad"  # a torn temporary file: the model's four images coincide (nobody loads it)
                        want = table.get(l.split("@")[0] + "@" + cl)
                        if want != rec_str(r):
                            return agree, i, [l + ";" + rec_str(r)], [f"{l.split('@')[0]}@{cl};{want}"]
        if ca != cb:
            return agree, i, [str(ca)[:1500]], [str(cb)[:1500]]
        agree += 1
    return agree, None, None, None


def run_scenarios(scens, mode, ctx, workers=8):
    h = os.path.join(core.BUILD, "verifh")
    d = os.path.join(core.LEAN, ".lake", "build", "bin", "vdriver")

    def one(ops):
        rc, out, err = core.run_lines(h, ["crash", mode], ops, timeout=1500, env=dict(os.environ, GOMEMLIMIT="4GiB"))
        if rc != 0 or len(out) != len(ops):
            raise core.Broken("harness:crash", f"exit {rc}, {len(out)}/{len(ops)} answers: {err[-800:]}")
        mo = None
        if ctx["model_ok"]:
            rc2, mo, err2 = core.run_lines(d, ["crash", mode], ops, timeout=300)
            if rc2 != 0 or len(mo) != len(ops):
                raise core.Broken("model:crash", f"exit {rc2}: {err2[-800:]}")
        return out, mo

    with ThreadPoolExecutor(max_workers=workers) as ex:
        return list(ex.map(one, scens))


def explore(ctx, res):
    """when a build/proof step broke (ctx["deep"]) the quick budget runs first; only if it finds no concrete failing
    input the thorough budget (every byte offset, more histories) is spent"""
    if ctx.get("replay"):
        return replay_file(ctx, res, ctx["replay"])
    explore_tier(ctx, res, ctx["tier"])
    if ctx["deep"] and ctx["tier"] != "thorough" and not any(f for _, f in res.violations):
        explore_tier(ctx, res, "thorough")


def replay_file(ctx, res, path):
    """./check C13 --replay f: re-run the ops of a replay file on a fresh node directory and re-evaluate the oracle"""
    rep = json.load(open(path))
    ops = rep["ops"]
    mode = (rep.get("harness_args") or ["crash", "quick"])[1]
    (impl, model), = run_scenarios([ops], mode, ctx, workers=1)
    stats = {"evaluations": 0, "ops": {}, "cuts": {}, "torn": {}, "loads": {}, "traces": {}, "restarts": 0, "distinct": set(), "observed_variants": {},
             "startup_wrote": 0, "startup_traces": {}, "restart_images": {}, "completions": 0, "observed_startup": {}}
    seen = set()
    for sig, replay in evaluate(ops, impl, None, res, stats, ctx, "replay:" + os.path.basename(path)):
        if sig not in seen:
            seen.add(sig)
            report(res, sig, dict(replay, harness_args=["crash", mode]))
    res.cov["evaluations"] = stats["evaluations"]
    res.cov["distinct_nontrivial"] = len(stats["distinct"])
    res.cov["rule"] = "replay of " + path
    res.cov["distribution"] = {"signatures_reproduced": sorted(seen), "wanted": rep.get("signature")}


def explore_tier(ctx, res, tier):
    rng = ctx["rng"].fork(tier)
    order, order_src = order_from_gen()
    seed = ctx["seed"]
    scens, names = [], []
    for f in sorted(glob.glob(os.path.join(core.VERIF, "corpus", ID, "*.json"))):
        c = json.load(open(f))
        scens.append(c["ops"]); names.append("corpus:" + os.path.basename(f))
    schemes = SCHEMES if tier == "thorough" else [SCHEMES[0], SCHEMES[seed % 4 + 1]]
    for k, sch in enumerate(schemes):
        scens.append(scenario_fixed(sch, 4 + (k + seed) % 3, 30, 1000 * seed + k)); names.append(f"fixed:{sch}")
    scens.append(scenario_join_evict(SCHEMES[(seed + 1) % 5], 4, 30, 77 * seed)); names.append("join-evict")
    scens.append(scenario_first_evict(SCHEMES[(seed + 2) % 5], 5, 30, 78 * seed)); names.append("first-evict")
    scens.append(scenario_stray(SCHEMES[(seed + 3) % 5], 4, 30, 79 * seed)); names.append("stray-tmp")
    nrand = 4 if tier == "quick" else 60
    for k in range(nrand):
        scens.append(scenario_random(rng.fork(f"rand{k}"), 10 if tier == "quick" else 16)); names.append(f"random:{k}")
    # the hand-over order is the one extracted from the source
    scens = [[o + f" order={order}" if o.startswith("dkg ") and not o.startswith("dkg skip") and "order=" not in o else o for o in s] for s in scens]
    mode = "quick" if tier == "quick" else "all"
    # thorough: every byte offset of every file written in the corpus scenarios (first DKG, resharing, join+eviction),
    # sampled offsets (line boundaries, mid-line, 1, half, len-1) for all other histories
    if tier == "thorough":
        ncorpus = len([n for n in names if n.startswith("corpus:")])
        results = run_scenarios(scens[:ncorpus], "all", ctx, workers=12) + run_scenarios(scens[ncorpus:], "quick", ctx, workers=12)
    else:
        results = run_scenarios(scens, "quick", ctx, workers=12)
    stats = {"evaluations": 0, "ops": {}, "cuts": {}, "torn": {}, "loads": {}, "traces": {}, "restarts": 0, "distinct": set(), "observed_variants": {},
             "startup_wrote": 0, "startup_traces": {}, "restart_images": {}, "completions": 0, "observed_startup": {}}
    validated = 0
    reported = set()
    diverged = False
    for name, ops, (impl, model) in zip(names, scens, results):
        problems = evaluate(ops, impl, order, res, stats, ctx, name)
        for sig, replay in problems:
            if sig in reported:
                continue
            reported.add(sig)
            what = None
            parts = sig.split(":")
            report(res, sig, dict(replay, harness_args=["crash", mode]))
        if model is not None and not diverged:
            agree, at, obs, exp = model_compare(ops, impl, model, None)
            validated += agree
            if at is not None:
                diverged = True
                res.add_violation({"engine": "crash", "kind": "model-impl-diverge", "ops": ops[:at + 1], "observed": obs, "expected": exp,
                                   "scenario": name,
                                   "note": "correspondence 'crash' no longer checks: the Lean model of the persistence steps / loaders and the real code disagree on this op"},
                                  found=bool([1 for _, f in res.violations if f]))
    res.cov["evaluations"] = stats["evaluations"]
    res.cov["distinct_nontrivial"] = len(stats["distinct"])
    res.cov["traces_validated_against_impl"] = validated
    res.cov["rule"] = ("scripted histories on one real node directory per scenario (fixed: first DKG → beacons → reshare(stay) → restart → failed DKG → left; "
                       "join → evicted; first → evicted; stale temporary files (op stray: a long undecodable 0644 <file>.tmp, as a run that died inside a Save leaves) before loads, "
                       "restarts, a resharing and an eviction; seeded random walks over init/staged/dkg first|join|stay|evict|skip/beacon/load/restart/stray, 3–6 nodes, 5 schemes); "
                       "for every persistence step observed (inotify events of the groups folder, bbolt commit counter) the directory image before, after and — for the file "
                       "being written, be it the key file itself (written in place) or the temporary sibling that is renamed onto it afterwards (the protocol is "
                       "observed, not assumed) — with that file cut at every line boundary, mid-line, 1, ½, len−1 (quick) or every byte offset (thorough, corpus scenarios) is "
                       "materialised and the real LoadBeaconFromStore + raw loaders run on it (database records read before, key files after that start-up "
                       "path has run); when the start-up path itself writes key files (a reconciling start-up) its steps are observed the same way and "
                       "it is killed at each of them — temporary file cut at 1, ½, len−1 — and restarted (level 2; level 3 in the every-offset mode): "
                       "every such restart must find the same one epoch. evaluations = crash images recovered; "
                       "non-trivial = distinct (DKG kind, membership, previous completed epoch, step, torn?, recovered record)")
    res.cov["distribution"] = {"ops_by_kind": stats["ops"], "images_by_step": stats["cuts"], "torn_prefix_classes": stats["torn"],
                               "startup_outcomes": stats["loads"], "observed_step_traces": stats["traces"], "restarts": stats["restarts"],
                               "handover_order_from_source": order, "handover_order_source": order_src, "scenarios": len(scens),
                               "key_save_variant_from_source": SAVE_VARIANT, "key_save_protocol_observed": stats["observed_variants"],
                               "startup_variant_from_source": STARTUP_VARIANT, "startup_protocol_observed": stats["observed_startup"],
                               "images_on_which_startup_wrote_key_files": stats["startup_wrote"], "startup_step_traces": stats["startup_traces"],
                               "restart_killed_images_by_level": {str(k): v for k, v in stats["restart_images"].items()}}
    res.cov["samples"] = []
    for name, ops, (impl, model) in list(zip(names, scens, results))[:3]:
        for op, out in zip(ops, impl):
            if op.startswith("dkg") and " | " in out:
                cs = out.split(" | ")
                res.cov["samples"].append({"scenario": name, "op": op, "answer_head": cs[:4], "answer_tail": cs[-2:]})
                break
