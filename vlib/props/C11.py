"""C11 — a beacon stream delivers every round once, in order, from the requested round.

Implementation side: engine `stream` = the real beacon.SyncChain (protocol path and, through core's proxyRequest /
proxyStream, the public-stream path) on a real callbackStore(appendStore(schemeStore(base))) over trimmed bolt,
untrimmed bolt and memdb. The SyncChain goroutine is stopped before Last, before Cursor, inside every Send and
before AddCallback; store appends are issued by the script between those gates, so every placement of a Put
relative to the scan steps and the registration is forced.
"""
import glob, itertools, json, os
from concurrent.futures import ThreadPoolExecutor
from .. import core

ID = "C11"
MODULE = "DrandProofs.C11R"   # imports DrandProofs.C11 (the stream machine) and DrandProofs.C12R (the repaired callbackStore)
DEPENDS = ["C18", "C02"]  # base store = sorted map, store stack = atomic appends: re-checked with this property (check, P5b)
THEOREMS = ["Drand.Beacon.Stream." + t for t in [
    "tie_syncchain_calls", "tie_syncchain_guards", "tie_dispatch_lossless",
    "c11_scan_exact", "c11_scan_out_stored", "drop_seekIdx", "c11_live_fifo", "c11_no_repeat", "c11_sent_stored", "c11_exact_partial",
    "c11_gap_counterexample", "c11_gap_counterexample_after_scan", "c11_memdb_shift_counterexample", "c11_memdb_evicted_counterexample",
    "c11_detach_counterexample", "c11_exact_tracked", "frm_step", "c11_net_projection", "c11_concurrent_puts_one_event",
    # with a store that ends a stream whose queue is full instead of waiting for it (reports/cb_fix_1.diff)
    "tie_stream_registration", "onPutR_is_events", "runR_is_run", "c11r_scan_exact", "c11_live_no_skip_or_ended", "c11_ended_is_final",
    "c11_resume_after_end",
    # a stream handler that deregisters only its own registration (reports/cb_fix_2.diff)
    "tie_own_remover", "c11_own_end_keeps_others", "c11_detach_repaired",
]] + ["Drand.Chain.Callback." + t for t in [
    "tie_callback_variant", "c11_dispatch_reaches_or_ends", "c11_never_dropped", "c11_closed_is_last", "c11_table_frozen_during_put"]]
TRUSTED = ["Lean 4 kernel; axioms per theorem under coverage.axioms",
           "modelled, not verified: goroutine scheduling (every interleaving of the listed steps is a schedule), Go channels (FIFO), bbolt read transactions (a snapshot), memdb cursor (position into the live slice; C18 correspondence)",
           "go2lean facts Gen.syncChainCalls / syncChainGuards / syncChainScanLoop (order of Last, Cursor/Seek/Next, AddCallback in SyncChain) and Gen.callbackPutDispatchBlocking / callbackOverflowEndsConsumer (callbackStore.Put hands the beacon to every callback with a plain channel send — it may wait, it never skips — or, repaired store, with a select whose default branch ENDS the consumer; any other shape is refused by go2lean)",
           "Strm.queue holds the job the worker has in its hands as well as the jobs in the channel: the channel (CallbackWorkerQueue) is full when the queue holds CallbackWorkerQueue + 1 jobs; the engine's burst op waits for the worker to have taken the first job before it goes on",
           "harness engine 'stream': gating store wrapper + gating SyncStream around the real SyncChain; absence of a further Send is decided by (job channel empty ∧ no callback running ∧ no Send pending), re-read after 1 ms",
           "bolt files are pre-grown by the harness so that a Put issued while a cursor transaction is open does not wait for an mmap resize (that stall is C12's finding, not C11's)"]
ASSUMPTIONS = ["store appends are chain-legal (round = head+1): C02", "a gRPC Send that returned nil was delivered in order (HTTP/2 stream ordering)"]

BACKENDS = ["trimmed", "bolt", "mem16", "mem10"]
SIG_GAP_BOLT = "syncchain:put-between-scan-and-register:bolt"
SIG_GAP_MEM = "syncchain:put-between-scan-and-register:memdb"
SIG_SHIFT = "syncchain:memdb-cursor-shift-on-full-ring"
SIG_DETACH = "syncchain:stale-removecallback-detaches-replacement"
SIG_EVICTED = "syncchain:memdb-seek-misses-evicted-start-round"
H = lambda: os.path.join(core.BUILD, "verifh")
CAP = 100   # CallbackWorkerQueue; checked against the regenerated constant in explore()


# ----------------------------------------------------------------------------------------------- scenarios
def n0_of(backend):
    return 9 if backend == "mem10" else 3


def epilogue(sids, extra_puts=1):
    ops = ["put"] * extra_puts
    for s in sids:
        ops += [f"drain {s}"]
    for s in sids:
        ops += [f"drain {s}", f"sent {s}"]
    return ops + ["head", "GETALL"]


def placement_scenarios(backend, tier, modes):
    """every placement of 0..K Puts in the 7 slots around the steps of one stream, for the five start-round classes"""
    n0 = n0_of(backend)
    K = 2 if tier == "quick" else 3
    froms = [0, 1, max(2, n0 // 2 + 1), n0, n0 + 1]
    out = []
    i = 0
    for frm in froms:
        for k in range(K + 1):
            for slots in itertools.combinations_with_replacement(range(7), k):
                i += 1
                mode = modes[i % len(modes)]
                chained = 1 if i % 3 else 0
                p = [slots.count(j) for j in range(7)]
                ops = [f"init {chained} {n0}", f"start a 8.8.8.8:1001 {frm} {mode}"]
                ops += ["put"] * p[0] + ["begin a"] + ["put"] * p[1]
                for j in (2, 3, 4):
                    ops += ["scanstep a"] + ["put"] * p[j]
                ops += ["scanall a"] + ["put"] * p[5] + ["register a"] + ["put"] * p[6]
                ops += epilogue(["a"])
                out.append({"name": f"place from={frm} slots={slots}", "ops": ops})
    return out


def scripted_scenarios(backend):
    n0 = n0_of(backend)
    mid = max(2, n0 // 2 + 1)
    S = []
    # two concurrent streams from different addresses, Puts everywhere
    S.append({"name": "two-streams", "ops": [
        f"init 1 {n0}", f"start a 8.8.8.8:1001 1 sync", f"start b 9.9.9.9:7 {mid} public", "begin a", "put", "begin b",
        "scanstep a", "scanstep b", "put", "scanstep a", "scanall b", "register b", "put", "scanall a", "put", "register a", "put",
        "deliver b", "put"] + epilogue(["a", "b"])})
    # reconnect under the same address: the old stream drains, gets the close signal, the new one goes on
    S.append({"name": "reconnect", "ops": [
        f"init 1 {n0}", "start a 8.8.8.8:1001 0 sync", "begin a", "register a", "put", "put", "deliver a",
        f"start b 8.8.8.8:1001 {n0} sync", "begin b", "scanall b", "register b", "put",
        "drain a", "drain a"] + epilogue(["b"])})
    # reconnect, then the old stream dies before it has seen its close signal (stale RemoveCallback)
    for kill in ("faildeliver a", "cancel a"):
        S.append({"name": "reconnect-old-dies " + kill, "ops": [
            f"init 1 {n0}", "start a 8.8.8.8:1001 0 sync", "begin a", "register a", "put",
            "start b 8.8.8.8:1001 0 sync", "begin b", "register b", "put", kill, "put", "put"] + epilogue(["b"])})
    # client goes away during the scan / in live mode; an unrelated stream is not affected
    S.append({"name": "errors", "ops": [
        f"init 0 {n0}", "start a 8.8.8.8:1001 1 sync", "start b 8.8.4.4:9 1 public", "start c 1.1.1.1:5 0 sync",
        "begin a", "begin b", "begin c", "scanstep a", "scanstep b", "register c", "failstep a", "put", "scanall b", "register b",
        "put", "faildeliver b", "put", "cancel c", "put"] + epilogue(["a", "b", "c"])})
    return S


def burst_scenarios(backend, tier):
    """a live stream whose client stops reading while more beacons are appended than the per-callback job queue
    (CallbackWorkerQueue = 100) holds, then reads again: every round must still arrive, in order — or the stream is ended
    (gap-free prefix, then ErrCallbackReplaced, then nothing) and a client that asks again from the next round gets the rest"""
    n0 = n0_of(backend)
    S = []
    # overflow, then the client resumes from the round after the last one a store that ends slow streams lets through
    # (on a store that waits instead, b is simply a second stream from that round)
    first = n0 + 2
    resume = first + CAP + 1
    S.append({"name": "overflow-resume", "ops": [f"init 1 {n0}", "start a 8.8.8.8:1001 0 sync", "begin a", "register a", "put", "deliver a",
                                                 f"burst a {CAP + 6}", "drain a", f"start b 8.8.8.8:1002 {resume} sync", "begin b", "scanall b", "register b"]
              + epilogue(["a", "b"])})
    for frm, lead, n in ((0, 1, 104), (1, 0, 130)) + (((max(2, n0 // 2 + 1), 2, 250),) if tier != "quick" else ()):
        ops = [f"init 1 {n0}", f"start a 8.8.8.8:1001 {frm} sync", "begin a", "scanall a", "register a"]
        ops += ["put", "deliver a"] * lead + [f"burst a {n}"]
        S.append({"name": f"burst from={frm} n={n}", "ops": ops + epilogue(["a"])})
    return S


def random_scenario(rng, backend, tier):
    n0 = rng.choice([1, 3, 5]) if backend != "mem10" else rng.choice([3, 9, 12])
    chained = rng.below(2)
    ops = [f"init {chained} {n0}"]
    sids = []
    addrs = ["8.8.8.8:1001", "8.8.8.8:1001", "9.9.9.9:7", "1.1.1.1:5"]
    head = n0
    nst = rng.range(1, 3)
    for i in range(nst):
        sid = "abc"[i]
        frm = rng.choice([0, 1, max(1, head // 2), head, head + 1, rng.range(0, head + 2)])
        ops.append(f"start {sid} {rng.choice(addrs)} {frm} {rng.choice(['sync', 'public'])}")
        sids.append(sid)
    for _ in range(rng.range(20, 50) if tier == "quick" else rng.range(30, 120)):
        k = rng.below(100)
        s = rng.choice(sids)
        if k < 22:
            ops.append("put"); head += 1
        elif k < 34:
            ops.append(f"begin {s}")
        elif k < 56:
            ops.append(f"scanstep {s}")
        elif k < 62:
            ops.append(f"scanall {s}")
        elif k < 74:
            ops.append(f"register {s}")
        elif k < 90:
            ops.append(f"deliver {s}")
        elif k < 93:
            ops.append(f"drain {s}")
        elif k < 95:
            ops.append(f"cancel {s}")
        elif k < 97:
            ops.append(f"failstep {s}")
        elif k < 99:
            ops.append(f"faildeliver {s}")
        else:
            ops.append(f"sent {s}")
    # bring every stream that is still on its way to the live phase, then drain
    for s in sids:
        ops += [f"begin {s}", f"scanall {s}", f"register {s}"]
    return {"name": "random", "ops": ops + epilogue(sids, 2)}


def long_ring_scenario(rng, cap):
    """thorough: a long run on a full memdb ring with Puts interleaved into a long scan"""
    n0 = rng.range(cap - 1, 3 * cap)
    frm = max(1, n0 - rng.range(2, cap - 2))
    ops = [f"init 1 {n0}", f"start a 8.8.8.8:1001 {frm} sync", "begin a"]
    for _ in range(rng.range(3, 12)):
        ops.append(rng.choice(["put", "scanstep a", "scanstep a"]))
    ops += ["scanall a", "register a"] + ["put", "deliver a"] * rng.range(1, 4)
    return {"name": "long-ring", "ops": ops + epilogue(["a"])}


def expand_getall(ops, bound):
    out = []
    for o in ops:
        if o == "GETALL":
            out += [f"get {r}" for r in range(0, bound + 1)]
        else:
            out.append(o)
    return out


def put_bound(ops):
    n0 = 0
    for o in ops:
        if o.startswith("init"):
            n0 = int(o.split()[2])
    return n0 + sum(1 for o in ops if o == "put") + sum(int(o.split()[2]) for o in ops if o.startswith("burst "))


# ----------------------------------------------------------------------------------------------- oracle
class Str:
    def __init__(self, sid, addr, frm, mode):
        self.sid, self.addr, self.frm, self.mode = sid, addr, frm, mode
        self.phase = "idle"
        self.sends = []           # (round, sig, prev)
        self.flags = []
        self.end = None           # how SyncChain returned
        self.script_end = None    # the script made it end (cancel / failed Send / replaced by a reconnect)
        self.head_at_begin = None
        self.head_at_open = None
        self.refusal_ok = True
        self.puts = []            # (round, phase at that time, ring full at that time)
        self.reg_order = None
        self.end_order = None
        self.drained = False
        self.live_puts = 0        # beacons dispatched to this stream's callback (appends while it was live and registered)
        self.live_sent = 0        # Sends of the live phase the client has taken
        self.overflow_at = None   # first append that found CallbackWorkerQueue jobs queued behind the one in the worker's hands


def parse_tokens(out):
    toks = []
    for part in out.split(" ; "):
        f = part.split()
        if not f:
            continue
        if f[0] == "send":
            extra = []
            rest = f[4:]
            ret = None
            if "returned" in rest:
                i = rest.index("returned")
                ret = rest[i + 1]
                rest = rest[:i]
            toks.append(("send", (int(f[1]), f[2], f[3]), list(rest)))
            if ret:
                toks.append(("returned", ret, []))
        elif f[0] == "returned":
            toks.append(("returned", f[1], []))
        else:
            toks.append((f[0], None, []))
    return toks


def analyze(backend, ops, outs):
    """C11 evaluated on the implementation's own transcript. Returns a list of findings:
    (kind, signature|None, text) where kind is 'violation' or 'deviation' (a gap explained by a listed circumstance)."""
    mem = backend.startswith("mem")
    cap = int(backend[3:]) if mem else None
    head = None
    streams = {}
    stored = {}
    order = 0
    problems = []
    for op, out in zip(ops, outs):
        f = op.split()
        order += 1
        if "unexpected-event:gate-" in out:
            g = {"gate-open": "store.Cursor", "gate-register": "store.AddCallback", "gate-last": "store.Last"}[out[out.index("unexpected-event:") + 17:].split()[0]]
            problems.append(("violation", None, f"`{op}`: SyncChain reached {g} out of order — the stream's steps are Last, then Cursor/Seek/Next, then AddCallback; "
                             "with another order rounds are repeated or lost"))
            return problems
        if out in ("stuck", "bad-op", "unsettled") or out.startswith(("panic", "unexpected-event", "err:", "blocked")):
            problems.append(("violation", None, f"`{op}` answered {out}"))
            return problems
        if f[0] == "burst":
            # n appends with the client of stream f[1] not reading, then a drain of that stream
            first, _, rest = out.partition(" ; ")
            n = int(f[2])
            if not first.startswith("ok ") or int(first.split()[1]) != head + n:
                problems.append(("violation", None, f"`{op}` answered {first} at head {head}")); return problems
            for r in range(head + 1, head + n + 1):
                full = mem and r >= cap
                for s in streams.values():
                    s.puts.append((r, s.phase, full, order))
                    s.drained = False
                    note_dispatch(s, r)
            head += n
            f, out = ["drain", f[1]], rest
        if f[0] == "init":
            head = int(f[2])
        elif f[0] == "put":
            if not out.startswith("ok "):
                problems.append(("violation", None, f"`put` answered {out}")); return problems
            r = int(out.split()[1])
            full = mem and (head + 1) >= cap
            if r != head + 1:
                problems.append(("violation", None, f"put stored round {r} after head {head}")); return problems
            head = r
            for s in streams.values():
                s.puts.append((r, s.phase, full, order))
                s.drained = False
                note_dispatch(s, r)
        elif f[0] == "start":
            streams[f[1]] = Str(f[1], f[2], int(f[3]), f[4])
        elif f[0] == "get":
            if out != "none":
                g = out.split()
                stored[int(g[0])] = (int(g[0]), g[1], g[2])
        elif f[0] == "head":
            if out.split()[0] != str(head):
                problems.append(("violation", None, f"store head is {out}, the script appended up to {head}"))
        elif f[0] in ("begin", "step", "scanstep", "scanall", "register", "deliver", "drain", "failstep", "faildeliver", "cancel"):
            s = streams.get(f[1])
            if s is None:
                continue
            if f[0] in ("begin", "step", "cancel") and s.phase == "idle" and out != "bad-state":
                s.head_at_begin = head
            if s.phase == "started" and out != "bad-state":
                s.head_at_open = head
            seek_miss = mem and s.frm != 0 and s.frm < head + 1 - cap
            if f[0] == "cancel" and out == "returned canceled" and (s.phase == "scanned" or (s.phase == "idle" and mem and (s.frm == 0 or seek_miss))
                                                                 or (s.phase == "started" and seek_miss)):
                # the cancelled SyncChain was about to call AddCallback: it registers (replacing whoever holds the id) and removes itself
                for t in streams.values():
                    if t is not s and t.addr == s.addr and t.phase == "live" and t.script_end is None:
                        t.script_end = "replaced"
            for kind, val, extra in parse_tokens(out):
                if kind == "send":
                    if s.phase in ("started", "scanning"):
                        s.phase = "scanning"
                    if s.phase == "live":
                        s.live_sent += 1
                    s.sends.append(val)
                    s.flags += extra
                elif kind == "started":
                    s.phase = "started" if s.frm != 0 else "scanned"
                    if s.frm > s.head_at_begin:
                        s.refusal_ok = False
                elif kind == "scan-end":
                    s.phase = "scanned"
                elif kind == "registered":
                    s.phase = "live"
                    s.reg_order = order
                    for t in streams.values():
                        if t is not s and t.addr == s.addr and t.phase == "live" and t.script_end is None:
                            t.script_end = "replaced"
                elif kind == "returned":
                    if s.phase == "idle" and val == "no-beacon":
                        if not (s.frm > s.head_at_begin):
                            s.refusal_ok = False
                    s.end = val
                    s.end_order = order
                    s.phase = "ended"
                elif kind == "none" and f[0] in ("drain", "deliver"):
                    s.drained = True
            if f[0] == "cancel" and out.startswith("returned"):
                s.script_end = s.script_end or "cancel"
            if f[0] in ("failstep", "faildeliver") and "returned" in out:
                s.script_end = s.script_end or "sendfail"
    for s in streams.values():
        problems += judge(backend, s, streams, head, stored)
    return problems


def rounds_of(s):
    return [x[0] for x in s.sends]


def note_dispatch(s, r):
    """an append while stream s is live and (as far as the script knows) registered: one more job for its callback — unless
    CallbackWorkerQueue jobs are already queued behind the one its worker holds: a store that does not wait ends the stream there"""
    if s.phase != "live" or s.script_end is not None:
        return
    if s.live_puts - s.live_sent >= CAP + 1:
        if s.overflow_at is None:
            s.overflow_at = r
        return
    s.live_puts += 1


def judge(backend, s, streams, head, stored):
    mem = backend.startswith("mem")
    P = []
    tag = f"stream {s.sid} (from {s.frm}, {s.mode})"
    if s.flags:
        P.append(("violation", None, f"{tag}: packet check failed: {sorted(set(s.flags))}"))
    if not s.refusal_ok:
        P.append(("violation", None, f"{tag}: wrong refusal decision at head {s.head_at_begin}"))
    overflow_end = s.end == "replaced" and s.script_end is None and s.overflow_at is not None
    if s.end is not None and s.script_end is None and s.end != "no-beacon" and not overflow_end:
        P.append(("violation", None, f"{tag}: SyncChain returned '{s.end}' although the script did nothing to end it"))
    if s.end == "replaced" and s.script_end != "replaced" and not overflow_end:
        P.append(("violation", None, f"{tag}: got the close signal without a newer registration under its address and without its job queue being full"))
    if overflow_end and rounds_of(s) and rounds_of(s)[-1] != s.overflow_at - 1:
        # ended because its queue was full at the append of round overflow_at: everything before that round was queued and is owed
        P.append(("violation", None, f"{tag}: ended by the store when round {s.overflow_at} found its queue full, but the last round it was given is {rounds_of(s)[-1]}, not {s.overflow_at - 1}"))
    rounds = [x[0] for x in s.sends]
    for a, b in zip(rounds, rounds[1:]):
        if b <= a:
            P.append(("violation", None, f"{tag}: round {b} sent after round {a} (repeat or out of order): {rounds}"))
            return P
    for x in s.sends:
        if x[0] in stored and stored[x[0]] != x:
            P.append(("violation", None, f"{tag}: sent {x} but the store holds {stored[x[0]]}"))
            return P
        if x[0] > head:
            P.append(("violation", None, f"{tag}: sent round {x[0]} beyond the head {head}"))
            return P
    if s.head_at_begin is None or s.end == "no-beacon":
        return P
    # what the stream owes the client
    live_puts = [r for (r, ph, _, _) in s.puts if ph == "live"]
    if s.frm != 0:
        lo = s.frm
    else:
        if rounds and rounds[0] <= s.head_at_begin:
            P.append(("violation", None, f"{tag}: a stream from 'now' sent round {rounds[0]} which was already stored (head {s.head_at_begin}) when it began"))
            return P
        lo = rounds[0] if rounds else (live_puts[0] if live_puts else head + 1)
        if live_puts and lo > live_puts[0]:
            lo = live_puts[0]
    if s.phase == "live" and s.drained:
        hi = head
    else:
        hi = rounds[-1] if rounds else lo - 1     # an ended stream owes a gap-free prefix only
    missing = [r for r in range(lo, hi + 1) if r not in set(rounds)]
    if not missing:
        return P
    # circumstances under which the unchanged code is known to lose rounds
    gap_ph = ("scanned",) if mem else ("scanning", "scanned")
    gapwin = {r for (r, ph, _, _) in s.puts if ph in gap_ph}
    scanputs = [r for (r, ph, full, _) in s.puts if ph in ("started", "scanning")]
    ring = mem and any(full and ph in ("started", "scanning") for (_, ph, full, _) in s.puts)
    stale = [t for t in streams.values() if t is not s and t.addr == s.addr and t.reg_order is not None and s.reg_order is not None
             and t.reg_order < s.reg_order and t.script_end == "replaced" and t.end in ("canceled", "send-error")
             and t.end_order > s.reg_order]
    after_stale = {r for (r, _, _, o) in s.puts if stale and o > min(t.end_order for t in stale)}
    cap = int(backend[3:]) if mem else None
    evicted = mem and s.frm != 0 and s.head_at_open is not None and s.frm < s.head_at_open + 1 - cap
    why = {}
    for r in missing:
        if evicted and r <= s.head_at_open:
            why.setdefault(SIG_EVICTED, []).append(r)
        elif r in gapwin:
            why.setdefault(SIG_GAP_MEM if mem else SIG_GAP_BOLT, []).append(r)
        elif ring and r <= max(scanputs):
            why.setdefault(SIG_SHIFT, []).append(r)
        elif r in after_stale:
            why.setdefault(SIG_DETACH, []).append(r)
        else:
            why.setdefault(None, []).append(r)
    base = f"{tag}: rounds %s are stored but were never sent (sent {rounds}, head {head})"
    text = {SIG_GAP_BOLT: "; they were appended between the opening of the cursor's read transaction and AddCallback",
            SIG_GAP_MEM: "; they were appended between the cursor's last Next and AddCallback",
            SIG_SHIFT: "; the memdb ring was full and a Put moved the slice under the positional cursor (or evicted the start round before Seek)",
            SIG_EVICTED: "; the requested start round had already left the memdb ring when Seek ran: Seek matches exact rounds only, the miss is swallowed and the stream silently turns into a live-only stream",
            SIG_DETACH: "; an older stream under the same address ended after this one registered and its RemoveCallback(id) removed this stream's callback"}
    for sig, rs in why.items():
        if sig is None:
            P.append(("violation", None, base % rs))
        else:
            P.append(("deviation", sig, base % rs + text[sig]))
    return P


# ----------------------------------------------------------------------------------------------- runner
def run_batch(backend, scens, model_ok, variant="asis"):
    lines = []
    for sc in scens:
        sc["xops"] = expand_getall(sc["ops"], put_bound(sc["ops"]))
        lines += sc["xops"] + ["reset"]
    rc, impl, err = core.run_lines(H(), ["stream", backend], lines, timeout=1500, env=dict(os.environ, GOMEMLIMIT="6GiB"))
    if rc != 0:
        raise core.Broken("harness:stream", f"exit {rc}: {err[-1500:]}")
    model = None
    if model_ok:
        d = os.path.join(core.LEAN, ".lake", "build", "bin", "vdriver")
        rc2, model, err2 = core.run_lines(d, ["stream", backend, variant], lines, timeout=1500)
        if rc2 != 0:
            raise core.Broken("model:stream", f"exit {rc2}: {err2[-1500:]}")
    i = 0
    res = []
    for sc in scens:
        n = len(sc["xops"])
        res.append((sc, impl[i:i + n], model[i:i + n] if model is not None else None))
        i += n + 1
    return res


def model_only(backend, ops, variant):
    d = os.path.join(core.LEAN, ".lake", "build", "bin", "vdriver")
    rc, out, err = core.run_lines(d, ["stream", backend, variant], ops)
    return out if rc == 0 else None


def shrink(backend, ops, pred, budget=60):
    """delta-debug the op list against the property oracle on the real implementation"""
    cur = list(ops)
    tries = 0
    changed = True
    while changed and tries < budget:
        changed = False
        for i in range(len(cur) - 1, 0, -1):
            if cur[i].startswith(("init", "get", "head")):
                continue
            cand = cur[:i] + cur[i + 1:]
            tries += 1
            rc, o, e = core.run_lines(H(), ["stream", backend], cand + ["reset"], timeout=120)
            if rc == 0 and pred(analyze(backend, cand, o)):
                cur = cand
                changed = True
                break
            if tries >= budget:
                break
    return cur


def race_section(ctx, res, tier):
    """Every live stream is fed by one callback of the callbackStore; the callback fires once per Put that answered nil.
    k writers (aggregator, sync manager) released from a barrier Put a beacon of the same next round through the real
    callbackStore(appendStore(schemeStore(base))) (engine `chain`, op `brace`): the callback must fire exactly once per round,
    or a stream in its live phase delivers that round twice."""
    from . import C02
    reps = 2 if tier == "quick" else 20
    for backend in ("trimmed", "bolt", "mem"):
        for scheme in (C02.SCHEMES[1], C02.SCHEMES[0]):
            seq = [f"init {scheme} aa"] + [f"brace {k} 25 {m}" for _ in range(reps) for k, m in ((2, "same"), (3, "diff"), (4, "same"))] + ["scan"]
            impl, model = C02.run_chain(backend, seq, ctx["model_ok"])
            res.cov["race_ops"] = res.cov.get("race_ops", 0) + len(seq)
            for op, out in zip(seq, impl):
                if not op.startswith("brace"):
                    continue
                d = dict(t.split("=") for t in out.split()[1:]) if out.startswith("brace ") else {}
                cb = d.get("cb", "?").split(",")
                if any(x != "1" for x in cb):
                    res.add_violation({"engine": "chain", "backend": backend, "kind": "impl-violates", "ops": [seq[0], op], "observed": [impl[0], out],
                                       "oracle": f"{op.split()[1]} concurrent Puts of the same next round: the callback that feeds the live streams fired {','.join(cb)} times "
                                                 f"per round (Put answered nil {d.get('ok')} times); a live stream delivers such a round more than once"})
                    return True
            if model is not None and model != impl:
                j = core.first_diff(impl, model)
                res.add_violation({"engine": "chain", "backend": backend, "kind": "model-impl-diverge", "ops": seq[:j + 1], "observed": impl[j:j + 1],
                                   "expected": model[j:j + 1], "note": "concurrent Puts of one round: the implementation's answers are not those of k atomic Puts in some order"},
                                  found=False)
                return False
    return False


def explore(ctx, res):
    rng = ctx["rng"]
    tier = "thorough" if ctx["deep"] else ctx["tier"]
    from . import C12
    facts = C12.gen_facts()
    if facts["cap"] != CAP:
        raise core.Broken("C11:queue-constant", f"CallbackWorkerQueue is {facts['cap']}, the overflow scenarios were written for {CAP}")
    if ctx.get("replay"):
        return replay(ctx, res)
    if race_section(ctx, res, tier):
        return
    batches = []
    # corpus first
    corpus = []
    for f in sorted(glob.glob(os.path.join(core.VERIF, "corpus", ID, "*.json"))):
        c = json.load(open(f))
        corpus.append({"name": "corpus:" + os.path.basename(f), "ops": c["ops"], "backend": c["backend"], "expect": c.get("signature")})
    for backend in BACKENDS:
        scens = [dict(c) for c in corpus if c["backend"] == backend]
        scens += placement_scenarios(backend, tier, ["sync", "public", "sync"])
        scens += scripted_scenarios(backend)
        scens += burst_scenarios(backend, tier)
        nr = 40 if tier == "quick" else 1500
        scens += [random_scenario(rng.fork(f"{backend}:r{i}"), backend, tier) for i in range(nr)]
        if tier != "quick" and backend.startswith("mem"):
            scens += [long_ring_scenario(rng.fork(f"{backend}:l{i}"), int(backend[3:])) for i in range(400)]
        for sc in scens:
            sc["backend"] = backend
        chunk = 60
        for i in range(0, len(scens), chunk):
            batches.append((backend, scens[i:i + chunk]))
    # corpus witnesses and the exhaustive placements come first; groups of 8 batches run in parallel and are judged
    # before the next group starts, so a violation is reported without waiting for the whole budget
    batches.sort(key=lambda b: 0 if any(sc["name"].startswith("corpus") for sc in b[1]) else 1)
    def groups():
        with ThreadPoolExecutor(max_workers=8) as ex:
            for i in range(0, len(batches), 8):
                yield list(ex.map(lambda b: run_batch(b[0], b[1], ctx["model_ok"]), batches[i:i + 8]))
    total = validated = 0
    nontriv = set()
    dist = {"ops": {}, "outcomes": {}, "puts_by_stream_phase": {}, "start_round_class": {}, "backend": {}, "mode": {}, "deviations": {}}
    samples = []
    tracked_matches = 0
    reported = set()
    for batch in (b for g in groups() for b in g):
        for sc, impl, model in batch:
            backend, ops = sc["backend"], sc["xops"]
            total += len(ops)
            dist["backend"][backend] = dist["backend"].get(backend, 0) + 1
            for op, out in zip(ops, impl):
                k = op.split()[0]
                dist["ops"][k] = dist["ops"].get(k, 0) + 1
                for kind, val, _ in parse_tokens(out) if k not in ("get", "head", "sent", "init", "put", "start", "reset") else []:
                    o = kind if kind != "returned" else "returned-" + val
                    dist["outcomes"][o] = dist["outcomes"].get(o, 0) + 1
                if k == "start":
                    dist["mode"][op.split()[4]] = dist["mode"].get(op.split()[4], 0) + 1
            if any(o.startswith("send ") for o in impl):
                nontriv.add((backend, tuple(ops)))
            probs = analyze(backend, ops, impl)
            # input distribution: where the Puts fell relative to each stream
            note_distribution(backend, ops, impl, dist)
            matches_asis = model is not None and model == impl
            matches_tracked = False
            if model is not None and not matches_asis:
                mt = model_only(backend, ops, "tracked")
                matches_tracked = mt == impl
                tracked_matches += matches_tracked
            if matches_asis or matches_tracked:
                validated += 1
            viol = [p for p in probs if p[0] == "violation"]
            devs = [p for p in probs if p[0] == "deviation"]
            if viol:
                print("C11: oracle violated in scenario", sc["name"], "-", viol[0][2], flush=True)
                # shrink towards the same kind of failure: a script the engine refuses (`… answered bad-state`) is not a witness
                same = (lambda p: p[0] == "violation") if " answered " in viol[0][2] else (lambda p: p[0] == "violation" and " answered " not in p[2])
                small = shrink(backend, ops, lambda ps: any(same(p) for p in ps)) if len(ops) > 12 else ops
                rc, o, e = core.run_lines(H(), ["stream", backend], small + ["reset"], timeout=120)
                why = [p[2] for p in analyze(backend, small, o) if same(p)] or [viol[0][2]]
                res.add_violation({"engine": "stream", "backend": backend, "kind": "impl-violates", "scenario": sc["name"],
                                   "ops": small, "observed": o[:len(small)], "oracle": why[0]})
                return finish(res, total, nontriv, dist, samples, validated, tracked_matches)
            for d in devs:
                dist["deviations"][d[1]] = dist["deviations"].get(d[1], 0) + 1
                if d[1] in reported:
                    continue
                if model is not None and not matches_asis:
                    continue   # reported below as a divergence
                reported.add(d[1])
                res.report(d[1], {"engine": "stream", "backend": backend, "kind": "impl-violates", "scenario": sc["name"],
                                  "ops": ops, "observed": impl, "oracle": d[2]})
                if res.violations:
                    return finish(res, total, nontriv, dist, samples, validated, tracked_matches)
            if model is not None and not (matches_asis or matches_tracked):
                j = core.first_diff(impl, model)
                res.add_violation({"engine": "stream", "backend": backend, "kind": "model-impl-diverge", "scenario": sc["name"],
                                   "ops": ops[:j + 1], "observed": impl[j:j + 1], "expected": model[j:j + 1],
                                   "note": "the implementation's transcript equals neither the as-is model nor the corrected (tracked) model; the C11 oracle itself accepts it or explains it by a listed circumstance"},
                                  found=False)
                return finish(res, total, nontriv, dist, samples, validated, tracked_matches)
            if sc["name"] == "overflow-resume":
                # observed, not assumed: does this tree's store end a stream whose queue is full?
                ended = any("returned replaced" in o for op, o in zip(ops, impl) if op.startswith("burst "))
                dist["outcomes"]["overflow:" + ("stream-ended" if ended else "store-waited")] = dist["outcomes"].get("overflow:" + ("stream-ended" if ended else "store-waited"), 0) + 1
                if ended != facts["ends"]:
                    res.add_violation({"engine": "stream", "backend": backend, "kind": "model-impl-diverge", "scenario": sc["name"], "ops": ops[:8],
                                       "observed": [o[:80] for o in impl[:8]],
                                       "note": f"go2lean says callbackStore.Put {'ends' if facts['ends'] else 'waits for'} a stream consumer whose queue is full; the stream was {'ended' if ended else 'not ended'}"},
                                      found=False)
                    return finish(res, total, nontriv, dist, samples, validated, tracked_matches)
            if sc.get("expect") and not any(d[1] == sc["expect"] for d in devs):
                dist["deviations"]["witness-no-longer-fails:" + sc["expect"]] = 1
            if len(samples) < 6 and sc["name"].startswith(("place", "reconnect", "two")) and (devs or len(samples) < 3):
                samples.append({"backend": backend, "scenario": sc["name"], "ops": ops[:26], "impl": impl[:26]})
    return finish(res, total, nontriv, dist, samples, validated, tracked_matches)


def note_distribution(backend, ops, impl, dist):
    phase = {}
    frm = {}
    head = 0
    for op, out in zip(ops, impl):
        f = op.split()
        if f[0] == "init":
            head = int(f[2])
        elif f[0] == "start":
            phase[f[1]] = "idle"; frm[f[1]] = int(f[3])
            c = "0" if int(f[3]) == 0 else "1" if int(f[3]) == 1 else "head" if int(f[3]) == head else "beyond-head" if int(f[3]) > head else "middle"
            dist["start_round_class"][c] = dist["start_round_class"].get(c, 0) + 1
        elif f[0] == "put" and out.startswith("ok"):
            head += 1
            for s, ph in phase.items():
                dist["puts_by_stream_phase"][ph] = dist["puts_by_stream_phase"].get(ph, 0) + 1
        elif len(f) > 1 and f[1] in phase:
            for kind, val, _ in parse_tokens(out):
                s = f[1]
                if kind == "started":
                    phase[s] = "started" if frm[s] else "scanned"
                elif kind == "send" and phase[s] in ("started", "scanning"):
                    phase[s] = "scanning"
                elif kind == "scan-end":
                    phase[s] = "scanned"
                elif kind == "registered":
                    phase[s] = "live"
                elif kind == "returned":
                    phase[s] = "ended"


def finish(res, total, nontriv, dist, samples, validated, tracked_matches):
    res.cov["evaluations"] = total
    res.cov["distinct_nontrivial"] = len(nontriv)
    res.cov["traces_validated_against_impl"] = validated
    res.cov["scenarios_matching_corrected_variant_only"] = tracked_matches
    res.cov["rule"] = ("per back-end (trimmed bolt, untrimmed bolt, memdb cap 16 not full, memdb cap 10 with a full ring) × chained/unchained × protocol/public path: "
                       "EVERY placement of 0..2 (quick) / 0..3 (thorough) Puts in the 7 slots {before Last, after Last, after Seek+Send, after each of two Next+Send, after the cursor closed, after AddCallback} "
                       "for start rounds 0, 1, middle, head, head+1; scripted two-stream, reconnect-under-one-address, stale-RemoveCallback and error scenarios; seeded random interleavings of 1–3 streams "
                       "(begin/scanstep/scanall/register/deliver/drain/cancel/failed Send) with Puts; thorough adds long scans over a full memdb ring. evaluations = op lines; "
                       "non-trivial = distinct scenario with at least one Send; validated = scenario whose whole transcript equals the model's")
    res.cov["samples"] = samples
    res.cov["distribution"] = dist


def replay(ctx, res):
    c = json.load(open(ctx["replay"]))
    backend, ops = c.get("backend", "trimmed"), c["ops"]
    rc, o, e = core.run_lines(H(), ["stream", backend], ops + ["reset"])
    probs = analyze(backend, ops, o)
    for p in probs:
        if p[0] == "violation":
            res.add_violation({"engine": "stream", "backend": backend, "kind": "impl-violates", "ops": ops, "observed": o[:len(ops)], "oracle": p[2]})
        else:
            res.report(p[1], {"engine": "stream", "backend": backend, "kind": "impl-violates", "ops": ops, "observed": o[:len(ops)], "oracle": p[2]})
    res.cov["evaluations"] = len(ops)
    res.cov["rule"] = "replay of one recorded scenario"
