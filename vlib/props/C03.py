"""C03 — no beacon without a threshold of valid partials from distinct members."""
import glob, json, os
from .. import core, agg, netreshare
from . import C01 as base

ID = "C03"
MODULE = "DrandProofs.C03"
THEOREMS = ["Drand.Beacon." + t for t in [
    "c03_admitted", "c03_len_counts_distinct", "c03_threshold", "c03_threshold_reachable", "c03_below_threshold", "c03_own_partial_round",
    "c03_invalid_never_counts", "c03_malformed_never_counts", "c03_nonmember_never_counts", "c03_own_address_never_counts",
    "c03_own_index_never_counts", "c03_out_of_window_never_counts", "c03_wrong_round_never_counts", "c03_wrong_prev_never_counts",
    "c03_duplicate_never_counts", "c03_refused_changes_no_len", "processPartial_cases", "processPartial_admitted",
    "append_inv", "flush_inv", "step_inv3", "run_inv3", "toy3_recoverSpec",
    "c03_distinct", "c03_duplicate_ignored", "c03_malformed_ignored", "append_duplicate", "tie_cache_append_variant",
    "tie_processPartial", "tie_aggregator_partial", "tie_aggregator_init", "tie_window", "tie_processPartial_guards",
    "tie_aggregator_guards", "tie_live_group_switch"]] + \
    ["Drand.Net.Reshare." + t for t in ['tie_group_node_lookup', 'c03_member_lookup_exact', 'c03_hole_is_not_member', 'c03_admitted_is_member', 'c03_nonmember_index_never_counts', 'c07_old_epoch_never_counts', 'c07_held_members_run', 'c07_beacon_needs_new_members', 'tie_aggregator_threshold_in_loop']]
TRUSTED = ["Lean 4 kernel; axioms per theorem under coverage.axioms",
           "cryptography is an oracle record; explicit hypotheses: RecoverSpec (if kyber's Recover returns a signature then at least t of the supplied partials verify "
           "under the supplied polynomial at pairwise distinct indices), SignedOnly + CollisionFreeOn (only for the wrong-round / wrong-previous-signature lemmas)",
           "the partial cache is the model of Drand/Beacon/Cache.lean (C12's `cache` engine ties it to cache.go); the node's cache is proved to be a state of that machine",
           "go2lean extractor tools/go2lean/beacon.go: statement skeletons of ProcessPartialBeacon and runAggregator (guards in order, all before the effect), partialCacheStoreLimit",
           "harness engine 'agg' (see C01): real beacon.Handler, packets made with real shares, labels from the real verifier, counting of delivered valid partials done in python from the labels",
           "threshold unforgeability of BLS ('no beacon is produced anywhere, including by an adversary offline, with fewer than t shares') is a cryptographic assumption, not proved"]
ASSUMPTIONS = ["RecoverSpec for kyber's tbls.Recover", "the group file's threshold is the number of coefficients of the public polynomial (validated at DKG output; a lower value makes Recover interpolate another point, which VerifyRecovered then rejects — exercised by the harness)"]


CODES = {"stuck", "labels", "below-threshold", "agg-wrong-round", "invalid-accepted", "put-invalid", "other"}


def gen_all(rng, tier):
    seqs = []
    for sch in agg.SCHEMES:
        for (n, t) in agg.CONFIGS:
            exhaustive = n <= 4
            reps = 1 if tier == "quick" else 6
            for j in range(reps if not exhaustive else (1 if tier == "quick" else 2)):
                r = rng.fork(f"c03/{sch}/{n}/{t}/{j}")
                backend = "bolt" if (n + j) % 2 else "mem"
                seqs.append(agg.gen_c03(r, sch, n, t, backend, r.below(1000), exhaustive, 14 if tier == "quick" else 60))
    # the random mixed sequences of C01 as well (vault switches, sync interleaved), fewer of them
    for sch in agg.SCHEMES:
        for (n, t) in agg.CONFIGS[1:]:
            for j in range(1 if tier == "quick" else 5):
                r = rng.fork(f"c03mix/{sch}/{n}/{j}")
                seqs.append(agg.gen_c01(r, sch, n, t, "mem" if j % 2 else "bolt", 14 if tier == "quick" else 40, r.below(1000)))
    return seqs


def attempts_stats(s):
    """threshold scenarios: in how many the round was created by aggregation, split by what the generator intended; the
    judgement itself is the label-based counting oracle of agg.oracle (a forged packet may still be a valid contribution,
    e.g. a junk previous signature on an unchained scheme)"""
    made_expected = made_unexpected = notmade = 0
    for a in s.meta.get("attempts", []):
        made = False
        for i in range(a["start"], a["end"]):
            left = agg.split(s.impl[i])[0]
            if any(p[0] == a["round"] for p in agg.parse_items(agg.rfield(left, "puts") or "-")):
                made = True
        if made and a["expect"]:
            made_expected += 1
        elif made:
            made_unexpected += 1
        else:
            notmade += 1
            if a["expect"]:
                return None, f"round {a['round']}: {len(a['order'])} distinct members contributed (threshold {s.meta['t']}) but no beacon was created"
    return (made_expected, made_unexpected, notmade), None


def cache_sequences(rng, n):
    """append / len / flush on the real partialCache with a small alphabet of rounds, previous signatures and signer indices:
    duplicates, malformed lengths, flushes; never more than a few ids per signer, so the quota (C12) does not interfere"""
    seqs = []
    for k in range(n):
        r = rng.fork(f"cache{k}")
        ops = []
        for _ in range(r.range(10, 40)):
            c = r.below(100)
            rd, pv = r.range(1, 4), r.choice(["-", "aa", "bb"])
            if c < 60:
                idx = r.below(5)
                L = 96 if r.chance(9, 10) else r.choice([0, 1, 50, 95, 97])
                body = "".join(f"{r.below(256):02x}" for _ in range(L))
                psig = (f"{idx:04x}" + body)[: 2 * (L + 2)] if L > 1 else f"{idx:04x}"[: 2 * L] or "-"
                ops.append(f"append {rd} {pv} {psig}")
            elif c < 85:
                ops.append(f"len {rd} {pv}")
            elif c < 93:
                ops.append(f"flush {r.range(0, 4)}")
            else:
                ops.append("dump")
        for rd in range(1, 5):
            for pv in ("-", "aa", "bb"):
                ops.append(f"len {rd} {pv}")
        ops.append("reset")
        seqs.append(ops)
    return seqs


def cache_oracle(ops, outs):
    """`Len()` of a round cache is the number of DISTINCT well-formed signer indices appended for exactly that (round, prev)
    since the last flush covering it"""
    rounds = {}
    for i, (op, out) in enumerate(zip(ops, outs)):
        f = op.split()
        if f[0] == "append":
            ok = len(f[3]) == 2 * 98
            if (out == "ok") != ok:
                return f"append of a {len(f[3]) // 2}-byte partial answered {out}", i
            if ok:
                rounds.setdefault((int(f[1]), f[2]), set()).add(int(f[3][:4], 16))
        elif f[0] == "flush":
            for k in [k for k in rounds if k[0] <= int(f[1])]:
                del rounds[k]
        elif f[0] == "len":
            want = len(rounds.get((int(f[1]), f[2]), ())) or -1
            if int(out) != want:
                return f"round cache ({f[1]}, {f[2]}) reports Len() = {out} but {max(want, 0)} distinct signer indices were appended", i
        elif f[0] == "reset":
            rounds = {}
    return None


def cache_part(ctx, res, n):
    seqs = cache_sequences(ctx["rng"].fork("cachepart"), n)
    lines = [l for s in seqs for l in s]
    if ctx["model_ok"]:
        impl, model = core.run_both("cache", [], lines)
    else:
        rc, impl, err = core.run_lines(os.path.join(core.BUILD, "verifh"), ["cache"], lines)
        model = None
    i = 0
    validated = 0
    for s in seqs:
        outs = impl[i:i + len(s)]
        r = cache_oracle(s, outs)
        if r:
            why, j = r
            h = os.path.join(core.BUILD, "verifh")
            cur = s[:j + 1]
            changed = True
            while changed and len(cur) > 1:      # delta-debug against the oracle on the real cache
                changed = False
                for q in range(len(cur) - 1):
                    cand = cur[:q] + cur[q + 1:]
                    rc, o, e = core.run_lines(h, ["cache"], cand)
                    if rc == 0 and cache_oracle(cand, o):
                        cur, changed = cand, True
                        break
            rc, outs2, e = core.run_lines(h, ["cache"], cur)
            why = (cache_oracle(cur, outs2) or (why, 0))[0]
            res.report("cache|len-not-distinct-count", {"engine": "cache", "kind": "impl-violates", "ops": cur, "observed": outs2, "oracle": why})
            return len(lines), validated, True
        if model is not None:
            if model[i:i + len(s)] != outs:
                j = core.first_diff(outs, model[i:i + len(s)])
                res.add_violation({"engine": "cache", "kind": "model-impl-diverge", "ops": s[:j + 1], "observed": outs[j:j + 1],
                                   "expected": model[i + j:i + j + 1], "note": "partial cache and its model differ"}, found=False)
                return len(lines), validated, True
            validated += 1
        i += len(s)
    return len(lines), validated, False


def explore(ctx, res):
    rng = ctx["rng"]
    tier = "thorough" if ctx["deep"] else ctx["tier"]
    stats = {"flaky": 0, "unconfirmed": 0, "validated": 0}
    if ctx.get("replay") and json.load(open(ctx["replay"])).get("engine") == "cache":
        c = json.load(open(ctx["replay"]))
        rc, outs, e = core.run_lines(os.path.join(core.BUILD, "verifh"), ["cache"], c["ops"])
        r = cache_oracle(c["ops"], outs)
        if r:
            res.report("cache|len-not-distinct-count", {"engine": "cache", "kind": "impl-violates", "ops": c["ops"], "observed": outs, "oracle": r[0]})
        res.cov.update(evaluations=len(c["ops"]), rule="replay of one cache-engine sequence")
        return
    if ctx.get("replay") and json.load(open(ctx["replay"])).get("engine") == "net":
        cov, _ = netreshare.replay_part(ctx, res, json.load(open(ctx["replay"])))
        res.cov.update(evaluations=sum(cov["ops"].values()), rule="replay of one script of engine net", distribution={"net_reshare": cov})
        return
    if ctx.get("replay"):
        c = json.load(open(ctx["replay"]))
        seqs = [agg.Seq(c["ops"], {})]
    else:
        seqs = []
        for f in sorted(glob.glob(os.path.join(core.VERIF, "corpus", ID, "*.json"))):
            seqs.append(agg.Seq(json.load(open(f))["ops"], {}))
        seqs += gen_all(rng, tier)
    n_cache, v_cache, cache_bad = (0, 0, False) if ctx.get("replay") else cache_part(ctx, res, 150 if tier == "quick" else 3000)
    if cache_bad and any(f for _, f in res.violations):
        seqs = seqs[:4]   # a failing input is already in hand; keep the evidence run short
    agg.run_impl(seqs)
    if ctx["model_ok"]:
        agg.run_model(seqs)
    found = cache_bad or base.evaluate(seqs, res, stats, ctx["model_ok"], CODES)
    tot = [0, 0, 0]
    if not found:
        for s in seqs:
            if s.flaky or not s.impl or "attempts" not in s.meta:
                continue
            st, why = attempts_stats(s)
            if why:
                # not a safety violation of C03, but the model says otherwise too: reported as a correspondence problem
                res.add_violation({"engine": "agg", "kind": "model-impl-diverge", "ops": s.ops, "note": why}, found=False)
                break
            tot = [x + y for x, y in zip(tot, st)]
    base.summarise(seqs, res, stats,
                   "per scheme (5) × (n,t): for n ≤ 4 every contributing subset of size t−1, t, t+1 (own partial included or not) in every arrival order, for n ∈ {5,7} random "
                   "subsets and orders; each scenario is one round: deliveries in that order, interleaved with forged partials from up to n−t corrupted members outside the subset "
                   "(wrong share, wrong round, wrong previous signature, bit flip, truncation, non-member index, replay) and duplicate deliveries; a round the node could not create "
                   "is closed by a sync Put; plus the mixed sequences of C01 (vault switches, sync interleaved). Oracle: a base-store Put during a partial delivery happens only "
                   "after ≥ t distinct valid member partials (own included) for exactly that (round, previous signature) were delivered, counted from the labels. "
                   "evaluations = op lines; non-trivial = distinct sequence with at least one base-store Put of round ≥ 1")
    if True:
        res.cov["evaluations"] += n_cache
        res.cov["traces_validated_against_impl"] += v_cache
        res.cov["distribution"]["cache_engine"] = {"op_lines": n_cache, "sequences_validated": v_cache}
        res.cov["rule"] += "; plus the pure `cache` engine: random append/len/flush sequences on the real partialCache (duplicates, malformed lengths), Len() compared with the count of distinct appended indices and with the cache model"
    if not ctx.get("replay"):
        # groups with holes in the share indices, and old-share partials after a resharing, on networks of real Handlers
        ncov, nres = netreshare.explore_part(ID, ctx, res)
        res.cov["evaluations"] += sum(ncov["ops"].values())
        res.cov["distribution"]["net_reshare"] = ncov
        res.cov["rule"] += ("; plus engine `net` (vlib/netreshare.py): a group with a hole in its share indices offered a VALID partial for the missing index, leavers that keep "
                            "signing with old shares after a resharing, old-share partials of still-members: none may be let in or move the head")
    res.cov["distribution"]["threshold_scenarios"] = {"beacon_created_with_threshold_of_intended_contributors": tot[0],
                                                      "beacon_created_because_a_forged_packet_was_a_valid_contribution": tot[1],
                                                      "no_beacon_below_threshold": tot[2]}
