"""C18 — every storage back-end behaves as one sorted round-to-beacon map."""
import itertools, os
from .. import core

ID = "C18"
MODULE = "DrandProofs.C18"
THEOREMS = []  # filled from DrandProofs/C18.lean below
TRUSTED = ["Lean 4 kernel; axioms per theorem under coverage.axioms",
           "modelled, not verified: bbolt (a bucket is a byte-ordered map; a View is a snapshot; Cursor First/Next/Seek/Last semantics), checked by D against the real bbolt",
           "harness engine 'store' (real boltdb trimmed/untrimmed and memdb stores on a scratch directory)",
           "PostgreSQL back-end is not modelled (no server in the sandbox)"]
ASSUMPTIONS = ["rounds are encoded by chain.RoundToBytes (8-byte big-endian), so byte order = numeric order"]
BACKENDS = ["bolt", "trimmed", "trimmedprev", "mem10", "mem16"]

THEOREMS = [
    "Drand.Store.tie_memdb_ops_atomic", "Drand.Store.c18_insert_sorted", "Drand.Store.c18_erase_sorted", "Drand.Store.c18_lookup_insert",
    "Drand.Store.c18_lookup_erase", "Drand.Store.c18_bolt_inv", "Drand.Store.c18_bolt_get_label",
    "Drand.Store.c18_bolt_refines_map", "Drand.Store.c18_last_is_max", "Drand.Store.c18_len_insert",
    "Drand.Store.c18_seek_present", "Drand.Store.c18_seek_least",
    "Drand.Store.c18_cursor_read_sound", "Drand.Store.c18_iter_ascending", "Drand.Store.c18_iter_all",
    "Drand.Store.c18_trimmed_read_sound", "Drand.Store.c18_trimmed_cursor_read_sound",
    "Drand.Store.c18_trimmed_get_exact",
    "Drand.Store.c18_mem_inv", "Drand.Store.c18_mem_cap", "Drand.Store.c18_mem_put_keeps",
    "Drand.Store.c18_mem_get_sound", "Drand.Store.c18_mem_window", "Drand.Store.c18_mem_cursor_sound",
]


class Spec:
    """The property's reference object: a map round -> (sig, prev), with the documented per-back-end differences."""
    def __init__(self, backend):
        self.b = backend
        self.m = {}
        self.cap = int(backend[3:]) if backend.startswith("mem") else None
    def put(self, r, s, p):
        if self.cap is not None:
            if r in self.m:
                return
            self.m[r] = (s, p)
            while len(self.m) > self.cap:
                del self.m[min(self.m)]
        else:
            self.m[r] = (s, p if self.b == "bolt" else "-")
    def delete(self, r):
        self.m.pop(r, None)
    def expect(self, r):
        """what a read of round r must return: a triple, or None when the read must fail"""
        if r not in self.m:
            return None
        s, p = self.m[r]
        if self.b == "trimmedprev" and r > 0:
            if r - 1 not in self.m:
                return None
            p = self.m[r - 1][0]
        return (r, s, p)


def parse_read(tok):
    if tok == "none":
        return None
    f = tok.split()
    return (int(f[0]), f[1], f[2])


def oracle_seq(backend, ops, outs):
    """Evaluate C18 directly on the implementation's answers for one sequence (ops after a reset)."""
    sp = Spec(backend)
    for op, out in zip(ops, outs):
        f = op.split()
        if out.startswith("err:") or out.startswith("panic") or out == "bad-op" or out == "nil":
            return f"{op}: unexpected outcome {out}"
        if f[0] == "put":
            sp.put(int(f[1]), f[2], f[3])
        elif f[0] == "del":
            sp.delete(int(f[1]))
        elif f[0] == "get":
            if parse_read(out) != sp.expect(int(f[1])):
                return f"get {f[1]} answered {out!r}, the map says {sp.expect(int(f[1]))}"
        elif f[0] == "last":
            want = sp.expect(max(sp.m)) if sp.m else None
            if parse_read(out) != want:
                return f"last answered {out!r}, the map says {want}"
        elif f[0] == "len":
            if int(out) != len(sp.m):
                return f"len answered {out}, the map has {len(sp.m)}"
        elif f[0] == "cur":
            toks = f[1:]
            res = out.split("|")
            prev_round = None
            mutated = False
            for t, o in zip(toks, res):
                if t.startswith("put:"):
                    a = t.split(":"); sp.put(int(a[1]), a[2], a[3]); mutated = True; continue
                if t.startswith("del:"):
                    sp.delete(int(t[4:])); mutated = True; continue
                rd = parse_read(o)
                if rd is not None:
                    # read soundness: the label carries its own data
                    if sp.expect(rd[0]) != rd:
                        return f"cursor {t} returned {o!r} but round {rd[0]} holds {sp.expect(rd[0])}"
                keys = sorted(sp.m)
                if t == "first":
                    want = sp.expect(keys[0]) if keys else None
                    if rd != want and not mutated:
                        return f"cursor first returned {o!r}, expected {want}"
                    prev_round = keys[0] if keys else None
                elif t == "last":
                    want = sp.expect(keys[-1]) if keys else None
                    if rd != want and not mutated:
                        return f"cursor last returned {o!r}, expected {want}"
                    prev_round = keys[-1] if keys else None
                elif t.startswith("seek:"):
                    r = int(t[5:])
                    if r in sp.m:
                        if rd != sp.expect(r):
                            return f"seek of stored round {r} returned {o!r}, expected {sp.expect(r)}"
                        prev_round = r
                    elif sp.cap is None:
                        nxt = [k for k in keys if k >= r]
                        want = sp.expect(nxt[0]) if nxt else None
                        if rd != want:
                            return f"seek {r} returned {o!r}, expected {want}"
                        prev_round = nxt[0] if nxt else None
                    elif rd is not None:
                        return f"memdb seek of absent round {r} returned {o!r}"
                elif t == "next" and not mutated:
                    if prev_round is not None:
                        nxt = [k for k in keys if k > prev_round]
                        want = sp.expect(nxt[0]) if nxt else None
                        if rd != want:
                            return f"cursor next after round {prev_round} returned {o!r}, expected {want}"
                        prev_round = nxt[0] if nxt else None
                    elif rd is not None and sp.cap is None:
                        return f"cursor next on an unpositioned/exhausted cursor returned {o!r}"
    return None


def rnd_sig(rng):
    return rng.choice(["aa", "bb", "c0c1", "dd", "ee01"])


def gen_sequences(rng, tier, backend):
    seqs = []
    mem = backend.startswith("mem")
    probes = lambda rs: [f"get {r}" for r in rs] + ["last", "len", "cur first next next next next",
                                                    "cur seek:1 next", "cur seek:2", "cur seek:3 next", "cur last next",
                                                    "cur seek:0 next next next next"]
    # exhaustive mutation sequences over a tiny alphabet, each followed by a probe suite
    rounds = [1, 2, 3] if tier == "quick" else [0, 1, 2, 3]
    depth = 3 if tier == "quick" else 4
    alpha = [f"put {r} {s} {p}" for r in rounds for s, p in (("aa", "0a"), ("bb", "0b"))] + [f"del {r}" for r in rounds]
    for d in range(1, depth + 1):
        for combo in itertools.product(alpha, repeat=d):
            seqs.append(list(combo) + probes(range(0, 5)))
    # long random sequences with gaps, deletions, re-puts, interleaved cursors
    n = 150 if tier == "quick" else 4000
    for i in range(n):
        r2 = rng.fork(f"{backend}{i}")
        span = r2.choice([6, 10, 24])
        seq = []
        for _ in range(r2.range(20, 70)):
            k = r2.below(100)
            r = r2.below(span)
            if k < 40:
                seq.append(f"put {r} {rnd_sig(r2)} {rnd_sig(r2)}")
            elif k < 50:
                seq.append(f"del {r}")
            elif k < 65:
                seq.append(f"get {r}")
            elif k < 72:
                seq.append("last")
            elif k < 77:
                seq.append("len")
            else:
                toks = []
                for _ in range(r2.range(1, 8)):
                    c = r2.below(100)
                    if c < 20:
                        toks.append("first")
                    elif c < 60:
                        toks.append("next")
                    elif c < 80:
                        toks.append(f"seek:{r2.below(span)}")
                    elif c < 88:
                        toks.append("last")
                    elif mem and c < 96:
                        toks.append(f"put:{r2.below(span)}:{rnd_sig(r2)}:{rnd_sig(r2)}")
                    elif mem:
                        toks.append(f"del:{r2.below(span)}")
                    else:
                        toks.append("next")
                seq.append("cur " + " ".join(toks))
        seqs.append(seq)
    # ascending dense runs (the workload the node produces), long enough to wrap the memdb ring
    for L in ((30,) if tier == "quick" else (30, 200)):
        seq = []
        for r in range(L):
            seq.append(f"put {r} {r % 256:02x} {(r - 1) % 256:02x}")
            if r % 7 == 0:
                seq += ["last", "len", f"get {r}", f"get {max(0, r - 5)}", f"cur seek:{max(0, r - 3)} next next next next"]
        seqs.append(seq)
    return seqs


def explore(ctx, res):
    import glob, json
    rng = ctx["rng"]
    tier = "thorough" if ctx["deep"] else ctx["tier"]
    total = 0
    nontriv = set()
    dist = {}
    samples = []
    validated = 0
    for backend in BACKENDS:
        seqs = []
        for f in sorted(glob.glob(os.path.join(core.VERIF, "corpus", ID, "*.json"))):
            c = json.load(open(f))
            if c.get("backend") in (backend, None):
                seqs.append(c["ops"])
        seqs += gen_sequences(rng.fork(backend), tier, backend)
        lines = []
        for s in seqs:
            lines += s + ["reset"]
        if ctx["model_ok"]:
            impl, model = core.run_both("store", [backend], lines)
        else:
            rc, impl, err = core.run_lines(os.path.join(core.BUILD, "verifh"), ["store", backend], lines)
            model = None
        total += len(lines)
        # split back per sequence
        i = 0
        diverged = False
        for s in seqs:
            outs = impl[i:i + len(s)]
            why = oracle_seq(backend, s, outs)
            for op in s:
                k = op.split()[0]
                dist[k] = dist.get(k, 0) + 1
            if any(o not in ("ok", "none", "0") for o in outs):
                nontriv.add((backend, tuple(s)))
            if why:
                res.add_violation({"engine": "store", "backend": backend, "kind": "impl-violates",
                                   "ops": shrink(backend, s, ctx), "oracle": why, "observed": outs})
                res.cov.update(evaluations=total)
                return finish(res, total, nontriv, dist, samples, validated)
            if model is not None and not diverged:
                mo = model[i:i + len(s)]
                if outs != mo:
                    diverged = True
                    j = core.first_diff(outs, mo)
                    res.add_violation({"engine": "store", "backend": backend, "kind": "model-impl-diverge",
                                       "ops": s[:j + 1], "observed": outs[j:j + 1], "expected": mo[j:j + 1],
                                       "note": "correspondence 'store' no longer checks; the sorted-map oracle accepts the implementation's answers on this sequence"},
                                      found=False)
                else:
                    validated += 1
            i += len(s) + 1
        if len(samples) < 5:
            s = seqs[-2] if len(seqs) > 1 else seqs[0]
            samples.append({"backend": backend, "ops": s[:12], "impl": impl[-(len(s) + 1 + len(seqs[-1]) + 1):][:12]})
    return finish(res, total, nontriv, dist, samples, validated)


def finish(res, total, nontriv, dist, samples, validated):
    res.cov["evaluations"] = total
    res.cov["distinct_nontrivial"] = len(nontriv)
    res.cov["traces_validated_against_impl"] = validated
    res.cov["rule"] = ("per back-end (untrimmed bolt, trimmed bolt without/with previous-required, memdb cap 10/16): every mutation "
                       "sequence up to depth 3 (quick) / 4 (thorough) over put-A/put-B/del on 3–4 rounds followed by a probe suite, "
                       "random sequences of 20–70 ops with cursor sessions (memdb: mutations interleaved in the session), dense ascending runs; "
                       "evaluations = op lines; non-trivial = distinct sequence with at least one answer other than ok/none/0")
    res.cov["samples"] = samples
    res.cov["distribution"] = {"ops_by_kind": dist}


def shrink(backend, seq, ctx):
    """delta-debug the op list against the property oracle on the real implementation"""
    h = os.path.join(core.BUILD, "verifh")
    def fails(s):
        rc, o, e = core.run_lines(h, ["store", backend], s)
        return rc == 0 and oracle_seq(backend, s, o) is not None
    cur = list(seq)
    changed = True
    while changed and len(cur) > 1:
        changed = False
        for i in range(len(cur)):
            cand = cur[:i] + cur[i + 1:]
            if cand and fails(cand):
                cur = cand
                changed = True
                break
    return cur
