"""C18 — every storage back-end behaves as one sorted round-to-beacon map."""
import itertools, os
from .. import core

ID = "C18"
MODULE = "DrandProofs.C18"
THEOREMS = []  # filled from DrandProofs/C18.lean below
TRUSTED = ["Lean 4 kernel; axioms per theorem under coverage.axioms",
           "modelled, not verified: bbolt (a bucket is a byte-ordered map; a View is a snapshot; Cursor First/Next/Seek/Last semantics), checked by D against the real bbolt",
           "harness engine 'store' (real boltdb trimmed/untrimmed and memdb stores on a scratch directory)",
           "PostgreSQL back-end is not modelled (no server in the sandbox)"]
ASSUMPTIONS = ["rounds are encoded by chain.RoundToBytes (8-byte big-endian), so byte order = numeric order"]
BACKENDS = ["bolt", "trimmed", "trimmedprev", "mem10", "mem16"]

THEOREMS = [
    "Drand.Store.tie_memdb_ops_atomic", "Drand.Store.c18_insert_sorted", "Drand.Store.c18_erase_sorted", "Drand.Store.c18_lookup_insert",
    "Drand.Store.c18_lookup_erase", "Drand.Store.c18_bolt_inv", "Drand.Store.c18_bolt_get_label",
    "Drand.Store.c18_bolt_refines_map", "Drand.Store.c18_last_is_max", "Drand.Store.c18_len_insert",
    "Drand.Store.c18_seek_present", "Drand.Store.c18_seek_least",
    "Drand.Store.c18_cursor_read_sound", "Drand.Store.c18_iter_ascending", "Drand.Store.c18_iter_all",
    "Drand.Store.c18_trimmed_read_sound", "Drand.Store.c18_trimmed_cursor_read_sound",
    "Drand.Store.c18_trimmed_get_exact",
    "Drand.Store.c18_mem_inv", "Drand.Store.c18_mem_cap", "Drand.Store.c18_mem_put_keeps",
    "Drand.Store.c18_mem_get_sound", "Drand.Store.c18_mem_window", "Drand.Store.c18_mem_cursor_sound",
    "Drand.Store.c18_read_is_snapshot", "Drand.Store.c18_bolt_held_get", "Drand.Store.c18_put_ok_readable",
    "Drand.Store.c18_put_failed_no_effect", "Drand.Store.c18_saveto_is_content",
]


class Spec:
    """The property's reference object: a map round -> (sig, prev), with the documented per-back-end differences."""
    def __init__(self, backend):
        self.b = backend
        self.m = {}
        self.cap = int(backend[3:]) if backend.startswith("mem") else None
    def put(self, r, s, p):
        if self.cap is not None:
            if r in self.m:
                return
            self.m[r] = (s, p)
            while len(self.m) > self.cap:
                del self.m[min(self.m)]
        else:
            self.m[r] = (s, p if self.b == "bolt" else "-")
    def delete(self, r):
        self.m.pop(r, None)
    def expect(self, r):
        """what a read of round r must return: a triple, or None when the read must fail"""
        if r not in self.m:
            return None
        s, p = self.m[r]
        if self.b == "trimmedprev" and r > 0:
            if r - 1 not in self.m:
                return None
            p = self.m[r - 1][0]
        return (r, s, p)


def parse_read(tok):
    if tok == "none":
        return None
    f = tok.split()
    return (int(f[0]), f[1], f[2])


def fmt_read(t):
    return "none" if t is None else f"{t[0]} {t[1]} {t[2]}"


def oracle_seq(backend, ops, outs):
    """Evaluate C18 directly on the implementation's answers for one sequence (ops after a reset)."""
    sp = Spec(backend)
    mem = sp.cap is not None
    held = {}        # slot -> the value the read returned (None: the read returned nothing)
    closed = False   # bolt: Close was called (memdb: Close is a no-op)
    for op, out in zip(ops, outs):
        f = op.split()
        if f[0] == "cmp":
            # a value handed out by a read is the caller's: it must still be what the read returned
            want = held.get(f[1])
            exp = "empty" if want is None else "same " + fmt_read(want)
            if out != exp:
                return (f"the beacon a caller obtained from the store ({want}) no longer is what the read returned after later writes: "
                        f"cmp answered {out!r}")
            continue
        if f[0] == "close":
            if out != "ok":
                return f"close answered {out}"
            closed = not mem
            continue
        if f[0] == "cx":
            if f[1] in ("hold", "cx", "qput", "cmp", "reset", "close"):
                continue
            if mem or (backend.startswith("trimmed") and f[1] == "saveto"):
                f = f[1:]       # the context is not looked at: the op runs
                op = " ".join(f)
            else:
                if out != "cancelled":
                    return f"{op}: called with a cancelled context, answered {out!r}"
                continue
        if closed:
            if f[0] != "qput" and out != "err:closed":
                return f"{op}: on a closed store, answered {out!r}"
            if f[0] == "hold":
                held[f[1]] = None
            continue
        if out.startswith("err:") or out.startswith("panic") or out in ("bad-op", "nil", "hang", "cancelled"):
            return f"{op}: unexpected outcome {out}"
        if f[0] == "hold":
            # evaluated as the read it performs; the caller keeps what that read returned
            slot, f = f[1], f[2:]
            op = " ".join(f)
            last_tok = out.split("|")[-1]
            held[slot] = parse_read(last_tok)
        if f[0] == "qput":
            # Put under a context cancelled before / while queued behind another writer / after: whatever it answers,
            # "ok" means stored and an error means nothing was written
            res, _, got = out.partition(" get=")
            r = int(f[2])
            if res == "ok":
                sp.put(r, f[3], f[4])
            elif res != "cancelled":
                return f"{op}: answered {out!r}"
            if f[1] == "after" and res != "ok":
                return f"{op}: the context was live during the whole Put, yet it answered {res}"
            want = fmt_read(sp.expect(r))
            if got != want:
                if res == "ok":
                    return f"{op}: Put answered ok but Get({r}) then returns {got!r}; the map says {want}"
                return f"{op}: Put answered {res} but Get({r}) then returns {got!r}; before the call the map said {want}"
            continue
        if f[0] == "saveto":
            if mem:
                if out != "unsupported":
                    return f"memdb saveto answered {out!r}"
                continue
            keys = sorted(sp.m)
            recs = [f"{k} {sp.m[k][0]} {sp.m[k][1] if backend == 'bolt' else '-'}" for k in keys]
            want = f"n={len(keys)} " + ("|".join(recs) if recs else "-")
            if out != want:
                return f"the copy written by SaveTo holds {out!r}, the store holds {want!r}"
            continue
        if f[0] == "put":
            sp.put(int(f[1]), f[2], f[3])
        elif f[0] == "del":
            sp.delete(int(f[1]))
        elif f[0] == "get":
            if parse_read(out) != sp.expect(int(f[1])):
                return f"get {f[1]} answered {out!r}, the map says {sp.expect(int(f[1]))}"
        elif f[0] == "last":
            want = sp.expect(max(sp.m)) if sp.m else None
            if parse_read(out) != want:
                return f"last answered {out!r}, the map says {want}"
        elif f[0] == "len":
            if int(out) != len(sp.m):
                return f"len answered {out}, the map has {len(sp.m)}"
        elif f[0] == "cur":
            toks = f[1:]
            res = out.split("|")
            prev_round = None
            mutated = False
            dead = False
            for t, o in zip(toks, res):
                if t == "cancel":
                    dead = not mem
                    if o != "ok":
                        return f"cursor session: cancel answered {o!r}"
                    continue
                if dead:
                    if o != "cancelled":
                        return f"cursor {t} after the session's context was cancelled answered {o!r}"
                    continue
                if t.startswith("put:"):
                    a = t.split(":"); sp.put(int(a[1]), a[2], a[3]); mutated = True; continue
                if t.startswith("del:"):
                    sp.delete(int(t[4:])); mutated = True; continue
                if o.startswith(("err:", "panic")) or o in ("cancelled", "bad-op", "nil"):
                    return f"cursor {t} answered {o!r}"
                rd = parse_read(o)
                if rd is not None:
                    # read soundness: the label carries its own data
                    if sp.expect(rd[0]) != rd:
                        return f"cursor {t} returned {o!r} but round {rd[0]} holds {sp.expect(rd[0])}"
                keys = sorted(sp.m)
                if t == "first":
                    want = sp.expect(keys[0]) if keys else None
                    if rd != want and not mutated:
                        return f"cursor first returned {o!r}, expected {want}"
                    prev_round = keys[0] if keys else None
                elif t == "last":
                    want = sp.expect(keys[-1]) if keys else None
                    if rd != want and not mutated:
                        return f"cursor last returned {o!r}, expected {want}"
                    prev_round = keys[-1] if keys else None
                elif t.startswith("seek:"):
                    r = int(t[5:])
                    if r in sp.m:
                        if rd != sp.expect(r):
                            return f"seek of stored round {r} returned {o!r}, expected {sp.expect(r)}"
                        prev_round = r
                    elif sp.cap is None:
                        nxt = [k for k in keys if k >= r]
                        want = sp.expect(nxt[0]) if nxt else None
                        if rd != want:
                            return f"seek {r} returned {o!r}, expected {want}"
                        prev_round = nxt[0] if nxt else None
                    elif rd is not None:
                        return f"memdb seek of absent round {r} returned {o!r}"
                elif t == "next" and not mutated:
                    if prev_round is not None:
                        nxt = [k for k in keys if k > prev_round]
                        want = sp.expect(nxt[0]) if nxt else None
                        if rd != want:
                            return f"cursor next after round {prev_round} returned {o!r}, expected {want}"
                        prev_round = nxt[0] if nxt else None
                    elif rd is not None and sp.cap is None:
                        return f"cursor next on an unpositioned/exhausted cursor returned {o!r}"
    return None


def rnd_sig(rng):
    return rng.choice(["aa", "bb", "c0c1", "dd", "ee01"])


def gen_sequences(rng, tier, backend):
    seqs = []
    mem = backend.startswith("mem")
    probes = lambda rs: [f"get {r}" for r in rs] + ["last", "len", "cur first next next next next",
                                                    "cur seek:1 next", "cur seek:2", "cur seek:3 next", "cur last next",
                                                    "cur seek:0 next next next next"]
    # exhaustive mutation sequences over a tiny alphabet, each followed by a probe suite
    rounds = [1, 2, 3] if tier == "quick" else [0, 1, 2, 3]
    depth = 3 if tier == "quick" else 4
    alpha = [f"put {r} {s} {p}" for r in rounds for s, p in (("aa", "0a"), ("bb", "0b"))] + [f"del {r}" for r in rounds]
    for d in range(1, depth + 1):
        for combo in itertools.product(alpha, repeat=d):
            seqs.append(list(combo) + probes(range(0, 5)))
    # long random sequences with gaps, deletions, re-puts, interleaved cursors
    n = 150 if tier == "quick" else 4000
    for i in range(n):
        r2 = rng.fork(f"{backend}{i}")
        span = r2.choice([6, 10, 24])
        seq = []
        for _ in range(r2.range(20, 70)):
            k = r2.below(100)
            r = r2.below(span)
            if k < 40:
                seq.append(f"put {r} {rnd_sig(r2)} {rnd_sig(r2)}")
            elif k < 50:
                seq.append(f"del {r}")
            elif k < 65:
                seq.append(f"get {r}")
            elif k < 72:
                seq.append("last")
            elif k < 77:
                seq.append("len")
            else:
                toks = []
                for _ in range(r2.range(1, 8)):
                    c = r2.below(100)
                    if c < 20:
                        toks.append("first")
                    elif c < 60:
                        toks.append("next")
                    elif c < 80:
                        toks.append(f"seek:{r2.below(span)}")
                    elif c < 88:
                        toks.append("last")
                    elif mem and c < 96:
                        toks.append(f"put:{r2.below(span)}:{rnd_sig(r2)}:{rnd_sig(r2)}")
                    elif mem:
                        toks.append(f"del:{r2.below(span)}")
                    else:
                        toks.append("next")
                seq.append("cur " + " ".join(toks))
        seqs.append(seq)
    seqs += gen_held(rng.fork("held"), tier, backend) + gen_ctx(rng.fork("ctx"), tier, backend)
    # ascending dense runs (the workload the node produces), long enough to wrap the memdb ring
    for L in ((30,) if tier == "quick" else (30, 200)):
        seq = []
        for r in range(L):
            seq.append(f"put {r} {r % 256:02x} {(r - 1) % 256:02x}")
            if r % 7 == 0:
                seq += ["last", "len", f"get {r}", f"get {max(0, r - 5)}", f"cur seek:{max(0, r - 3)} next next next next"]
        seqs.append(seq)
    return seqs


def long_sig(r, n, salt=0):
    return "".join(f"{(r * 7 + i * 13 + salt) % 256:02x}" for i in range(n))


READ_PATHS = ["get {r}", "get {r1}", "last", "cur seek:{r}", "cur seek:{r1}", "cur last", "cur first next", "cur first",
              "cur seek:{r1} next", "cur last next", "get 0"]


def gen_held(rng, tier, backend):
    """A caller keeps the beacon a read returned while the node goes on writing (PublicRand / HTTP / chain check during
    catch-up): holds through every read path, then bursts of at least two writes, then `cmp`. The store is a chain of
    rounds with signatures of the real lengths (48 / 96 bytes), long enough that the bucket has pages of its own."""
    seqs = []
    for i in range(6 if tier == "quick" else 120):
        r2 = rng.fork(f"h{i}")
        n = r2.choice([48, 96, 48, 96, 2, 17])
        pre = r2.range(14, 40) if n >= 17 else r2.range(50, 90)
        if backend.startswith("mem"):
            pre = min(pre, r2.range(6, 20))
        seq = [f"put {r} {long_sig(r, n)} {long_sig(r - 1, n) if r else '-'}" for r in range(pre + 1)]
        head = pre
        slot = 0
        for _ in range(r2.range(2, 4)):
            live = []
            for _ in range(r2.range(2, 6)):
                t = r2.choice(READ_PATHS).replace("{r1}", str(max(0, head - r2.range(1, 3)))).replace("{r}", str(head))
                seq.append(f"hold {slot} {t}")
                live.append(slot)
                slot += 1
            for _ in range(r2.range(1, 3)):
                for _ in range(r2.range(2, 5)):      # a burst: the freed page has to be handed out again
                    k = r2.below(10)
                    if k < 7:
                        head += 1
                        seq.append(f"put {head} {long_sig(head, n)} {long_sig(head - 1, n)}")
                    elif k < 8:
                        seq.append(f"del {r2.range(0, head)}")
                    else:
                        x = r2.range(0, head)
                        seq.append(f"put {x} {long_sig(x, n, 1)} {long_sig(x - 1, n, 1) if x else '-'}")
                seq += [f"cmp {k}" for k in live]
        if i % 3 == 0:
            seq.append("saveto")
        if i % 2 == 0:      # the values outlive the store
            seq += ["close"] + [f"cmp {k}" for k in range(max(0, slot - 4), slot)] + ["get 1"]
        seqs.append(seq)
    return seqs


def gen_ctx(rng, tier, backend):
    """cancelled contexts (before the call, while the Put is queued behind another writer, after), Close, SaveTo"""
    seqs = []
    for i in range(8 if tier == "quick" else 150):
        r2 = rng.fork(f"c{i}")
        seq = []
        head = -1
        for _ in range(r2.range(2, 8)):
            head += 1
            seq.append(f"put {head} {long_sig(head, 4)} {long_sig(head - 1, 4) if head else '-'}")
        for _ in range(r2.range(6, 16)):
            k = r2.below(100)
            if k < 40:
                when = r2.choice(["before", "during", "during", "after"])
                r = r2.choice([head + 1, head + 1, head, max(0, head - 1), head + 3])
                seq.append(f"qput {when} {r} {long_sig(r, 4, 2)} {long_sig(r - 1, 4) if r else '-'}")
                seq.append(f"get {r}")
                head = max(head, r)
            elif k < 65:
                op = r2.choice([f"put {head + 1} aa bb", f"get {max(0, head)}", "last", "len", f"del {max(0, head)}",
                                "cur first next", f"cur seek:{max(0, head - 1)} next", "saveto"])
                seq += ["cx " + op, "len", "last"]
            elif k < 75:
                seq.append("saveto")
            elif k < 90:
                head += 1
                seq.append(f"put {head} {long_sig(head, 4)} {long_sig(head - 1, 4)}")
            else:
                seq += ["last", f"get {r2.range(0, head + 1)}", "cur first next next", "cur first next cancel next last seek:1", "cur cancel first"]
        if i % 2 == 0:
            seq += ["close", "get 0", "last", "len", f"put {head + 1} aa bb", "del 0", "cur first", "saveto", f"hold 0 get 0", "cmp 0",
                    "cx get 0", "cx saveto", "close"]
        seqs.append(seq)
    return seqs


def model_lines(lines, impl):
    """the model takes the implementation's answer to a Put under a cancelled context as the scheduler's choice"""
    out = []
    for l, o in zip(lines, impl):
        if l.startswith("qput "):
            l = l + " " + (o.split() or ["?"])[0]
        out.append(l)
    return out + lines[len(impl):]


def explore(ctx, res):
    import glob, json
    rng = ctx["rng"]
    tier = "thorough" if ctx["deep"] else ctx["tier"]
    total = 0
    nontriv = set()
    dist = {}
    samples = []
    validated = 0
    for backend in BACKENDS:
        seqs = []
        for f in sorted(glob.glob(os.path.join(core.VERIF, "corpus", ID, "*.json"))):
            c = json.load(open(f))
            if c.get("backend") in (backend, None):
                seqs.append(c["ops"])
        seqs += gen_sequences(rng.fork(backend), tier, backend)
        lines = []
        for s in seqs:
            lines += s + ["reset"]
        rc, impl, err = core.run_lines(os.path.join(core.BUILD, "verifh"), ["store", backend], lines, env=dict(os.environ, GOMEMLIMIT="6GiB"))
        if rc != 0 or len(impl) != len(lines):
            # the harness died (e.g. a read of unmapped memory that could not be turned into a panic): find the sequence
            for s in seqs:
                rc1, o1, e1 = core.run_lines(os.path.join(core.BUILD, "verifh"), ["store", backend], s)
                if rc1 != 0 or len(o1) != len(s):
                    res.add_violation({"engine": "store", "backend": backend, "kind": "impl-violates", "ops": s, "observed": o1,
                                       "oracle": f"the implementation crashed on this sequence (exit {rc1}): {e1[-400:]}"})
                    return finish(res, total, nontriv, dist, samples, validated)
            raise core.Broken("harness:store", f"exit {rc}: {err[-1500:]}")
        model = None
        if ctx["model_ok"]:
            rc2, model, e2 = core.run_lines(os.path.join(core.LEAN, ".lake", "build", "bin", "vdriver"), ["store", backend], model_lines(lines, impl))
            if rc2 != 0:
                raise core.Broken("model:store", f"exit {rc2}: {e2[-1500:]}")
        total += len(lines)
        # split back per sequence
        i = 0
        diverged = False
        for s in seqs:
            outs = impl[i:i + len(s)]
            why = oracle_seq(backend, s, outs)
            for op in s:
                k = op.split()[0]
                dist[k] = dist.get(k, 0) + 1
            if any(o not in ("ok", "none", "0", "empty", "cancelled", "err:closed", "unsupported") for o in outs):
                nontriv.add((backend, tuple(s)))
            if why:
                small = shrink(backend, s, ctx)
                rc_, souts, _ = core.run_lines(os.path.join(core.BUILD, "verifh"), ["store", backend], small)
                res.add_violation({"engine": "store", "backend": backend, "kind": "impl-violates",
                                   "ops": small, "oracle": oracle_seq(backend, small, souts) or why, "observed": souts})
                res.cov.update(evaluations=total)
                return finish(res, total, nontriv, dist, samples, validated)
            if model is not None and not diverged:
                mo = model[i:i + len(s)]
                if outs != mo:
                    diverged = True
                    j = core.first_diff(outs, mo)
                    res.add_violation({"engine": "store", "backend": backend, "kind": "model-impl-diverge",
                                       "ops": s[:j + 1], "observed": outs[j:j + 1], "expected": mo[j:j + 1],
                                       "note": "correspondence 'store' no longer checks; the sorted-map oracle accepts the implementation's answers on this sequence"},
                                      found=False)
                else:
                    validated += 1
            i += len(s) + 1
        if len(samples) < 5:
            s = seqs[-2] if len(seqs) > 1 else seqs[0]
            samples.append({"backend": backend, "ops": s[:12], "impl": impl[-(len(s) + 1 + len(seqs[-1]) + 1):][:12]})
    return finish(res, total, nontriv, dist, samples, validated)


def finish(res, total, nontriv, dist, samples, validated):
    res.cov["evaluations"] = total
    res.cov["distinct_nontrivial"] = len(nontriv)
    res.cov["traces_validated_against_impl"] = validated
    res.cov["rule"] = ("per back-end (untrimmed bolt, trimmed bolt without/with previous-required, memdb cap 10/16): every mutation "
                       "sequence up to depth 3 (quick) / 4 (thorough) over put-A/put-B/del on 3–4 rounds followed by a probe suite, "
                       "random sequences of 20–70 ops with cursor sessions (memdb: mutations interleaved in the session), dense ascending runs; "
                       "evaluations = op lines; non-trivial = distinct sequence with at least one answer other than ok/none/0")
    res.cov["samples"] = samples
    res.cov["distribution"] = {"ops_by_kind": dist}


def shrink(backend, seq, ctx):
    """delta-debug the op list against the property oracle on the real implementation"""
    h = os.path.join(core.BUILD, "verifh")
    def fails(s):
        rc, o, e = core.run_lines(h, ["store", backend], s)
        return rc == 0 and oracle_seq(backend, s, o) is not None
    cur = list(seq)
    n = max(1, len(cur) // 2)
    while n >= 1:
        i = 0
        while i < len(cur):
            cand = cur[:i] + cur[i + n:]
            if cand and fails(cand):
                cur = cand
            else:
                i += n
        n //= 2
    return cur
