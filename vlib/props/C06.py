"""C06 — a completed DKG leaves all nodes with one group and matching key shares (PARTIAL: DESIGN.md §3 C06, §6)."""
import glob, json, os
from .. import core, dkgrun as D, bcast as B

ID = "C06"
MODULE = "DrandProofs.C06"
THEOREMS = ["Drand.DKG." + t for t in [
    "tie_sort_comparator", "tie_index_assignment", "tie_asgroup_fields", "tie_asgroup_seed_rule", "tie_transition_tail",
    "c06_sorted_perm", "c06_sorted_strict", "c06_order_independent", "c06_index_independent", "c06_asgroup_order_independent",
    "c06_group_function", "c06_group_fields", "c06_nodes_from_qual", "c06_seed_epoch1", "c06_seed_later",
    "c06_transition_epoch1", "c06_transition_same_round", "c06_transition_refines", "c06_transition_differs", "c06_transition_iff_same_round",
    "c06_one_group_partial", "c06_one_group_counterexample"]] + \
    ["Drand.DKG.Pedersen." + t for t in ["c06_share_eq_eval", "c06_share_on_poly", "c06_pub_constant", "c06_threshold_signs", "c06_threshold_verifies"]] + \
    ["Drand.DKG.Bcast." + t for t in [
        "tie_bcast_recv_order", "tie_bcast_sendout", "tie_bcast_push", "tie_bcast_worker_lifetime", "tie_bcast_queues", "tie_bcast_cfg",
        "c06_bcast_relayed", "c06_bcast_agreement", "c06_bcast_deliver_valid_once", "c06_bcast_seen_handed", "c06_bcast_workers_live",
        "c06_bcast_no_overflow", "c06_bcast_invalid_harmless", "c06_bcast_poison_counterexample", "c06_bcast_after_stop_counterexample",
        "c06_bcast_ctx_bound_workers_counterexample", "c06_bcast_overflow_counterexample"]]
TRUSTED = ["Lean 4 kernel; axioms per theorem under coverage.axioms",
           "PedersenSpec (hypothesis, not proved): kyber's Pedersen DKG ends on every completing node with the same QUAL and the same bundles, and outputs shares of the "
           "sum of the qualified dealers' polynomials with the matching public coefficients; agreement on QUAL under arbitrary schedules (kyber + echoBroadcast) is "
           "sampled by the differential runs only",
           "go2lean facts (Gen.DKGRun): sort comparator, index assignment, asGroup field map and seed rule, the transition-time tail of startDKGExecution, roundsUntilTransition — tied by tie_* theorems",
           "go2lean facts (Gen.Bcast): order of the steps of echoBroadcast.BroadcastDKG / sendout / Push* / Stop, the loop shape of sender.run and where its "
           "context comes from, sendPacket non-blocking, senderQueueSize, channel capacities — tied by tie_bcast_* theorems; the model's two switches "
           "(record-before-verify, workers-follow-context) ARE these facts (Cfg.asIs)",
           "harness engine 'bcast': k real echoBroadcast instances (newEchoBroadcast) wired by a scripted net.DKGClient that parks every relay send until "
           "the script releases it (delivered / link failure); real kyber bundles signed with real keys, verified by the real dkg.VerifyPacketSignature; the "
           "packet labels (hash, decodes, index known, signature valid) come from the harness's own calls of the decoder and of schnorr.Verify",
           "echo broadcast, modelled not verified: Go channels and goroutine scheduling (a worker blocked in `range newCh` takes a packet as soon as one is "
           "offered), the hash of a bundle is collision free and does not cover the signature, gRPC delivery is an event that either hands the packet to "
           "the peer's BroadcastDKG or returns an error, nothing is retried",
           "harness engine 'dkgrun': n real dkg.Process instances on real bolt stores in one OS process, real kyber DKG, in-memory net.DKGClient (delay, reorder, duplicate, "
           "hold, drop); crypto labels (share on polynomial, t-subset signatures) computed with the real kyber tbls/share primitives",
           "C16 (time model) and C17 (group-hash preimage) are reused; BLAKE2b-256 via python hashlib for the epoch-1 seed comparison",
           "the node's own time.Now() at completion is not observable: the model's transition time is compared for every clock reading in the observed completion window"]
ASSUMPTIONS = ["echo broadcast agreement (c06_bcast_agreement) is under explicit fairness hypotheses: the relay i->d of the bundle has been carried out "
               "(nothing waiting in worker i->d) and was not lost (link i->d delivered it, queue not full, d not stopped); a participant that signs more than "
               "senderQueueSize(n) distinct bundles can make honest relays drop (c06_bcast_overflow_counterexample)",
               "a node pushes each of its own bundles once (PushFresh)",
               "synchrony of kyber's DKG: every bundle reaches every node within the phase (TimeBetweenDKGPhases); the harness measures delivery and scheduling lag per "
               "epoch and discards (counts, does not judge) runs in which the machine was too loaded to meet it — nodes then really do complete with different groups, "
               "which is the documented limit of echoBroadcast and the reason the claim is partial",
               "participants have pairwise distinct public keys", "period is a whole number of seconds >= 1; times within the C16 no-wrap domain"]


def schedules(rng):
    return [None, f"delay={rng.range(20, 90)}/dup={rng.range(10, 45)}", f"delay={rng.range(10, 50)}/slow={{k}}:{rng.range(120, 320)}",
            f"dup={rng.range(20, 60)}", f"delay={rng.range(40, 120)}"]


def gen_scripts(ctx, tier):
    rng = ctx["rng"].fork("c06")
    seed = ctx["seed"]
    unch = D.SCHEMES[1 + (seed % 4)]
    scripts = []
    phase, kick = 15000, 450

    def net(sch, n, tag, ph=phase):
        return D.net_line(sch, n, "default" if rng.chance(1, 2) else f"net{tag}", ph, kick, rng.next() % 10**9)

    def sched(r, members):
        s = r.choice(schedules(r))
        return s.replace("{k}", str(r.choice(members))) if s else None

    # A: chained, 3 nodes, three epochs (threshold up, then down), permuted lists, delays/duplicates/slow node
    r = rng.fork("A")
    o = r.shuffle([0, 1, 2])
    scripts.append(("A-chained-3", [net(D.CHAINED, 3, "a"),
                    D.initial_line(o, 2, o[0], period=30, genesis=-r.range(50, 5000), sched=sched(r, o)),
                    D.reshare_line(r.shuffle(o), [], [], 3, r.choice(o), sched=sched(r, o)),
                    D.reshare_line(r.shuffle(o), [], [], 2, r.choice(o), sched=sched(r, o))]))
    # B: unchained, 4 nodes: start with 3, add one, remove one
    r = rng.fork("B")
    o = r.shuffle([0, 1, 2, 3])
    first, extra = o[:3], o[3]
    gone = r.choice(first)
    rest = [x for x in o if x != gone]
    scripts.append(("B-unchained-4", [net(unch, 4, "b"),
                    D.initial_line(first, r.choice(D.thresholds(3)), first[0], period=r.choice([3, 30, 60]), genesis=-r.range(50, 5000), sched=sched(r, first)),
                    D.reshare_line(r.shuffle(first), [extra], [], 3, r.choice(first), sched=sched(r, o)),
                    D.reshare_line(r.shuffle(rest), [], [gone], r.choice(D.thresholds(3)), r.choice(rest), sched=sched(r, rest))]))
    # C: every admissible threshold for n = 1..4 (first epoch), alternating schemes
    combos = [(n, t) for n in (1, 2, 3, 4) for t in D.thresholds(n)]
    for half, name in ((combos[0::2], "C1-thresholds"), (combos[1::2], "C2-thresholds")):
        r = rng.fork(name)
        lines = []
        for j, (n, t) in enumerate(half):
            o = r.shuffle(list(range(n)))
            lines += [net(D.CHAINED if (j + seed) % 2 else unch, n, f"c{n}{t}"), D.initial_line(o, t, r.choice(o), period=r.choice([5, 30]), genesis=-r.range(10, 900), sched=sched(r, o))]
        scripts.append((name, lines))
    # D: one node offline during the execution: QUAL is a strict subset, indices keep a hole (each of the three nodes in turn,
    # so that the missing index is not always the last one)
    for down in (0, 1, 2):
        r = rng.fork(f"D{down}")
        o = r.shuffle([0, 1, 2])
        live = [x for x in o if x != down]
        scripts.append((f"D{down}-offline-node", [net(unch if (seed + down) % 2 else D.CHAINED, 3, f"d{down}", ph=2400),
                        D.initial_line(o, 2, live[0], period=30, genesis=-r.range(50, 500), sched=f"down={down}"),
                        D.reshare_line(r.shuffle(live), [], [], 2, live[0], sched=sched(r, live))]))
    # E: completion placed before / after / across a round boundary (period 1 s)
    r = rng.fork("E")
    o = r.shuffle([0, 1, 2])
    late = r.choice(o)
    scripts.append(("E-round-boundary", [net(D.CHAINED, 3, "e"),
                    D.initial_line(o, 2, o[0], period=2, genesis=-2 * r.range(10, 150)),
                    D.reshare_line(r.shuffle(o), [], [], 2, r.choice(o), sched="hold=-900"),
                    D.reshare_line(r.shuffle(o), [], [], 2, r.choice(o), sched="hold=250"),
                    D.reshare_line(r.shuffle(o), [], [], 2, r.choice(o), sched=f"hold=-900/holdx={late}:400")]))
    # F: one node, kickoff placed just before / just after a boundary: the tail of startDKGExecution at chosen instants
    r = rng.fork("F")
    scripts.append(("F-single-node-instants", [net(unch, 1, "f"),
                    D.initial_line([0], 1, 0, period=r.choice([1, 2]), genesis=-r.range(20, 300)),
                    D.reshare_line([0], [], [], 1, 0, sched="kick=-250"),
                    D.reshare_line([0], [], [], 1, 0, sched="kick=60")]))
    # G: link faults of the deal phase between two nodes that are not the leader — a one-way cut (the echo broadcast of the
    # third node is the only path), and a copy of a deal with a broken signature that arrives before the genuine one. The
    # commands and the gossip are served under request-scoped contexts, as over gRPC.
    for gi, tok in enumerate(("cut", "forge")):
        r = rng.fork("G" + tok)
        o = r.shuffle([0, 1, 2])
        leader = o[0]
        a, b = r.shuffle(o[1:])
        scripts.append((f"G-link-{tok}", [net(unch if gi else D.CHAINED, 3, f"g{gi}", ph=2000),
                        D.initial_line(o, 2, leader, period=30, genesis=-r.range(50, 500), sched=f"{tok}={a}>{b}"),
                        D.reshare_line(r.shuffle(o), [], [], 2, leader, sched=f"{tok}={b}>{a}")]))
    if tier == "quick":
        return scripts
    for k in range(6):
        r = rng.fork(f"G{k}")
        n = r.range(3, 5)
        o = r.shuffle(list(range(n)))
        a, b = r.shuffle(o[1:])[:2]
        tok = "cut" if k % 2 else "forge"
        scripts.append((f"G-link-{tok}-{k}", [net(r.choice(D.SCHEMES), n, f"g{k}", ph=2000),
                        D.initial_line(o, n // 2 + 1, o[0], period=30, genesis=-r.range(50, 500), sched=f"{tok}={a}>{b}/delay={r.range(5, 40)}"),
                        D.reshare_line(r.shuffle(o), [], [], n // 2 + 1, o[0], sched=f"cut={a}>{b}/forge={b}>{a}")]))
    # thorough: all 5 schemes, n up to 6, all thresholds, more schedules, 2-3 epochs
    for rep, si, sch in [(rep, si, sch) for rep in range(3) for si, sch in enumerate(D.SCHEMES)]:
        for n in (2, 3, 4, 5, 6):
            for t in D.thresholds(n):
                r = rng.fork(f"T{rep}{si}{n}{t}")
                o = r.shuffle(list(range(n)))
                lines = [net(sch, n, f"t{si}{n}{t}"), D.initial_line(o, t, r.choice(o), period=r.choice([2, 30]), genesis=-r.range(10, 9000), sched=sched(r, o),
                                                                  subsets=20 if n > 4 else None)]
                t2 = r.choice(D.thresholds(n))
                lines.append(D.reshare_line(r.shuffle(o), [], [], t2, r.choice(o), sched=sched(r, o), subsets=20 if n > 4 else None))
                scripts.append((f"T{rep}-{sch}-{n}-{t}", lines))
    for k in range(16):
        r = rng.fork(f"X{k}")
        n = r.range(4, 6)
        o = r.shuffle(list(range(n)))
        first, extra = o[:n - 1], o[n - 1]
        gone = r.choice(first[1:])
        lines = [net(r.choice(D.SCHEMES), n, f"x{k}"),
                 D.initial_line(first, (n - 1) // 2 + 1, first[0], period=r.choice([2, 3, 30]), genesis=-r.range(10, 9000), sched=sched(r, first), subsets=20),
                 D.reshare_line(r.shuffle([x for x in first if x != gone]), [extra], [gone], r.choice(D.thresholds(n - 1)), first[0], sched=sched(r, o), subsets=20),
                 D.reshare_line(r.shuffle([x for x in o if x != gone]), [], [], r.choice(D.thresholds(n - 1)), first[0],
                                sched=r.choice(["hold=-900", "hold=250", f"hold=-900/holdx={first[0]}:400"]) if True else None, subsets=20)]
        scripts.append((f"X-replace-{k}", lines))
    for k in range(10):
        r = rng.fork(f"Y{k}")
        n = r.range(4, 6)
        o = r.shuffle(list(range(n)))
        down = r.choice(o[1:])
        scripts.append((f"Y-offline-{k}", [net(r.choice(D.SCHEMES), n, f"y{k}", ph=2000),
                        D.initial_line(o, n // 2 + 1, o[0], period=30, genesis=-r.range(10, 900), sched=f"down={down}/delay={r.range(10, 60)}", subsets=20)]))
    return scripts


MAX_REPORTS = 3


def explore(ctx, res):
    res.level = "proof"
    tier = "thorough" if ctx["deep"] else ctx["tier"]
    corpus = []
    for f in sorted(glob.glob(os.path.join(core.VERIF, "corpus", "C06", "*.json"))):
        corpus.append(("corpus:" + os.path.basename(f), json.load(open(f))["ops"]))
    quick = gen_scripts(ctx, "quick")
    stages = [corpus + quick]
    if tier != "quick":
        # the deeper scripts run only if the quick ones found nothing (a broken proof / tie makes the tier thorough)
        names = {q[0] for q in quick}
        stages.append([x for x in gen_scripts(ctx, tier) if x[0] not in names])
    bacc = {}
    bdist = B.explore(ctx, res, tier, bacc)
    acc = {"evals": bdist["ops"], "validated": bdist["validated"], "nontriv": set(bacc.get("nontriv", set())), "samples": [], "seen": set(),
           "dist": {"epochs_attempted": 0, "epochs_completed_by_all_live_members": 0, "epochs_completed_partially": 0, "epochs_not_completed": 0,
                    "nodes_completed": 0, "subsets_signed": 0, "n_t": {}, "schemes": {}, "net_stats": {}, "model": {}, "scripts": 0}}
    for stage in stages:
        if any(f for _, f in res.violations):
            break
        evaluate(ctx, res, D.run_scripts(stage, workers=8), acc)
    dist = acc["dist"]
    dist["bcast"] = bdist
    if dist["epochs_attempted"] and dist["nodes_completed"] == 0:
        raise core.Broken("harness:dkgrun", "no DKG completed on any node: the runs say nothing about the property")
    res.cov.update(evaluations=acc["evals"], distinct_nontrivial=len(acc["nontriv"]), traces_validated_against_impl=acc["validated"],
                   samples=acc["samples"], distribution=dist)
    res.cov["rule"] = ("(1) echo broadcast: scripts of 8-50 ops on 2-5 real echoBroadcast instances (own pushes with per-link cut/ok, forged copies first, duplicates, "
                       "undecodable / unknown-index packets, relay sends released one by one as delivered or cut, request contexts ended, stop, queue overflow), every "
                       "op compared with the Lean model (full digest of every node) and judged by the reliable-broadcast oracle; (2) scripts of 1-5 epochs on 1-4 (thorough: 1-6) real dkg.Process instances with real kyber DKG over an in-memory client: first epoch and reshares "
                       "(same set, +1, -1, threshold up/down), participant lists permuted, bundles delayed/reordered/duplicated, one slow node, one node offline "
                       "(QUAL a strict subset), completion held to just before / after / across a round boundary; evaluations = epochs run (and judged); non-trivial = distinct "
                       "(scheme, op, group size, threshold, schedule, epoch) on which at least one node completed; traces_validated = completed epochs whose every "
                       "finished DBState was reproduced field by field by the Lean asGroup / ordering / transition-time functions")
    res.cov["level_note"] = "partial: ordering, group assembly and share algebra are proved; agreement on QUAL under all schedules is PedersenSpec, sampled"


def evaluate(ctx, res, runs, acc):
    dist = acc["dist"]
    for name, lines, outs in runs:
        dist["scripts"] += 1
        scheme = None
        for k, (line, r) in enumerate(zip(lines, outs)):
            if line.startswith("net "):
                scheme = r.get("scheme")
                continue
            if r.get("error"):
                dist.setdefault("op_errors", {}).setdefault(str(r["error"])[:60], 0)
                dist["op_errors"][str(r["error"])[:60]] += 1
                continue
            if r.get("op") not in ("initial", "reshare"):
                continue
            if not D.synchronous(r):
                # the machine was too loaded for kyber's synchrony assumption (bundles within the phase): no verdict from this script
                dist["epochs_discarded_unsynchronised"] = dist.get("epochs_discarded_unsynchronised", 0) + 1
                break
            acc["evals"] += 1
            dist["epochs_attempted"] += 1
            comp = D.completed(r)
            live = r.get("members") or []
            if comp and all(m in comp for m in live):
                dist["epochs_completed_by_all_live_members"] += 1
            elif comp:
                dist["epochs_completed_partially"] += 1
            else:
                dist["epochs_not_completed"] += 1
            dist["nodes_completed"] += len(comp)
            dist["subsets_signed"] += len(r.get("subsets") or [])
            for kx, v in (r.get("stats") or {}).items():
                dist["net_stats"][kx] = dist["net_stats"].get(kx, 0) + v
            if comp:
                g = comp[sorted(comp)[0]]["fin"]["group"]
                key = f"n={len(g['nodes'])},t={g['thr']}"
                dist["n_t"][key] = dist["n_t"].get(key, 0) + 1
                dist["schemes"][scheme] = dist["schemes"].get(scheme, 0) + 1
                acc["nontriv"].add((scheme, r["op"], len(g["nodes"]), g["thr"], line.split("sched=")[1].split()[0] if "sched=" in line else "-", r["epoch"]))
            prefix = lines[:k + 1]
            bad = D.oracle_c06(r)
            for sig, why, detail in bad:
                # one replay per kind of failure is enough; the first ones come from the shortest scripts
                if sig in acc["seen"] or len([1 for _, f in res.violations if f]) >= MAX_REPORTS:
                    continue
                if res.report(sig, {"engine": "dkgrun", "kind": "impl-violates", "script": name, "ops": prefix, "oracle": why, "observed": detail}):
                    acc["seen"].add(sig)
            if any(s != D.STRADDLE_SIG for s, _, _ in bad):
                break
            if ctx["model_ok"] and comp and not any(f for _, f in res.violations):
                d = D.model_diff_c06(r, dist["model"])
                if d:
                    op, obs, expd, note = d
                    if "model" not in acc["seen"]:
                        acc["seen"].add("model")
                        res.add_violation({"engine": "dkgrun", "kind": "model-impl-diverge", "script": name, "ops": prefix + ["# model op: " + op], "observed": [obs],
                                           "expected": [expd], "note": "correspondence 'dkgrun' (asGroup / ordering / transition time) no longer checks; the C06 oracle "
                                           "accepts the implementation's answers on this run. " + note}, found=False)
                else:
                    acc["validated"] += 1
            if len(acc["samples"]) < 4 and comp:
                g = comp[sorted(comp)[0]]["fin"]["group"]
                acc["samples"].append({"script": name, "op": line, "completed_nodes": sorted(comp), "group": {"thr": g["thr"], "transition": g["transition"],
                                       "nodes": [(n["index"], n["who"]) for n in g["nodes"]], "hash": g["hash"][:16]}, "subsets": len(r.get("subsets") or [])})
