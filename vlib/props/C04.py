"""C04 — unpredictability: no honest partial for a round before that round's time on the node's own clock;
partials more than one round ahead of the clock are refused.

Engine `handler`: one real beacon.Handler (real group, real shares, fake clock, in-memory ProtocolClient that
stamps every outgoing PartialBeacon with the fake clock). Scripts choose the clock pattern (normal ticking,
bursts, stalls), the stored head the node sees (behind / level / ahead of its clock; moved through the path
the sync manager uses), the incoming partials (real signatures) and hold the run loop between taking a tick
and reading the head (stale tick).

P5 oracle, evaluated on the implementation's own answers only:
  (O1) every emission r@stamp has r >= 1 and genesis + (r-1)*period <= stamp;
  (O2) a partial the node accepted has round <= clock round + 1; a partial with round >= clock round + 2 is refused as 'future'.
P4: the same ops on the Lean model (lean/Drand/Driver/Handler.lean around Drand.Beacon.Handler.step).
"""
import glob, json, os, time
from concurrent.futures import ThreadPoolExecutor
from .. import core

ID = "C04"
MODULE = "DrandProofs.C04"
THEOREMS = ["Drand.Beacon.Handler." + t for t in [
    "c04_time_of_round_le", "c04_next_round", "c04_inv_init", "c04_inv_step", "c04_emit_rule", "c04_catchup_safe",
    "c04_tick_safe_partial", "c04_accept_window", "c04_refuse_beyond_window", "c04_no_early_emit",
    "c04_code_no_early_emit", "c04_no_early_emit_partial", "c04_counterexample", "c04_counterexample_fixed", "c04_head_bound", "c04_ticker_sound",
    "tie_bnp_round", "tie_bnp_resign", "tie_bnp_resign_round", "tie_bnp_order", "tie_tick_branch", "tie_catchup_branch",
    "tie_process_partial", "tie_ticker"]]
TRUSTED = [
    "Lean 4 kernel; axioms per theorem under coverage.axioms",
    "go2lean handler facts (tools/go2lean/handler.go): the comparisons / +1 of broadcastNextPartial, of the two branches of Handler.run and of ProcessPartialBeacon are regenerated into Gen.Handler and USED by the model; statement order, call arguments and ticker.go assignments are tied by rfl theorems",
    "the event model abstracts goroutines to events: a tick carries a round 1..roundAt(clock at processing) (ticker.go computes it from the clock when the ticker fired; proved for the driver's ticker as c04_ticker_sound); the Go scheduler, channels and clockwork's fake clock are modelled in the driver, not verified",
    "harness engine 'handler': real beacon.Handler + chainStore + aggregator + SyncManager + ticker in-process; observations: outgoing packets stamped with the fake clock at PartialBeacon call time, the stored head, SyncChain calls, and the node's own debug log lines (tick processed with which head; appended beacon seen with which current)",
    "C16 (time arithmetic) theorems are imported; the exact (Int) layer is used, C16 shows the machine layer equals it on the property's domain",
    "threshold >= 2 for c04_head_bound (a node's own partial alone never aggregates); BLS partials/recovery are real in the harness, oracle labels in the model",
]
ASSUMPTIONS = [
    "the node's clock never goes backwards (clockAdvance d, d >= 0)",
    "period is a whole number of seconds >= 1",
    "As-is code: c04_no_early_emit holds only when the stored head is not ahead of the tick's round at every tick (c04_no_early_emit_partial); the unconditional statement is proved for the corrected variant and refuted for the as-is variant (c04_counterexample), see known_findings.json",
]
KNOWN_SIG = "tick-with-head-ahead-of-clock:signs-head+1"
H = os.path.join(core.BUILD, "verifh")
D = os.path.join(core.LEAN, ".lake", "build", "bin", "vdriver")


# ---------------------------------------------------------------- parsing

def parse(line):
    """'<status> T=.. A=.. E=.. S=.. H=.. C=..[ # comment][ !flags]' -> dict"""
    body = line.split(" # ")[0]
    flags = []
    if " !" in body:
        body, fl = body.split(" !", 1)
        flags = fl.split(",")
    f = body.split()
    d = {"status": f[0] if f else "", "flags": flags, "body": body, "T": [], "A": [], "E": [], "S": [], "H": None, "C": None}
    for tok in f[1:]:
        k, _, v = tok.partition("=")
        if k in ("T", "A", "S") and v != "-":
            d[k] = v.split(",")
        elif k == "E" and v != "-":
            for e in v.split(","):
                r, rest = e.split("@")
                dt, cnt = rest.split("*")
                d["E"].append((int(r), int(dt), cnt))
        elif k in ("H", "C"):
            d[k] = int(v)
    return d


def round_at(clock, period):
    return 0 if clock < 0 else clock // period + 1


# ---------------------------------------------------------------- oracle (P5)

def oracle(seq, outs):
    """returns list of findings: dict(op_index, kind, why, known) ; kind in early-emission / window"""
    ini = seq[0].split()
    period = int(ini[3])
    res = []
    pool = {}
    for i, (op, out) in enumerate(zip(seq, outs)):
        if op.startswith("init "):
            pool = {}
        if out == "bad-op":
            continue
        if out.startswith("panic") or out.startswith("err:"):
            res.append({"i": i, "kind": "crash", "why": f"{op}: {out}", "known": False})
            continue
        d = parse(out)
        # (O1) emissions. Classification of an early emission as the recorded finding: it is the one emission
        # of round head+1 caused by a tick that the node itself logged as processed with head > tick round
        # (each such tick explains exactly one emission, early or not; with parallel goroutines the packets of
        # a tick may be observed one op later than its log line, hence the pool is kept across ops).
        for t in d["T"]:
            rho, h = map(int, t.split(":"))
            if h > rho:
                pool[h + 1] = pool.get(h + 1, 0) + 1
        for (r, dt, cnt) in d["E"]:
            k = int(cnt) if "/" not in cnt else None
            explained = k is not None and r >= 1 and pool.get(r, 0) >= k
            if explained:
                pool[r] -= k
            if r >= 1 and (r - 1) * period <= dt:
                continue
            res.append({"i": i, "kind": "early-emission", "known": explained,
                        "why": f"after `{op}` the node sent a partial for round {r} at clock genesis{dt:+d}s, but round {r} is scheduled at genesis+{(r - 1) * period}s "
                               f"(period {period}s): {(r - 1) * period - dt}s early; ticks processed in this step (round:head seen) = {d['T'] or '-'}"})
        # (O2) acceptance window
        f = op.split()
        if f[0] == "partial" and ":" in d["status"]:
            st, r = d["status"].rsplit(":", 1)
            r = int(r)
            cr = round_at(d["C"], period)
            if st == "accepted" and r > cr + 1:
                res.append({"i": i, "kind": "window", "known": False,
                            "why": f"`{op}`: a partial for round {r} was accepted while the node's clock is in round {cr} (more than one round ahead)"})
            if r >= cr + 2 and st != "future":
                res.append({"i": i, "kind": "window", "known": False,
                            "why": f"`{op}`: a partial for round {r} >= clock round {cr} + 2 was answered '{st}', not refused as a future partial"})
        if f[0] == "agg" and "accepted" in d["status"]:
            # agg signs head+1 as of before the op; head before = head of previous line
            pass
    return res


# ---------------------------------------------------------------- running

def run_impl(seqs, settle_ms=None, workers=16, procs=None):
    """run scenarios on the real node, in parallel worker processes; returns list of output-line lists.
    procs=None: the engine's default (GOMAXPROCS=1, quiescence by yielding: deterministic answers);
    procs=k>1: the node's goroutines run in parallel (answers are attributed to ops by a quiet window)."""
    if not seqs:
        return []
    env = dict(os.environ, GOMEMLIMIT="2GiB")
    if settle_ms:
        env["VERIF_SETTLE_MS"] = str(settle_ms)
    if procs:
        env["VERIF_HPROCS"] = str(procs)
    workers = max(1, min(workers, len(seqs)))
    chunks = [[] for _ in range(workers)]
    for i, s in enumerate(seqs):
        chunks[i % workers].append((i, s))

    def work(chunk):
        lines = [l for _, s in chunk for l in s]
        rc, out, err = core.run_lines(H, ["handler"], lines, timeout=3000, env=env)
        if rc != 0 or len(out) != len(lines):
            raise core.Broken("harness:handler", f"exit {rc}, {len(out)}/{len(lines)} lines: {err[-1500:]}")
        res, k = [], 0
        for i, s in chunk:
            res.append((i, out[k:k + len(s)]))
            k += len(s)
        return res
    outs = [None] * len(seqs)
    with ThreadPoolExecutor(max_workers=workers) as ex:
        for part in ex.map(work, [c for c in chunks if c]):
            for i, o in part:
                outs[i] = o
    return outs


def annotate(seq, outs):
    """model input: `adv d` gets the rounds of the ticks the node logged for that op (used by the model only to
    resolve which ticks of a multi-period Advance got through the node's 1-slot channels)"""
    res = []
    for op, out in zip(seq, outs):
        if op.startswith("adv ") and out != "bad-op" and not out.startswith("panic"):
            t = parse(out)["T"]
            res.append(op + " " + (",".join(x.split(":")[0] for x in t) if t else "-"))
        else:
            res.append(op)
    return res


def run_model(seqs, outs, variant):
    lines = [l for s, o in zip(seqs, outs) for l in annotate(s, o)]
    rc, mo, err = core.run_lines(D, ["handler", variant], lines, timeout=3000)
    if rc != 0 or len(mo) != len(lines):
        raise core.Broken("model:handler", f"exit {rc}, {len(mo)}/{len(lines)} lines: {err[-1500:]}")
    res, k = [], 0
    for s in seqs:
        res.append(mo[k:k + len(s)])
        k += len(s)
    return res


def compare(seq, outs, mouts):
    """-> (validated_ops, stop_reason or None, divergence index or None)"""
    for i, (o, m) in enumerate(zip(outs, mouts)):
        pm = parse(m) if m != "bad-op" else {"flags": [], "body": "bad-op"}
        if "invalid-event" in pm["flags"]:
            return i, None, i      # the driver fed `step` an event outside `evOk`: the theorems would not apply
        if "race" in pm["flags"] or "unmodelled" in pm["flags"]:
            return i, "race" if "race" in pm["flags"] else "unmodelled", None
        body = o.split(" # ")[0]
        if body != pm["body"]:
            if "burst" in pm["flags"]:
                return i, "burst-unresolved", None
            return i, None, i
    return len(seq), None, None


# ---------------------------------------------------------------- scenario generators

GROUPS = [(3, 2), (4, 3), (5, 3), (4, 3)]


def gen_init(r, lead=None, trans=None, base=None):
    n, thr = r.choice(GROUPS)
    period = r.choice([2, 3, 5, 10, 30])
    catchup = r.choice([0, 1, max(1, period // 2), max(1, period - 1), period]) if r.chance(1, 3) else max(1, period // 2)
    if lead is None:
        lead = r.range(1, 2 * period)
    base = base or ("bolt" if r.chance(1, 5) else "mem")
    scheme = r.choice(["chained", "unchained"])
    line = f"init {n} {thr} {period} {catchup} {scheme} {lead} {base}"
    if trans:
        line += f" {trans}"
    return line, dict(n=n, thr=thr, period=period, catchup=catchup, lead=lead)


def sc_normal(r):
    """the network works: every round the peers' partials arrive, the beacon is aggregated, time passes in steps"""
    ini, c = gen_init(r)
    p = c["period"]
    s = [ini, "start", f"adv {c['lead']}"]
    for _ in range(r.range(3, 8)):
        if r.chance(4, 5):
            s.append("agg")
            if r.chance(1, 5):
                s.append("agg")      # a threshold of fast-clocked peers: the next round too (admitted: clock round + 1)
        if r.chance(1, 4):
            s.append(f"partial {r.range(1, c['n'] - 1)} c+1 good")
        if r.chance(1, 6):
            s.append("put 1")
        # one period, in one step or in pieces (catch-up period first, one second, ...)
        left = p
        if r.chance(1, 2):
            for d in r.shuffle([c["catchup"], 1, p // 2]):
                if 0 < d < left and r.chance(2, 3):
                    s.append(f"adv {d}")
                    left -= d
        s.append(f"adv {left}")
    return s + ["settle"]


def sc_stall(r):
    ini, c = gen_init(r)
    p = c["period"]
    s = [ini, "start", f"adv {c['lead']}"]
    for _ in range(r.range(1, 3)):
        s += ["agg", f"adv {p}"]
    k = r.range(2, 5)
    s += [f"adv {p}"] * k            # nobody else signs: the chain halts, the node keeps re-signing head+1
    if r.chance(1, 2):
        s.append(f"adv {r.range(1, 3) * p + r.range(0, p - 1)}")   # and a stall of the node itself
    for _ in range(r.range(2, k + 3)):   # the network is back: catch-up mode
        s.append("agg")
        d = c["catchup"] if r.chance(3, 4) else r.range(0, p)
        if d:
            s.append(f"adv {d}")
    s += [f"adv {p}", "agg", f"adv {p}", "settle"]
    return s


def sc_burst(r):
    ini, c = gen_init(r)
    p = c["period"]
    s = [ini, "start", f"adv {c['lead'] + (r.range(0, 3) * p + r.range(0, p) if r.chance(1, 3) else 0)}"]
    for _ in range(r.range(2, 6)):
        k = r.choice([1, 1, 2, 3, 5])
        if r.chance(1, 2):
            s.append("agg")
        if r.chance(1, 3):
            s.append(f"put {r.range(1, 4)}")
        s.append(f"adv {k * p + (r.range(0, p - 1) if r.chance(1, 2) else 0)}")
    return s + ["settle"]


def sc_ahead(r):
    """the stored head behind / level / ahead of the clock at tick time"""
    ini, c = gen_init(r)
    p = c["period"]
    s = [ini, "start", f"adv {c['lead']}"]
    for _ in range(r.range(0, 2)):
        s += ["agg", f"adv {p}"]
    s.append(f"put {r.range(1, 5)}")
    for _ in range(r.range(2, 7)):
        s.append(f"adv {p}")
        if r.chance(1, 4):
            s.append(f"put {r.range(1, 2)}")
        if r.chance(1, 4):
            s.append("agg")
    return s + ["settle"]


def sc_gated(r):
    """the run loop takes a tick, is held before reading the head, the world moves on, then it reads"""
    ini, c = gen_init(r)
    p = c["period"]
    s = [ini, "start", f"adv {c['lead']}"]
    for _ in range(r.range(1, 3)):
        s += ["agg", f"adv {p}"]
    s += ["gate", f"adv {p}"]
    for _ in range(r.range(0, 3)):
        s.append(f"adv {p}")
    s.append(f"put {r.range(1, 5)}")
    if r.chance(1, 3):
        s.append(f"partial {r.range(1, c['n'] - 1)} c+1 good")
    s += ["release", f"adv {p}", f"adv {p}", "settle"]
    return s


def sc_restart(r):
    ini, c = gen_init(r, base=r.choice(["mem", "bolt"]))
    p = c["period"]
    s = [ini, "start", f"adv {c['lead']}"]
    for _ in range(r.range(1, 4)):
        s += ["agg", f"adv {p}"]
    s += ["stop", f"adv {r.range(0, 4) * p + r.range(0, p - 1)}", "restart"]
    if r.chance(2, 3):
        s.append(f"put {r.range(1, 6)}")      # what the sync on start-up brought (behind / level / ahead)
    s.append("catchup")
    for _ in range(r.range(2, 5)):
        s.append(f"adv {p}" if r.chance(3, 4) else f"adv {r.range(1, 2 * p)}")
        if r.chance(1, 2):
            s.append("agg")
    return s + ["settle"]


def sc_late_join(r):
    """handler created after genesis: Start refuses, Catchup runs"""
    n, thr = r.choice(GROUPS)
    period = r.choice([2, 3, 5, 10])
    lead = -r.range(1, 5 * period)
    s = [f"init {n} {thr} {period} {max(1, period // 2)} {r.choice(['chained', 'unchained'])} {lead} mem", "start"]
    if r.chance(2, 3):
        s.append(f"put {r.range(1, 8)}")
    s.append("catchup")
    for _ in range(r.range(2, 5)):
        s.append(f"adv {period}")
        if r.chance(1, 2):
            s.append("agg")
    return s + ["settle"]


def sc_window(r):
    ini, c = gen_init(r)
    p = c["period"]
    s = [ini]
    for k in (1, 2, 0):
        s.append(f"partial {r.range(1, c['n'] - 1)} c+{k} good")      # before genesis: round 1 admitted, 2 refused
    s += ["start", f"adv {c['lead'] + r.range(0, 4) * p + r.range(0, p - 1)}"]
    if r.chance(1, 2):
        s.append(f"put {r.range(1, 4)}")
    for _ in range(r.range(5, 12)):
        spec = r.choice(["c-1", "c+0", "c+1", "c+1", "c+2", "c+2", "c+3", "c+7", "h+0", "h+1", "h+2", "h+5"])
        kind = r.choice(["good", "good", "good", "badsig", "badidx"])
        s.append(f"partial {r.range(0, c['n'] - 1)} {spec} {kind}")
        if r.chance(1, 4):
            s.append(f"adv {r.choice([1, p - 1, p, p + 1])}")
    return s + ["settle"]


def sc_transition(r):
    tr = r.range(3, 7)
    ini, c = gen_init(r, trans=tr, lead=-r.range(0, 2) * 1)
    p = c["period"]
    s = [ini]
    s.append(f"put {r.choice([tr - 1, tr - 1, tr - 2, tr, tr + 1])}")      # synced from the previous group
    s.append("transition")
    t = -c["lead"]
    while t < (tr + 2) * p:
        d = p if r.chance(3, 4) else r.range(1, 2 * p)
        s.append(f"adv {d}")
        t += d
        if r.chance(1, 3):
            s.append("agg")
    return s + ["settle"]


def sc_reshare(r):
    ini, c = gen_init(r)
    p = c["period"]
    s = [ini, "start", f"adv {c['lead']}"]
    for _ in range(r.range(1, 2)):
        s += ["agg", f"adv {p}"]
    s.append(f"reshare {r.range(4, 6)}")
    for _ in range(r.range(4, 7)):
        s += ["agg", f"adv {p}"]
        if r.chance(1, 5):
            s.append("put 2")
    return s + ["settle"]


def sc_random(r):
    ini, c = gen_init(r)
    p = c["period"]
    s = [ini, "start", f"adv {c['lead']}"]
    gated = False
    for _ in range(r.range(10, 30)):
        k = r.below(100)
        if k < 30:
            s.append(f"adv {r.choice([p, p, p, c['catchup'] or 1, 1, p - 1 or 1, 2 * p, 3 * p + 1])}")
        elif k < 50:
            s.append("agg")
        elif k < 62:
            s.append(f"put {r.range(1, 3)}")
        elif k < 80:
            s.append(f"partial {r.range(0, c['n'] - 1)} {r.choice(['c+0', 'c+1', 'c+2', 'h+1', 'h+2', 'h+3'])} {r.choice(['good', 'good', 'badsig'])}")
        elif k < 86 and not gated:
            s.append("gate")
            gated = True
        elif k < 94 and gated:
            s.append("release")
            gated = False
        else:
            s.append("settle")
    if gated:
        s.append("release")
    return s + [f"adv {p}", "settle"]


def sc_pregenesis_restart(r):
    """a daemon restart between the end of the DKG and the genesis time: the beacon is loaded in catch-up mode
    (drand_daemon: StartBeacon(catchup=true)) while its clock is still before genesis; nothing may be signed
    until the genesis time, whatever the store holds and however the clock then advances"""
    n, thr = r.choice(GROUPS)
    period = r.choice([2, 3, 5, 10, 30])
    lead = r.range(2, 3 * period)
    s = [f"init {n} {thr} {period} {max(1, period // 2)} {r.choice(['chained', 'unchained'])} {lead} {r.choice(['mem', 'mem', 'bolt'])}"]
    if r.chance(1, 3):
        s += ["start", "stop", "restart"]
    s.append("catchup")
    left = lead
    for _ in range(r.range(0, 2)):
        d = r.range(1, max(1, left - 1))
        if d < left:
            s.append(f"adv {d}")
            left -= d
            if r.chance(1, 2):
                s.append(f"partial {r.range(1, n - 1)} c+1 good")
    s += ["settle", f"adv {left}"]
    for _ in range(r.range(1, 3)):
        s.append(f"adv {period}")
        if r.chance(1, 2):
            s.append("agg")
    return s + ["settle"]


KINDS = [("normal", sc_normal), ("stall", sc_stall), ("burst", sc_burst), ("ahead", sc_ahead), ("gated", sc_gated),
         ("restart", sc_restart), ("latejoin", sc_late_join), ("window", sc_window), ("transition", sc_transition),
         ("reshare", sc_reshare), ("pregenesis", sc_pregenesis_restart), ("random", sc_random)]


# ---------------------------------------------------------------- shrinking / confirmation

def finding_key(f):
    return (f["kind"], f["known"])


def shrink(seq, want, idx, budget_s=60):
    """delta-debug the op list on the real node: cut after the failing op, then drop ops (never the `init`) while
    a finding of the same class remains"""
    t0 = time.time()

    def fails(s):
        o = run_impl([s], workers=1)[0]
        return any(finding_key(f) == want for f in oracle(s, o))
    cur = list(seq[:idx + 1])
    if not fails(cur):
        cur = list(seq)
    changed = True
    while changed and time.time() - t0 < budget_s:
        changed = False
        for i in range(len(cur) - 2, 0, -1):
            cand = cur[:i] + cur[i + 1:]
            if len(cand) > 1 and fails(cand):
                cur, changed = cand, True
                break
            if time.time() - t0 > budget_s:
                break
    return cur


def model_guided(rng, count, limit=24):
    """S(b): the regenerated model follows the source; let it predict schedules on which the property's oracle
    fails with a class other than the recorded finding. Returns candidate op sequences, shortest first."""
    scen = []
    for name, g in KINDS:
        for i in range(count):
            scen.append(g(rng.fork(f"guided:{name}{i}")))
    lines = [l for s in scen for l in s]
    rc, mo, err = core.run_lines(D, ["handler"], lines, timeout=3000)   # variant as regenerated from the source
    if rc != 0 or len(mo) != len(lines):
        return []
    cands, k = [], 0
    for s in scen:
        o = mo[k:k + len(s)]
        k += len(s)
        bad = [f for f in oracle(s, o) if not f["known"]]
        if bad:
            cands.append(s[:bad[0]["i"] + 1] + ["settle"])
    cands.sort(key=len)
    seen, out = set(), []
    for c in cands:
        if tuple(c) not in seen:
            seen.add(tuple(c))
            out.append(c)
    return out[:limit]


class Stats:
    def __init__(self):
        self.dist = {"scenarios_by_kind": {}, "ops_by_kind": {}, "partial_status": {}, "tick_head_minus_tick_round": {},
                     "tick_head_minus_clock_round": {}, "emissions": 0, "catchup_emissions": 0, "catchup_launches": 0,
                     "early_emissions_known_class": 0, "gate_held_ticks": 0, "burst_advances": 0, "bad_partials_emitted": 0,
                     "window_probes_by_offset": {}}
        self.nontriv = set()
        self.total_ops = 0
        self.scenarios = 0
        self.validated = 0
        self.validated_ops = 0
        self.stops = {}
        self.samples = []

    def add(self, kind, seq, o):
        d_ = self.dist
        self.scenarios += 1
        d_["scenarios_by_kind"][kind] = d_["scenarios_by_kind"].get(kind, 0) + 1
        period = int(seq[0].split()[3])
        emitted = False
        for op, line in zip(seq, o):
            self.total_ops += 1
            k = op.split()[0]
            d_["ops_by_kind"][k] = d_["ops_by_kind"].get(k, 0) + 1
            if line == "bad-op" or line.startswith("panic") or line.startswith("err:"):
                d_["ops_by_kind"]["(bad-op)"] = d_["ops_by_kind"].get("(bad-op)", 0) + 1
                continue
            d = parse(line)
            if "badpartials=" in line and "badpartials=0" not in line:
                d_["bad_partials_emitted"] += 1
            if k == "partial" and ":" in d["status"]:
                st, r = d["status"].rsplit(":", 1)
                d_["partial_status"][st] = d_["partial_status"].get(st, 0) + 1
                off = str(max(-3, min(4, int(r) - round_at(d["C"], period))))
                key = f"clock{int(off):+d}:{st}"
                d_["window_probes_by_offset"][key] = d_["window_probes_by_offset"].get(key, 0) + 1
            for t in d["T"]:
                rho, h = map(int, t.split(":"))
                key = str(max(-4, min(4, h - rho)))
                d_["tick_head_minus_tick_round"][key] = d_["tick_head_minus_tick_round"].get(key, 0) + 1
                key = str(max(-4, min(4, h - round_at(d["C"], period))))
                d_["tick_head_minus_clock_round"][key] = d_["tick_head_minus_clock_round"].get(key, 0) + 1
            if len(d["T"]) > 1:
                d_["burst_advances"] += 1
            if k == "release" and d["status"] == "ok":
                d_["gate_held_ticks"] += 1
            for a in d["A"]:
                if a.endswith(":1"):
                    d_["catchup_launches"] += 1
            if d["E"]:
                emitted = True
                ne = sum(int(c) for (_, _, c) in d["E"] if "/" not in c)
                d_["emissions"] += ne
                d_["catchup_emissions"] += max(0, ne - len(d["T"]))
        if emitted:
            self.nontriv.add(tuple(seq))


def explore(ctx, res):
    rng = ctx["rng"]
    deep = ctx["deep"]
    tier = ctx["tier"]
    per_batch = 12
    n_batches = 3 if tier == "quick" else 120
    budget_s = 60 if tier == "quick" else 20 * 60
    deep_budget_s = 200 if tier == "quick" else 22 * 60   # when something broke: keep looking for a concrete input
    workers = 16
    t0 = time.time()
    st = Stats()
    corpus = []
    for f in sorted(glob.glob(os.path.join(core.VERIF, "corpus", ID, "*.json"))):
        corpus.append(("corpus:" + os.path.basename(f), json.load(open(f))["ops"]))
    if ctx.get("replay"):
        corpus = [("replay", json.load(open(ctx["replay"]))["ops"])]
        n_batches = 1
    reported = set()
    known_confirmed = 0
    try:
        gen = open(os.path.join(core.LEAN, "Gen", "Handler.lean")).read()
    except OSError:
        gen = ""
    # which variant the SOURCE is, according to the regenerated fact (guard `if upon.Round > current.round {return}`)
    src_variant = "fixed" if "def bnpSkipAhead : Bool := true" in gen else "asis"
    variants = {"asis": 0, "fixed": 0}
    div_reported = 0
    stop = False
    deepen = deep          # a proof / translator / correspondence break: search harder for a concrete input
    guided_done = False
    b = -1
    while True:
        b += 1
        if stop or ctx.get("replay") and b > 0:
            break
        if b > 0 and time.time() - t0 > (deep_budget_s if deepen else budget_s):
            break
        if b >= (max(n_batches, 12) if deepen else n_batches):
            break
        scen = list(corpus) if b == 0 else []
        if deepen and not guided_done and ctx["model_ok"] and not ctx.get("replay"):
            guided_done = True
            for c in model_guided(rng.fork("guided"), 400 if tier == "quick" else 4000):
                scen.append(("model-guided", c))
            st.dist["model_guided_candidates"] = sum(1 for k, _ in scen if k == "model-guided")
        if not ctx.get("replay"):
            for name, g in KINDS:
                for i in range(per_batch):
                    scen.append((name, g(rng.fork(f"{name}{b}_{i}"))))
        seqs = [s for _, s in scen]
        outs = run_impl(seqs, workers=workers)
        viol = []
        for si, ((kind, seq), o) in enumerate(zip(scen, outs)):
            st.add(kind, seq, o)
            for f in oracle(seq, o):
                viol.append((si, f))
        if b == 0:
            st.samples = [{"kind": scen[i][0], "ops": seqs[i][:14], "impl": [x.split(' # ')[0] for x in outs[i][:14]]}
                          for i in sorted(set([0, len(scen) // 3, 2 * len(scen) // 3, len(scen) - 1]))]
        # ---- P5 verdicts: confirm by re-running the schedule, classify, shrink, report
        for si, f in viol:
            if f["known"]:
                st.dist["early_emissions_known_class"] += 1
            key = finding_key(f)
            if key in reported:
                continue
            seq = seqs[si]
            o2 = run_impl([seq], workers=1)[0]
            again = [g for g in oracle(seq, o2) if finding_key(g) == key]
            if not again:
                st.dist["unreproduced_oracle_hits"] = st.dist.get("unreproduced_oracle_hits", 0) + 1
                continue
            reported.add(key)
            small = shrink(seq, key, again[0]["i"], 20 if f["known"] else (60 if tier == "quick" else 240))
            so = run_impl([small], workers=1)[0]
            why = [g for g in oracle(small, so) if finding_key(g) == key]
            if not why:
                small, so, why = seq, o2, again
            rep = {"engine": "handler", "kind": "impl-violates", "ops": small, "observed": [x.split(" # ")[0] for x in so],
                   "oracle": why[0]["why"], "scenario_kind": scen[si][0]}
            sig = KNOWN_SIG if f["known"] else {"early-emission": "early-emission:not-explained-by-a-tick-with-head-ahead",
                                                "window": "acceptance-window:partial-beyond-clock-round+1-not-refused"}.get(f["kind"], f["kind"])
            if res.report(sig, rep):
                stop = True       # a genuine violation with a concrete input: no need to look further
            else:
                known_confirmed += 1
        # ---- the same kinds with the node's goroutines truly parallel (GOMAXPROCS=4): P5 oracle only
        if not stop and not ctx.get("replay"):
            par = [(name, g(rng.fork(f"par:{name}{b}_{i}"))) for name, g in KINDS for i in range(2)]
            pouts = run_impl([s_ for _, s_ in par], workers=8, procs=4)
            for (kind, seq), o in zip(par, pouts):
                st.dist["parallel_scenarios_oracle_only"] = st.dist.get("parallel_scenarios_oracle_only", 0) + 1
                st.total_ops += len(seq)
                for f in oracle(seq, o):
                    if f["known"]:
                        st.dist["early_emissions_known_class"] += 1
                        continue
                    key = finding_key(f)
                    if key in reported:
                        continue
                    o2 = run_impl([seq], workers=1, procs=4)[0]
                    again = [g_ for g_ in oracle(seq, o2) if finding_key(g_) == key]
                    if not again:
                        st.dist["unreproduced_oracle_hits"] = st.dist.get("unreproduced_oracle_hits", 0) + 1
                        continue
                    reported.add(key)
                    rep = {"engine": "handler", "kind": "impl-violates", "ops": seq[:again[0]["i"] + 1], "observed": [x.split(" # ")[0] for x in o2[:again[0]["i"] + 1]],
                           "oracle": again[0]["why"], "scenario_kind": kind + " (GOMAXPROCS=4: run with VERIF_HPROCS=4)"}
                    sig = {"early-emission": "early-emission:not-explained-by-a-tick-with-head-ahead",
                           "window": "acceptance-window:partial-beyond-clock-round+1-not-refused"}.get(f["kind"], f["kind"])
                    if res.report(sig, rep):
                        stop = True
        # ---- P4: model diff (both variants; the implementation must match one of them throughout)
        if ctx["model_ok"] and not stop:
            results = {}
            for v in ("asis", "fixed"):
                mo = run_model(seqs, outs, v)
                results[v] = ([compare(s, o, m) for s, o, m in zip(seqs, outs, mo)], mo)
            nd = {v: sum(1 for c in results[v][0] if c[2] is not None) for v in results}
            other = "fixed" if src_variant == "asis" else "asis"
            variant = src_variant if nd[src_variant] <= nd[other] else other
            variants[variant] += 1
            cmp_, mo = results[variant]
            for si, (c, m) in enumerate(zip(cmp_, mo)):
                st.validated_ops += c[0]
                if c[1]:
                    st.stops[c[1]] = st.stops.get(c[1], 0) + 1
                if c[2] is None:
                    if c[1] is None:
                        st.validated += 1
                    continue
                # a divergence: believe it only if it reproduces (twice) at an op
                seq = seqs[si]
                same, last = 0, None
                for _ in range(2):
                    o2 = run_impl([seq], workers=1)[0]
                    m2 = run_model([seq], [o2], variant)[0]
                    c2 = compare(seq, o2, m2)
                    if c2[2] is not None:
                        same += 1
                        last = (o2, m2, c2)
                if same < 2:
                    st.stops["divergence-not-reproduced"] = st.stops.get("divergence-not-reproduced", 0) + 1
                    continue
                deepen = True
                if div_reported >= 2:
                    continue
                div_reported += 1
                o2, m2, c2 = last
                j = c2[2]
                res.add_violation({"engine": "handler", "kind": "model-impl-diverge", "variant": variant, "ops": seq[:j + 1],
                                   "observed": [o2[j].split(" # ")[0]], "expected": [m2[j]], "scenario_kind": scen[si][0],
                                   "note": "correspondence 'handler' no longer checks at this op; the no-early-emission / acceptance-window oracle accepts the implementation's answers on this schedule"},
                                  found=False)
    res.cov["variant_matched"] = "asis" if variants["asis"] >= variants["fixed"] else "fixed"
    res.cov["variant_in_source"] = src_variant
    if variants["asis"] and variants["fixed"]:
        res.cov["variant_matched"] = f"mixed {variants}"
    other = "fixed" if src_variant == "asis" else "asis"
    if variants[other] and not res.violations:
        res.add_violation({"engine": "handler", "kind": "model-impl-diverge",
                           "note": f"the regenerated source fact says variant '{src_variant}' but the node behaves like variant '{other}' on head-ahead ticks"},
                          found=False)
    res.cov.update(evaluations=st.total_ops, distinct_nontrivial=len(st.nontriv), traces_validated_against_impl=st.validated)
    res.cov["ops_validated_against_model"] = st.validated_ops
    res.cov["model_diff_stopped_early"] = st.stops
    res.cov["scenarios"] = st.scenarios
    res.cov["known_finding_witnesses_confirmed"] = known_confirmed
    res.cov["rule"] = ("scenarios = corpus witnesses + per kind (normal ticking with peers' partials; chain halt then catch-up mode; multi-period clock bursts; "
                       "head put behind/level/ahead of the clock through Store().Put; run loop held between taking a tick and reading the head; stop/restart+Catchup; "
                       "late join; acceptance window with real partial signatures incl. before genesis, bad signature, index outside the group, own index; Transition; "
                       "TransitionNewGroup; random mixes), over groups (3,2) (4,3) (5,3), periods 2..30 s, catch-up 0..period, chained/unchained, memdb/bolt; "
                       "evaluations = op lines executed on the real Handler; non-trivial = distinct scenario in which the node emitted at least one partial; "
                       "a scenario counts as validated when every op line equals the Lean model's line (the model diff of a scenario stops at the first op the model flags as a race inside the node)")
    res.cov["samples"] = st.samples
    res.cov["distribution"] = st.dist
    res.cov["explore_wall_s"] = round(time.time() - t0, 1)
