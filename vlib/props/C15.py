"""C15 — private keys and shares never leave the node (PARTIAL: model noninterference + reader list + byte scan)."""
import base64, glob, json, os, re
from .. import core, savetrace

ID = "C15"
MODULE = "DrandProofs.C15"
THEOREMS = ["Drand.Secrecy." + t for t in [
    "tie_rwFilePermission", "tie_dkgPerm_variant", "tie_createSecureFile", "tie_saveShape", "tie_saveTarget", "tie_saveCallSites",
    "tie_secretTomlers", "tie_dkgStore", "tie_fileCreators", "tie_fileTable",
    "c15_noninterference", "c15_signing_only_via_sign", "c15_dkg_only_via_deal", "c15_secret_only_through_crypto",
    "c15_channel_inventory", "c15_readers_allowed", "c15_readers_exact", "c15_no_secret_sinks", "c15_secret_saves_secure",
    "c15_secret_file_classes", "c15_secure_save_never_exposes", "c15_secure_save_final_mode", "c15_plain_save_exposes",
    "c15_secure_save_atomic_never_exposes", "c15_secure_save_atomic_final", "c15_plain_save_atomic_mode",
    "c15_secure_save_inplace_never_exposes", "c15_secure_save_code_never_exposes",
    "c15_plain_save_keeps_mode", "c15_modes_general", "c15_modes_fixed", "c15_modes_partial", "c15_modes_counterexample",
    "c15_modes_code", "c15_isInfix_iff", "c15_scan_complete", "c15_scan_sound"]]
TRUSTED = [
    "Lean 4 kernel; axioms per theorem under coverage.axioms",
    "PARTIAL claim: noninterference is a theorem about the model (constructors typed Pub → …); it is tied to the code only by (T) the syntactic secret-reader / sink / Save-call-site / file-creator lists and (D) a byte scan of sampled executions",
    "go2lean secrets extractor: go/ast plus struct/interface/function tables of /repo and a hand table of 9 kyber types; a selection of Key/Share/V on an unresolvable receiver is reported as a read (over-approximation); flows through interfaces, reflection, unsafe or cgo are not seen",
    "harness engine 'secrecy': real daemons in one process, recording TCP proxies in front of every private and control port, HTTP/2+HPACK de-framing by golang.org/x/net/http2, one debug log sink per node, stdout capture, syscall.Umask",
    "the crypto oracle of the model (sign, deal): that a signature / an encrypted deal does not reveal its key is an assumption (IdealSig / encryption), not proved",
    "python scanner (bytes.find) cross-checked against the Lean scanner `leak` (proved sound and complete for the 7 listed encodings) on every captured chunk and on planted positive controls",
    "harness engine 'savetrace' under strace (openat, close, write, rename*, unlink*, chmod, fchmod*, fsync): the real key store's Save "
    "calls; vlib/savetrace.py replays the recorded system calls on a POSIX file model (path -> mode, content; fd -> path, offset) and "
    "evaluates the mode oracle after every call on every file below the folder, whatever its name (so the temporary file of a "
    "write-then-rename Save is covered); the replay's final state must equal stat + read of the real folder; skipped (and said so in "
    "evidence) when strace is not installed",
    "modelled, not verified: POSIX open/chmod/umask semantics (mode of a new file = perm &^ umask; chmod ignores umask; O_TRUNC keeps the mode), bbolt's Open(path, mode) = os.OpenFile(O_CREATE, mode)",
]
ASSUMPTIONS = [
    "secrets scanned for: each node's long-term scalar and each epoch's share scalar, as kyber MarshalBinary (32 bytes big-endian); encodings raw, hex (lower/upper), base64 std/url padded/unpadded (model + python), plus little-endian, decimal, Scalar.String() and unaligned base64 (python only)",
    "a secret split across two gRPC messages or two log lines is not detected (within one message HTTP/2 DATA frames are re-assembled)",
]

MODEL_ENCODINGS = ["raw", "hex", "HEX", "b64", "b64-nopad", "b64url", "b64url-nopad"]
CHUNK, OVERLAP = 8192, 192
SIG_DKGDB = "file-mode:dkg.db:group-readable"
CLASS_DISPLAY = {"dkg-db": "dkg.db", "private-key": "drand_id.private", "share": "dist_key.private", "group": "drand_group.toml",
                 "public-key": "drand_id.public", "chain-db": "drand.db", "backup": "backup"}


def model_encodings(s):
    b = base64.b64encode(s)
    u = base64.urlsafe_b64encode(s)
    return [("raw", s), ("hex", s.hex().encode()), ("HEX", s.hex().upper().encode()), ("b64", b), ("b64-nopad", b.rstrip(b"=")),
            ("b64url", u), ("b64url-nopad", u.rstrip(b"="))]


def stable_b64(s, k, enc):
    """the part of base64(prefix ++ s ++ suffix) that does not depend on a k-byte prefix / any suffix"""
    a = enc(b"\x00" * k + s + b"\x00" * 3)
    b = enc(b"\xff" * k + s + b"\xff" * 3)
    same = [i for i in range(min(len(a), len(b))) if a[i] == b[i]]
    if not same:
        return b""
    # longest run of equal positions
    best, cur = (0, 0), [same[0], same[0]]
    for i in same[1:]:
        if i == cur[1] + 1:
            cur[1] = i
        else:
            if cur[1] - cur[0] > best[1] - best[0]:
                best = tuple(cur)
            cur = [i, i]
    if cur[1] - cur[0] > best[1] - best[0]:
        best = tuple(cur)
    return a[best[0]:best[1] + 1]


def extra_encodings(s, text):
    le = s[::-1]
    out = [("raw-le", le), ("hex-le", le.hex().encode()), ("HEX-le", le.hex().upper().encode()),
           ("decimal", str(int.from_bytes(s, "big")).encode()), ("decimal-le", str(int.from_bytes(le, "big")).encode())]
    if text and len(text) >= 16:
        out.append(("scalar-string", text.encode()))
    for k in (1, 2):
        out.append((f"b64-unaligned{k}", stable_b64(s, k, base64.b64encode)))
        out.append((f"b64url-unaligned{k}", stable_b64(s, k, base64.urlsafe_b64encode)))
    return [(n, e) for n, e in out if len(e) >= 16]


def first_hit(needles, blob):
    for name, e in needles:
        i = blob.find(e)
        if i >= 0:
            return name, i
    return None


def perm_suffix(perms):
    return "group-readable" if perms in (0o40, 0o60) else f"perm-{perms:03o}"


def norm_label(label):
    """harness label → model channel label, or None for bytes that are not produced by a node"""
    if label.startswith("netraw:"):
        return "netraw"
    if label.endswith("-headers"):
        return "grpc-headers"
    if label.endswith(":req") and (label.startswith("grpc:/drand.Control/") or label.startswith("grpc:/dkg.DKGControl/")):
        return None  # control-port requests are made by the harness (the CLI's role), not by a node
    return label


def parse(lines):
    d = {"secrets": [], "outs": [], "files": [], "dirs": [], "matrix": [], "lives": [], "steps": [], "errs": [], "info": {}, "ends": [],
         "umask_at_start": None, "done": False, "ni": [], "twins": []}
    for l in lines:
        f = l.split("\t")
        k = f[0]
        if k == "SECRET":
            d["secrets"].append({"node": int(f[1]), "kind": f[2], "raw": bytes.fromhex(f[3]), "text": f[4] if len(f) > 4 else "",
                                 "life": len(d["lives"]) - 1})
        elif k == "OUT":
            d["outs"].append({"label": f[1], "node": f[2], "data": b"" if f[3] == "-" else bytes.fromhex(f[3]), "life": len(d["lives"]) - 1})
        elif k == "FILE":
            d["files"].append({"node": int(f[1]), "rel": f[2], "cls": f[3], "mode": int(f[4], 8), "umask": int(f[5], 8),
                               "data": b"" if f[6] == "-" else bytes.fromhex(f[6]), "life": len(d["lives"]) - 1})
        elif k == "DIR":
            d["dirs"].append({"node": int(f[1]), "rel": f[2], "mode": int(f[3], 8), "umask": int(f[4], 8)})
        elif k == "NI":
            d["ni"].append({"twin": f[1], "label": f[2], "a": b"" if f[3] == "-" else bytes.fromhex(f[3]), "b": b"" if f[4] == "-" else bytes.fromhex(f[4])})
        elif k == "TWIN":
            d["twins"].append((f[1], f[2], f[3]))
        elif k == "MATRIX":
            d["matrix"].append((f[1], f[2]))
        elif k == "LIFE":
            d["lives"].append({"idx": int(f[1]), "scheme": f[2], "n": int(f[3]), "reshare": f[4], "joiner": f[5], "restart": f[6], "beacon_id": f[7]})
        elif k == "STEP":
            d["steps"].append((len(d["lives"]) - 1, f[1], f[2]))
        elif k == "ERR":
            d["errs"].append((len(d["lives"]) - 1, f[1], f[2] if len(f) > 2 else ""))
        elif k == "INFO":
            d["info"][(int(f[1]), f[2])] = int(f[3])
        elif k == "LIFE-END":
            d["ends"].append((int(f[1]), f[2]))
        elif k == "UMASK-AT-START":
            d["umask_at_start"] = f[1]
        elif k == "DONE":
            d["done"] = True
    return d


def run_harness(seed, tier):
    h = os.path.join(core.BUILD, "verifh")
    env = dict(os.environ, GOMEMLIMIT="6GiB")
    rc, lines, err = core.run_lines(h, ["secrecy", str(seed), tier], [], timeout=160 if tier == "quick" else 1700, env=env)
    return rc, lines, err


def chunks(data):
    if len(data) <= CHUNK:
        return [data]
    out, i = [], 0
    while i < len(data):
        out.append(data[i:i + CHUNK])
        if i + CHUNK >= len(data):
            break
        i += CHUNK - OVERLAP
    return out


def static_facts():
    """what go2lean extracted on this run, compared with the hand-written allow-list (for diagnostics and evidence)"""
    try:
        gen = open(os.path.join(core.LEAN, "Gen", "Secrets.lean")).read()
        model = open(os.path.join(core.LEAN, "Drand", "Secrecy.lean")).read()
    except OSError as e:
        return {"error": str(e)}
    def lst(src, name):
        m = re.search(r"def " + name + r" : List String := \[(.*?)\n?\]", src, flags=re.S)
        return re.findall(r'^\s*"((?:[^"\\]|\\.)*)"', m.group(1), flags=re.M) if m else []
    readers = lst(gen, "secretReaders")
    allowed = lst(model, "allowedReaders")
    only_reconciling = set(re.findall(r'"([^"]+)"', (re.search(r"def reconcileReaders : List String := \[(.*?)\]", model, flags=re.S) or [None, ""])[1]))
    m = re.search(r"def secretSinks : List String := \[(.*)\]", gen)
    sinks = re.findall(r'"((?:[^"\\]|\\.)*)"', m.group(1)) if m else []
    m = re.search(r"def secretFunctionsAnalysed : Nat := (\d+)", gen)
    return {"functions_analysed": int(m.group(1)) if m else 0, "secret_readers": len(readers),
            "readers_not_on_allow_list": sorted(set(readers) - set(allowed)), "allow_list_entries_without_reader": sorted(set(allowed) - set(readers) - (only_reconciling if not (only_reconciling & set(readers)) else set())),
            "secret_sinks": sinks,
            "save_call_sites": re.findall(r'^\s*\("([^"]+)", "([^"]+)", "([^"]+)", (true|false)\)', gen, flags=re.M),
            "file_creators": len(lst(gen, "fileCreators"))}


def explore(ctx, res):
    if ctx.get("replay"):
        # a replay file names the harness invocation (seed, tier) and the capture / file that failed: re-run exactly that
        r = json.load(open(ctx["replay"]))
        args = r.get("harness_args") or ["secrecy", str(r.get("seed", ctx["seed"])), r.get("tier", ctx["tier"])]
        ctx = dict(ctx, seed=int(args[1]), rng=core.Rng(int(args[1])))
        res.cov["replayed"] = {"file": ctx["replay"], "harness_args": args, "signature": r.get("signature")}
        return _explore(ctx, res, args[2])
    st = static_facts()
    res.cov["static_facts"] = st
    if ctx["deep"] and ctx["tier"] == "quick" and not ctx.get("_c15_second_pass"):
        # something upstream (translator / proof / build) broke: look for a concrete failing input, cheapest budget first
        _explore(dict(ctx, _c15_second_pass=True), res, "quick")
        if any(found for _, found in res.violations):
            return
        res.violations.clear()
        res.known.clear()
    _explore(ctx, res, "thorough" if ctx["deep"] else ctx["tier"])
    if ctx["deep"] and not any(found for _, found in res.violations):
        # nothing emitted by the sampled executions shows it, but the static obligations no longer hold: say which
        if st.get("readers_not_on_allow_list") or st.get("secret_sinks") or st.get("allow_list_entries_without_reader"):
            res.add_violation({"engine": "go2lean:secrets", "kind": "proof-broken",
                               "theorem": "Drand.Secrecy.c15_readers_allowed / c15_readers_exact / c15_no_secret_sinks",
                               "ops": ["go2lean " + core.REPO + " → lean/Gen/Secrets.lean"],
                               "observed": ["functions reading secret-bearing fields that are not on the allow-list: " + ", ".join(st.get("readers_not_on_allow_list", [])),
                                            "formatting / logging calls with a secret argument: " + "; ".join(st.get("secret_sinks", [])),
                                            "allow-list entries that no longer read a secret: " + ", ".join(st.get("allow_list_entries_without_reader", []))],
                               "note": "the byte scan of the sampled executions found no leak (the new code may not be reached); review the function and either remove the read or add it to allowedReaders with a reason"},
                              found=False)


def _explore(ctx, res, tier):
    rng = ctx["rng"]
    seed = ctx["seed"]
    d = None
    attempts = []
    for attempt in range(2):
        rc, lines, err = run_harness(seed + 1000 * attempt, tier)
        d = parse(lines)
        ok = rc == 0 and d["done"] and not d["errs"] and all(r == "ok" for _, r in d["ends"]) and all(r == "ok" for _, r in d["matrix"]) \
            and all(t[2] == "ok" for t in d["twins"])
        attempts.append({"rc": rc, "errs": d["errs"][:3], "ends": d["ends"]})
        if ok:
            break
        # a scripted life that did not complete is a harness problem (timing under load), unless a leak is already visible:
        # still evaluate what was captured below, and retry once for completeness
        if attempt == 1 or not d["secrets"]:
            break
    life_complete = rc == 0 and d["done"] and not d["errs"] and all(r == "ok" for _, r in d["ends"]) and all(t[2] == "ok" for t in d["twins"])
    attempts[-1]["twins"] = d["twins"]

    # ---- secrets (deduplicated by value; a share that does not change between epochs is one secret)
    secrets = {}
    for s in d["secrets"]:
        key = (s["node"], s["raw"])
        if key not in secrets:
            secrets[key] = dict(s, kinds=[s["kind"]], needles_model=model_encodings(s["raw"]), needles_extra=extra_encodings(s["raw"], s["text"]))
        elif s["kind"] not in secrets[key]["kinds"]:
            secrets[key]["kinds"].append(s["kind"])
    secrets = list(secrets.values())
    evaluations = 0
    viol = []       # (signature, replay dict)
    label_stats = {}
    secret_files_ok = {}
    unmodelled_files = {}

    def scenario(life):
        if life is None or life < 0 or life >= len(d["lives"]):
            return ["verifh secrecy %d %s" % (seed, tier), "file-mode matrix (no daemon)"]
        L = d["lives"][life]
        return ["verifh secrecy %d %s" % (seed, tier),
                f"life {L['idx']}: scheme={L['scheme']} nodes={L['n']} reshare={L['reshare']} joiner={L['joiner']} restart={L['restart']} beacon_id={L['beacon_id']}"]

    # ---- P5a: nothing that left a node contains a secret
    for o in d["outs"]:
        st = label_stats.setdefault(o["label"], {"blobs": 0, "bytes": 0})
        st["blobs"] += 1
        st["bytes"] += len(o["data"])
        for s in secrets:
            evaluations += 1
            hit = first_hit(s["needles_model"] + s["needles_extra"], o["data"])
            if hit:
                name, pos = hit
                nl = norm_label(o["label"]) or o["label"]
                ctxt = o["data"][max(0, pos - 48):pos + 96]
                viol.append((f"leak:{nl}:{s['kinds'][0].split('-')[0]}:{name}",
                             {"engine": "secrecy", "kind": "impl-violates", "ops": scenario(o["life"]) + [f"capture {o['label']} (served by / sent to node {o['node']})"],
                              "observed": [f"{name} encoding of node {s['node']}'s {s['kinds'][0]} scalar at offset {pos} of a {len(o['data'])}-byte blob",
                                           "context(hex): " + ctxt.hex(), "context(text): " + ctxt.decode("latin-1").encode("unicode_escape").decode()],
                              "oracle": "no response, packet, HTTP body or log line may contain a node's long-term scalar or share scalar in any listed encoding"}))

    # ---- P5a': noninterference on the real code: twin folders (same public files, different secret scalars) answer identically
    ni_equal = 0
    for x in d["ni"]:
        evaluations += 1
        d["outs"].append({"label": x["label"], "node": "twin", "data": x["a"], "life": None})
        d["outs"].append({"label": x["label"], "node": "twin", "data": x["b"], "life": None})
        if x["a"] == x["b"]:
            ni_equal += 1
        else:
            i = next((j for j in range(min(len(x["a"]), len(x["b"]))) if x["a"][j] != x["b"][j]), min(len(x["a"]), len(x["b"])))
            viol.append((f"noninterference:{x['label']}",
                         {"engine": "secrecy", "kind": "impl-violates",
                          "ops": ["verifh secrecy %d %s" % (seed, tier), f"twin pair {x['twin']}: two daemons on folders with identical public files and different long-term / share scalars", f"query {x['label']}"],
                          "observed": [f"answers differ from byte {i}", "A: " + x["a"][max(0, i - 16):i + 48].hex(), "B: " + x["b"][max(0, i - 16):i + 48].hex()],
                          "oracle": "a non-signing answer must not depend on the node's secret scalars"}))
    for o in d["outs"][-2 * len(d["ni"]):] if d["ni"] else []:
        for s in secrets:
            evaluations += 1
            hit = first_hit(s["needles_model"] + s["needles_extra"], o["data"])
            if hit:
                viol.append((f"leak:{o['label']}:{s['kinds'][0].split('-')[0]}:{hit[0]}",
                             {"engine": "secrecy", "kind": "impl-violates", "ops": ["verifh secrecy %d %s" % (seed, tier), "twin daemon", f"query {o['label']}"],
                              "observed": [f"{hit[0]} encoding of node {s['node']}'s {s['kinds'][0]} scalar at offset {hit[1]}"],
                              "oracle": "no response may contain a node's long-term scalar or share scalar"}))

    # ---- P5b: files
    for f in d["files"]:
        found = []
        for s in secrets:
            evaluations += 1
            hit = first_hit(s["needles_model"] + s["needles_extra"], f["data"])
            if hit:
                found.append((s, hit[0]))
        f["found"] = found
        for s, enc in found:
            if s["node"] != f["node"]:
                viol.append((f"leak:file:{f['cls']}:{s['kinds'][0].split('-')[0]}:{enc}",
                             {"engine": "secrecy", "kind": "impl-violates", "ops": scenario(f["life"]) + [f"read node {f['node']}:{f['rel']}"],
                              "observed": [f"file of node {f['node']} contains node {s['node']}'s {s['kinds'][0]} ({enc})"],
                              "oracle": "a node's secret must not be present in another node's files"}))
        if found and f["mode"] & 0o77:
            s, enc = found[0]
            disp = CLASS_DISPLAY.get(f["cls"], f["cls"])
            viol.append((f"file-mode:{disp}:{perm_suffix(f['mode'] & 0o77)}",
                         {"engine": "secrecy", "kind": "impl-violates",
                          "ops": scenario(f["life"]) + [f"umask {f['umask']:03o}", f"stat node {f['node']}:{f['rel']}"],
                          "observed": [f"mode {f['mode']:04o}", f"content holds node {s['node']}'s {s['kinds'][0]} scalar ({enc})"],
                          "oracle": "a file whose content contains the node's long-term or share scalar must have mode & 077 = 0"}))
        elif found:
            secret_files_ok[f["cls"]] = secret_files_ok.get(f["cls"], 0) + 1
        if f["cls"].startswith("other:"):
            unmodelled_files[f["rel"]] = unmodelled_files.get(f["rel"], 0) + 1

    # ---- P5c: every file that ever holds a secret DURING key.Save (temporary file included), from the recorded system calls
    st_info = {"strace": savetrace.have_strace(), "runs": []}
    save_model_ops = []   # (driver op line, observed answer, scenario ops)
    if st_info["strace"]:
        G = "multibeacon/default/groups/"
        for um in ([0o022, 0] if tier == "quick" else [0, 0o022, 0o027, 0o077, 0o002]):
            td = savetrace.run(seed, um)
            rp = savetrace.replay(td, um)
            evaluations += rp.n_calls
            sc = [f"strace -f -e trace={savetrace.TRACE_SET} verifh savetrace {seed} {um:o}"]
            for marker, what, rel, mode, kind in rp.exposures:
                base = rel.split("/")[-1]
                viol.append((f"file-mode:{base}:while-saving:{perm_suffix(mode & 0o77)}",
                             {"engine": "savetrace", "kind": "impl-violates", "ops": sc + [marker, what],
                              "observed": [f"after {what} the file {rel} has mode {mode:04o} and its content holds the {kind} scalar"],
                              "oracle": "at every moment of key.Save, every file whose content contains the share / long-term scalar — the temporary file "
                                        "included — must have mode & 077 = 0", "harness_args_savetrace": [str(seed), f"{um:o}"]}))
            bad_calls = [(n, w, r_) for n, w, r_ in td["calls"] if (r_ != "ok") != (n == 8)]
            if bad_calls:
                raise core.Broken("harness:savetrace", f"unexpected results {bad_calls[:3]}")
            err_text = [r_ for n, w, r_ in td["calls"] if n == 8][0].encode()
            for k, v in td["secrets"].items():
                evaluations += 1
                if v.encode() in err_text or bytes.fromhex(v) in err_text:
                    viol.append((f"leak:log:node:{k.split('-')[0]}:hex",
                                 {"engine": "savetrace", "kind": "impl-violates", "ops": sc + ["CALL 8 SaveShare into a missing folder"],
                                  "observed": [err_text.decode("latin-1")[:300]], "oracle": "the error key.Save returns (it is logged verbatim) must not carry the value being saved"}))
            observed = {}
            for call_no, sec, tgt in ((2, 1, "dist_key.private"), (3, 1, "dist_key.private"), (5, 1, "dist_key.private"),
                                      (6, 0, "drand_group.toml"), (7, 0, "drand_group.toml")):
                ss = savetrace.save_states(rp, call_no, G + tgt, G + tgt + ".tmp")
                if ss is None:
                    raise core.Broken("harness:savetrace", f"no recorded system call for CALL {call_no}")
                pre = ["-" if m is None else f"{m:o}" for m in ss["pre"]]
                observed[call_no] = ("rename " if ss["renamed"] else "inplace ") + " ".join(ss["states"])
                save_model_ops.append((f"save {sec} {um:o} {pre[0]} {pre[1]}", observed[call_no], sc + [f"CALL {call_no}"]))
            st_info["runs"].append({"umask": f"{um:03o}", "system_calls_replayed": len(td["events"]), "oracle_evaluations": rp.n_calls,
                                    "exposures": len(rp.exposures), "share_save_fresh": observed[2], "share_save_over_stale_tmp": observed[5],
                                    "group_save_again": observed[7]})

    # ---- corpus: the recorded witnesses must be among the cases this run evaluated
    corpus_state = {}
    for cf in sorted(glob.glob(os.path.join(core.VERIF, "corpus", ID, "*.json"))):
        c = json.load(open(cf))
        still = [f for f in d["files"] if f["cls"] == "dkg-db" and f["node"] >= 100 and f["found"] and f["mode"] & 0o77]
        evaluated = [f for f in d["files"] if f["cls"] == "dkg-db" and f["node"] >= 100]
        corpus_state[os.path.basename(cf)] = {"signature": c.get("signature"), "evaluated": len(evaluated), "still_fails": len(still)}

    # ---- report property violations (known findings are filtered by signature)
    seen_sig = set()
    reported = 0
    for sig, rep in viol:
        if sig in seen_sig:
            continue
        seen_sig.add(sig)
        if reported < 4 and res.report(sig, dict(rep, harness_args=["secrecy", str(seed), tier])):
            reported += 1
    unknown_viol = [s for s in seen_sig if s != SIG_DKGDB]

    # ---- P4: model diff
    model_lines = []
    tags = []
    for f in d["files"]:
        if not f["cls"].startswith("other:"):
            model_lines.append(f"file {f['cls']} {f['umask']:o}")
            tags.append(("file", f))
    for x in d["ni"]:
        st = label_stats.setdefault(x["label"], {"blobs": 0, "bytes": 0})
        st["blobs"] += 2
        st["bytes"] += len(x["a"]) + len(x["b"])
    labels = sorted(label_stats)
    for lb in labels:
        nl = norm_label(lb)
        if nl is not None:
            model_lines.append("chan " + nl)
            tags.append(("chan", lb))
    # scanner cross-check: every captured chunk against all secrets of that run, plus planted positive controls
    all_model_needles = [(si, n, e) for si, s in enumerate(secrets) for n, e in s["needles_model"]]
    scan_jobs = []
    crng = rng.fork("controls")
    blobs = [o["data"] for o in d["outs"]] + [f["data"] for f in d["files"]]
    budget = 400 if tier == "quick" else 4000
    all_chunks = [c for b in blobs for c in chunks(b) if c]
    if len(all_chunks) > budget:
        pick = set(crng.shuffle(list(range(len(all_chunks))))[:budget])
        all_chunks = [c for i, c in enumerate(all_chunks) if i in pick]
    per_secret = max(1, len(secrets))
    for ci, c in enumerate(all_chunks):
        s = secrets[ci % per_secret] if secrets else None
        if s is None:
            break
        scan_jobs.append((s, c, None))
    for s in secrets[:12]:
        for name, e in s["needles_model"]:
            filler = bytes(crng.below(256) for _ in range(crng.range(0, 300)))
            tail = bytes(crng.below(256) for _ in range(crng.range(0, 300)))
            scan_jobs.append((s, filler + e + tail, name))
        # near miss: one byte of the secret changed
        bad = bytearray(s["raw"])
        bad[crng.below(len(bad))] ^= 1 << crng.below(8)
        scan_jobs.append((s, b"xx" + bytes(bad) + b"yy" + bytes(bad).hex().encode(), "near-miss"))
    for s, c, _ in scan_jobs:
        model_lines.append(f"scan {s['raw'].hex()} {c.hex() if c else '-'}")
        tags.append(("scan", None))
    for line, obs, sc in save_model_ops:
        model_lines.append(line)
        tags.append(("save", (obs, sc)))

    validated = 0
    diverged = None
    control_failures = []
    if ctx["model_ok"] and model_lines:
        drv = os.path.join(core.LEAN, ".lake", "build", "bin", "vdriver")
        rc2, mo, err2 = core.run_lines(drv, ["secrecy"], model_lines, timeout=900)
        if rc2 != 0 or len(mo) != len(model_lines):
            raise core.Broken("model:secrecy", (err2 or "")[-800:] + f" ({len(mo)} answers for {len(model_lines)} ops)")
        sj = iter(scan_jobs)
        for line, (kind, obj), ans in zip(model_lines, tags, mo):
            if kind == "file":
                f = obj
                want_mode, want_sec = (ans.split() + ["", ""])[:2]
                ok = ans != "unknown-file" and int(want_mode, 8) == f["mode"] and (not f["found"] or want_sec == "secret")
                if not ok and diverged is None:
                    diverged = {"ops": scenario(f["life"]) + [f"umask {f['umask']:03o}", f"stat node {f['node']}:{f['rel']}", line],
                                "observed": [f"mode {f['mode']:04o} " + ("holds a secret" if f["found"] else "no secret found")], "expected": [ans],
                                "note": "file table of the model (creator, mode under umask, secrecy) no longer matches the files the real code writes"}
                elif ok:
                    validated += 1
            elif kind == "save":
                obs, sc = obj
                if ans != obs and diverged is None:
                    diverged = {"ops": sc + [line], "observed": [obs], "expected": [ans],
                                "note": "the states (mode, content) the target and its temporary sibling go through during the real key.Save, as "
                                        "reconstructed from the recorded system calls, are not the ones the model's Save protocol "
                                        "(Drand.Secrecy.codeSaveProtocol, variant from Gen.saveRenamesOverTarget) goes through"}
                elif ans == obs:
                    validated += 1
            elif kind == "chan":
                if ans == "unknown-channel":
                    if diverged is None:
                        diverged = {"ops": [line, f"harness label {obj}"], "observed": [f"{label_stats[obj]['blobs']} blobs, {label_stats[obj]['bytes']} bytes emitted"],
                                    "expected": ["a channel of Drand.Secrecy.channels"],
                                    "note": "bytes left a node on a path the model does not enumerate; add it to the model (and decide its kind) or remove the emission"}
                else:
                    validated += 1
            else:
                s, c, ctrl = next(sj)
                py = first_hit(s["needles_model"], c)
                py_ans = "leak:" + py[0] if py else "clean"
                if ans != py_ans:
                    control_failures.append({"op": line[:200], "lean": ans, "python": py_ans, "control": ctrl})
                elif ctrl is not None and ctrl != "near-miss" and not py_ans.startswith("leak:"):
                    control_failures.append({"op": line[:200], "lean": ans, "python": py_ans, "control": ctrl, "why": "planted encoding not found"})
                elif ctrl == "near-miss" and py_ans != "clean":
                    control_failures.append({"op": line[:200], "lean": ans, "python": py_ans, "control": ctrl, "why": "near miss reported as leak"})
                else:
                    validated += 1
        if control_failures:
            raise core.Broken("oracle:scanner", json.dumps(control_failures[:3]))
    # secret found in a file class the model does not know, with tight permissions: the oracle is content, the model is not
    for f in d["files"]:
        if f["cls"].startswith("other:") and f["found"] and diverged is None and not (f["mode"] & 0o77):
            diverged = {"ops": scenario(f["life"]) + [f"read node {f['node']}:{f['rel']}"], "observed": [f"mode {f['mode']:04o}, holds {f['found'][0][0]['kinds'][0]}"],
                        "expected": ["no secret outside private-key, share, dkg-db"], "note": "a new secret-holding file class; the model's file table must list it"}
    if diverged is not None and not unknown_viol:
        res.add_violation(dict(diverged, engine="secrecy", kind="model-impl-diverge", harness_args=["secrecy", str(seed), tier]), found=False)

    if not life_complete and not unknown_viol:
        raise core.Broken("harness:secrecy", json.dumps(attempts)[:1500] + " stderr: " + (err or "")[-600:])

    # ---- coverage
    exercised = sorted({norm_label(l) for l in labels if norm_label(l)})
    file_classes = sorted({f["cls"] for f in d["files"]})
    rpc_ok = sorted({k[1][7:] for k in d["info"] if k[1].startswith("rpc-ok:")})
    rpc_err = sorted({k[1][8:] for k in d["info"] if k[1].startswith("rpc-err:")})
    res.cov["evaluations"] = evaluations + len(model_lines)
    res.cov["distinct_nontrivial"] = len(exercised) + len({(f["cls"], f["umask"]) for f in d["files"]})
    res.cov["rule"] = ("generator: a fixed script (key generation, DKG, ≥3 rounds, every control/public/protocol/HTTP endpoint incl. error paths, backup, reshare "
                       "[thorough: with a joiner and a leaver on alternate schemes], transition, restart + sync) run on real in-process daemons; quick = 1 scheme chosen by seed, "
                       "thorough = all 5 schemes; plus the real file-creating code under umasks 0, 022, 027, 077, 002; plus noninterference twins (two daemons on folders equal in every public file, different secret scalars, 17 non-signing endpoints compared byte for byte; quick 1 pair, thorough 5). evaluations = (captured blob or file) × (distinct secret) scans + model ops; "
                       "distinct_nontrivial = distinct output channels (gRPC method × direction, HTTP route, log sink, raw stream) that carried at least one non-empty blob "
                       "+ distinct (file class, umask) pairs stat'ed")
    res.cov["traces_validated_against_impl"] = validated
    res.cov["claim"] = "partial"
    res.cov["explanation"] = ("PARTIAL (DESIGN.md §6): theorems are about the model and the regenerated facts; the code is tied by the syntactic reader/sink/Save/file-creator lists and by this sampled byte scan. "
                              "Exercised emitting paths are listed under distribution.channels_exercised; distribution.channels_not_exercised lists modelled channels this run did not see.")
    samples = []
    for o in d["outs"]:
        if o["label"] in ("grpc:/drand.Control/PublicKey:resp", "grpc:/dkg.DKGControl/DKGStatus:resp", "grpc:/drand.Protocol/PartialBeacon:req", "http:/{hash}/info") and \
                not any(x.get("label") == o["label"] for x in samples):
            samples.append({"label": o["label"], "node": o["node"], "bytes": len(o["data"]), "head_hex": o["data"][:48].hex(), "secrets_scanned": len(secrets), "verdict": "clean"})
    for f in d["files"]:
        if f["node"] in (0, 101) and f["cls"] in ("dkg-db", "share", "private-key", "group"):
            samples.append({"file": f["rel"], "node": f["node"], "umask": f"{f['umask']:03o}", "mode": f"{f['mode']:04o}",
                            "holds": [s["kinds"][0] + ":" + e for s, e in f["found"]][:2]})
    res.cov["samples"] = samples[:12]
    all_model = set()
    if ctx["model_ok"]:
        # ask the model which of its channels were not seen (the inventory is the list in Drand/Secrecy.lean)
        src = open(os.path.join(core.LEAN, "Drand", "Secrecy.lean")).read()
        all_model = set(re.findall(r'(?:pubChan|label :=) "([^"]+)"', src))
    res.cov["distribution"] = {
        "tier_run": tier, "lives": d["lives"], "steps": [f"{l}:{n}:{t}" for l, n, t in d["steps"]],
        "umask_at_process_start": d["umask_at_start"], "daemon_sets_umask": False,
        "secrets": len(secrets), "secret_kinds": sorted({k for s in secrets for k in s["kinds"]}),
        "blobs": len(d["outs"]), "bytes_scanned": sum(len(o["data"]) for o in d["outs"]) + sum(len(f["data"]) for f in d["files"]),
        "channels_exercised": exercised, "channels_not_exercised": sorted(all_model - set(exercised)),
        "bytes_by_family": {fam: sum(v["bytes"] for k, v in label_stats.items() if k.startswith(fam)) for fam in ("grpc:", "netraw:", "http:", "log:")},
        "rpc_ok": rpc_ok, "rpc_error_paths": rpc_err,
        "file_classes": file_classes, "secret_files_owner_only": secret_files_ok, "unmodelled_public_files": sorted(unmodelled_files)[:20],
        "dir_modes": sorted({f"{x['rel'].split('/')[-1] if x['rel'] != '.' else '<config folder>'}:{x['mode']:o}@umask{x['umask']:o}" for x in d["dirs"]})[:40],
        "model_ops": {"file": sum(1 for t in tags if t[0] == "file"), "chan": sum(1 for t in tags if t[0] == "chan"), "scan": len(scan_jobs)},
        "scanner_controls": sum(1 for j in scan_jobs if j[2] is not None),
        "noninterference_twins": {"pairs": len(d["twins"]), "schemes": [t[1] for t in d["twins"]], "answers_compared": len(d["ni"]), "equal": ni_equal,
                                  "endpoints": sorted({x["label"] for x in d["ni"]})},
        "corpus": corpus_state, "violation_signatures": sorted(seen_sig), "attempts": attempts,
        "save_under_syscall_recorder": st_info,
    }
