"""C14 — no message from the network can crash or wedge a node (PARTIAL: see TRUSTED / the manifest text)."""
import glob, json, os
from .. import core, httpw

ID = "C14"
MODULE = "DrandProofs.C14Http"   # imports DrandProofs.C14 (dispatch model, lock relation)
THEOREMS = ["Drand.Daemon." + t for t in [
    "tie_nilDerefs", "tie_listeners", "tie_explicit_regions", "tie_echo_nonblocking", "c14_code_still_serves",
    "c14_no_self_deadlock", "c14_read_reentries", "c14_locks_released", "c14_peer_regions_panic_free",
    "c14_detector_sees_prefix_deadlock",
    "c14_peer_recovers", "c14_control_does_not_recover",
    "c14_total_peer", "c14_total_control_wire", "c14_panic_sites", "c14_panic_keeps_state", "c14_wire_panics_peer_only",
    "c14_phase_moves_legal", "c14_still_serves", "c14_still_serves_histories", "c14_still_serves_partial",
    "c14_still_serves_counterexample", "c14_wedge_only_by_overflow",
    "c14_beacon_total", "c14_beacon_wire_no_panic", "c14_beacon_never_blocks", "c14_http_total"]] + ["Drand.Http." + t for t in [
    # the waiter / watch logic of the public HTTP handler (model Drand/Http/Waiters.lean), every finite event list
    "inv_step", "inv_run", "c14_http_no_panic_no_block", "c14_http_send_safe", "c14_http_pending_open", "c14_http_closed_only_when_done",
    "c14_http_lock_discipline", "c14_http_latest_reset", "wSends_spec", "releaseLock_spec", "c14_http_cancel_completes",
    "c14_http_delivery_notifies_all", "c14_http_released_waiter_completes", "c14_http_watch_loop_alive", "c14_http_health_status",
    "tie_waiter_channel", "tie_eval_regions", "tie_cancel_branch", "tie_notify_region", "tie_fail_region",
    "tie_beacons_lock_table", "c14_http_beacons_guarded", "c14_http_beacons_guarded_partial", "c14_http_beacons_counterexample"]]
TRUSTED = [
    "Lean 4 kernel; axioms per theorem under coverage.axioms",
    "go2lean lock-fact walker (syntactic: Lock/RLock/Unlock/defer per method, receiver-internal same-goroutine calls; dies on unbalanced shapes), nil-dereference extractor (direct field chains vs getters, earlier `== nil` return guards), listener facts (interceptor chains, registered services) — regenerated every run, tied by tie_* / used by the theorems",
    "the dispatch model is hand-derived decision logic (PARTIAL): Go-level panics or blocking it does not predict are found only by the differential run, which samples a finite request lattice",
    "oracle labels of the model: 'this proposal/execute packet is the leader's valid signed one', 'this DKG bundle carries a valid participant signature' (set by construction in the generator, never from the implementation's answer)",
    "modelled, not verified: sync.Mutex/RWMutex semantics, Go channel semantics, grpc-go (delivery, go-grpc-middleware recovery turning a handler panic into codes.Internal), net/http per-connection recover, kyber, bbolt",
    "harness engine 'dispatch': real dkg.Process (real bolt dkg store, stub BeaconIdentifier, in-memory DKGClient), real beacon.Handler over a real trimmed bolt store, core.DrandDaemon/BeaconProcess assembled by export shims (the real constructors need a key store, config folder and ports), served by the production net.NewGRPCPrivateGateway on loopback",
    "HTTP waiter / watch logic (handler/http getRand, watchWithTimeout, Watch, start): small-step model Drand/Http/Waiters.lean with every cut point an event; proved for every finite event list "
    "(DrandProofs/C14Http.lean); go2lean facts tools/go2lean/httpw.go (lock regions, waiter channel capacity, lock table of DrandHandler.beacons); harness engine 'httpw' (real DrandHandler, scripted fake client, "
    "concurrent requests with cancellable contexts, a gate channel that holds the watcher inside its notification loop, one child process per script so that a crash is an outcome)",
    "not exercised: the control listener as a network endpoint (its handlers are called in-process), a daemon started from disk with the repo's test scaffolding, TLS, metrics endpoints, concurrent request interleavings (requests are sequential)"]
ASSUMPTIONS = ["single initial-epoch DKG world (three joiners, no remaining/leaving nodes); one beacon id ('default')",
               "requests are processed one at a time (no concurrent handlers); cross-type lock ordering is not analysed"]

H = lambda: os.path.join(core.BUILD, "verifh")

PHASES = ["fresh", "proposed", "joined", "executing", "complete", "closed", "closedx"]
IDS = ["absent", "known", "unknown", "malformed"]
ADDRS = ["empty", "leader", "me", "other", "stranger"]
SIGS = ["empty", "b1", "b3", "b4", "right", "big", "trunc", "flip", "tpl"]
DBODIES = ["nil", "empty", "nometa", "nobundle", "deal.nil", "deal.empty", "deal.junk", "deal.nocommit", "deal.nilelem", "deal.big",
           "resp.nil", "resp.empty", "resp.nilelem", "resp.junk", "just.nil", "just.empty", "just.nilelem", "just.junk", "just.big"]
BODIES = ["none", "prop.nil", "prop.empty", "prop.noleader", "prop.junk", "prop.nilelem", "prop.epoch2", "prop.valid",
          "acc.nil", "acc.empty", "acc.stranger", "acc.member", "rej.nil", "rej.empty", "rej.stranger", "rej.member",
          "abort.nil", "abort.empty", "abort.reason", "exec.nil", "exec.empty", "exec.time", "exec.valid", "dkg.nil"] + \
         ["dkg." + d for d in DBODIES if d != "nil"]
NONWIRE_TOK = (".nil", "nilelem")

BPHASES = ["running", "nodkg", "stopped"]
HASHES = ["absent", "known", "unknown", "malformed", "big"]
VERS = ["none", "ok", "bad", "pre"]
ROUNDS = ["zero", "one", "past", "last", "next", "beyond", "max"]
PSIGS = ["empty", "b1", "b2", "valid", "own", "outidx", "hugeidx", "badsig", "trunc", "big"]
PREVS = ["right", "empty", "junk", "big"]
CONNS = ["none", "self", "empty", "nilelem", "closed3"]
HPREFIXES = ["none", "known", "unknown", "malformed", "odd", "huge"]
HROUNDS = ["zero", "one", "last", "beyond", "far", "max", "overflow", "neg", "alpha"]

SIG_ECHO = "dispatch:echo-application-channel-full:blocking-send-under-locks"
SIG_STATUS = "dispatch:protocol-status:serial-dials-under-state-rlock"


def is_wire(op):
    """could this request have been produced by unmarshalling bytes (python-side, independent of the model)"""
    f = op.split()
    if f[0] == "http":
        return True
    if f[0] in ("packet", "bcast", "status", "partial", "sync", "pubrand", "pubstream", "chaininfo", "identity", "pstatus"):
        if f[2] == "nil":
            return False
    if f[0] == "packet" and any(f[7].endswith(t) or t in f[7] for t in NONWIRE_TOK):
        return False
    if f[0] == "bcast" and any(f[3].endswith(t) or t in f[3] for t in NONWIRE_TOK):
        return False
    if f[0] == "pstatus" and f[4] == "nilelem":
        return False
    return True


def endpoint_recovers(op):
    """is the endpoint registered on the peer-facing listener (recovery interceptor) — from internal/net/listener.go"""
    return op.split()[0] != "status"


# ------------------------------------------------------------------------------------------------ generators

def dkg_lattice(rng, tier, phase):
    ops = []
    layers = ["proc", "daemon", "grpc"]
    pk = lambda l, p, m, i, a, s, b, d: f"packet {l} {p} {m} {i} {a} {s} {b} {d}"
    for l in layers:
        inproc = l != "grpc"
        if inproc:
            ops.append(pk(l, "nil", "nil", "known", "leader", "b4", "none", "known"))
        for b in BODIES:
            if not inproc and not is_wire(pk(l, "some", "some", "known", "leader", "b4", b, "known")):
                continue
            ops.append(pk(l, "some", "nil", "known", "leader", "b4", b, "known"))
            core_bodies = ("none", "prop.nil", "prop.noleader", "prop.junk", "prop.valid", "acc.nil", "acc.empty", "rej.empty", "abort.empty",
                           "exec.nil", "exec.empty", "exec.valid", "dkg.nil", "dkg.empty", "dkg.nometa", "dkg.deal.nil", "dkg.deal.junk", "dkg.resp.empty", "dkg.just.junk")
            full = (l == "proc" and b in core_bodies) or tier == "thorough"
            for i in IDS:
                sigs = SIGS if full else ["b4"]
                for s in sigs:
                    if s == "big" and not (b in ("none", "prop.valid", "dkg.resp.empty") or tier == "thorough"):
                        continue
                    dids = IDS if (b.startswith("dkg.") and b != "dkg.nil" and i == "known" and s == "b4") else ["known"]
                    for d in dids:
                        ops.append(pk(l, "some", "some", i, "leader", s, b, d))
            if not full:
                for s in SIGS:
                    if b in ("none", "prop.valid", "prop.noleader", "exec.valid", "abort.empty", "dkg.resp.empty", "dkg.deal.junk", "acc.empty"):
                        ops.append(pk(l, "some", "some", "known", "leader", s, b, "known"))
        for a in ADDRS:
            for b in ("prop.valid", "prop.junk", "exec.valid", "abort.empty", "acc.member"):
                for s in ("b4", "tpl", "flip"):
                    ops.append(pk(l, "some", "some", "known", a, s, b, "known"))
        # BroadcastDKG and DKGStatus
        if inproc:
            ops.append(f"bcast {l} nil nobundle known")
        for b in DBODIES:
            if b == "nil":
                continue
            for d in IDS:
                o = f"bcast {l} some {b} {d}"
                if inproc or is_wire(o):
                    ops.append(o)
        if inproc:
            ops.append(f"status {l} nil known")
            for i in IDS:
                ops.append(f"status {l} some {i}")
    # the valid, state-changing packets are kept out of the shuffled part (they come last, below), so that the lattice
    # really runs in the phase it is meant for
    def moves(o):
        f = o.split()
        return f[0] == "packet" and f[2] == "some" and f[3] == "some" and f[4] == "known" and f[5] == "leader" and f[6] == "tpl" and f[7] in ("prop.valid", "exec.valid")
    ops = rng.shuffle([o for o in ops if not moves(o)])
    # at most two accepted signed bundles per instance (a third fills the channel, a fourth is the known finding)
    # (a stopped broadcaster does not record hashes, so there a duplicate occupies a slot as well)
    tail = ["bcast proc some resp.signed known", "bcast proc some resp.dup known", "bcast grpc some resp.signed known"]
    if phase != "closedx":
        tail.append("bcast grpc some resp.dup known")
    tail.append("packet proc some some known leader b4 dkg.resp.signed unknown")
    # the valid, state-changing packets last
    for l in layers:
        tail += [pk(l, "some", "some", "known", "leader", "tpl", "prop.valid", "known"),
                 pk(l, "some", "some", "known", "leader", "tpl", "prop.valid", "known"),
                 pk(l, "some", "some", "known", "leader", "tpl", "exec.valid", "known"),
                 pk(l, "some", "some", "known", "leader", "tpl", "exec.valid", "known"),
                 pk(l, "some", "some", "known", "leader", "b4", "dkg.resp.empty", "known")]
    return [f"phase {phase}"] + ops + tail


def dkg_histories(rng, tier):
    """random walks through the legal arrows fresh→proposed and joined→executing with junk in between, on all layers"""
    seqs = []
    n = 6 if tier == "quick" else 300
    for k in range(n):
        r = rng.fork(f"hist{k}")
        start = r.choice(["fresh", "joined", "proposed", "executing"])
        layer = r.choice(["proc", "daemon", "grpc"])
        seq = [f"phase {start}"]
        for _ in range(r.range(10, 40) if tier == "quick" else r.range(20, 90)):
            c = r.below(100)
            if c < 12:
                seq.append(f"packet {layer} some some known leader tpl prop.valid known")
            elif c < 24:
                seq.append(f"packet {layer} some some known leader tpl exec.valid known")
            elif c < 30:
                seq.append(f"status {'daemon' if layer == 'grpc' else layer} some {r.choice(IDS)}")
            elif c < 45:
                b = r.choice([d for d in DBODIES if d != "nil"])
                o = f"bcast {layer} some {b} {r.choice(IDS)}"
                if layer != "grpc" or is_wire(o):
                    seq.append(o)
            else:
                b = r.choice(BODIES)
                o = f"packet {layer} some some {r.choice(IDS)} {r.choice(ADDRS)} {r.choice([s for s in SIGS if s != 'big'])} {b} {r.choice(IDS)}"
                if layer != "grpc" or is_wire(o):
                    seq.append(o)
        seqs.append(seq)
    return seqs


def metas(tier):
    out = ["nil"]
    for i in IDS:
        for h in HASHES:
            if h == "big" and tier != "thorough" and i != "known":
                continue
            for v in (VERS if (i == "known" and h in ("known", "absent")) else ["ok"]):
                out.append(f"{i}/{h}/{v}")
    return out


def beacon_lattice(rng, tier, phase):
    ops = []
    ms = metas(tier)
    if phase == "running":
        ops.append("partial handler nil nil zero empty empty")
        for r in ROUNDS:
            for ps in PSIGS:
                for pv in PREVS:
                    if (ps == "big" or pv == "big") and not (r == "next"):
                        continue
                    ops.append(f"partial handler some nil {r} {ps} {pv}")
        ops.append("sync fn nil nil zero")
        for r in ROUNDS:
            ops.append(f"sync fn some nil {r}")
    for l in ("bp", "daemon", "grpc"):
        inproc = l != "grpc"
        lm = ms if l != "bp" else ["nil", "known/known/ok"]
        if inproc:
            for op in ("partial {l} nil nil zero empty empty", "sync {l} nil nil zero", "pubrand {l} nil nil zero", "pubstream {l} nil nil zero",
                       "chaininfo {l} nil nil", "identity {l} nil nil", "pstatus {l} nil nil none"):
                ops.append(op.format(l=l))
        for m in lm:
            for r in ("zero", "last", "next", "beyond", "max"):
                for ps in ("empty", "valid", "own", "outidx", "badsig", "trunc"):
                    if m not in ("nil", "known/known/ok") and not (r == "next" and ps in ("valid", "empty")):
                        continue
                    ops.append(f"partial {l} some {m} {r} {ps} right")
            ops.append(f"partial {l} some {m} next valid junk")
            ops.append(f"chaininfo {l} some {m}")
            ops.append(f"identity {l} some {m}")
            for c in CONNS:
                if c == "nilelem" and not inproc:
                    continue
                if m in ("nil", "known/known/ok", "unknown/absent/ok") or c == "none":
                    ops.append(f"pstatus {l} some {m} {c}")
            for r in ROUNDS:
                if r == "next" and not (tier == "thorough" and m == "nil" and l == "daemon"):
                    continue  # waits one beacon period (3 s + 1 s) before failing
                if m in ("nil", "known/known/ok", "known/known/bad", "unknown/absent/ok", "absent/unknown/ok") or r == "zero":
                    ops.append(f"pubrand {l} some {m} {r}")
        # streams cost a quiet period each: a reduced set
        sm = ["nil", "known/known/ok", "known/known/bad", "unknown/absent/ok", "absent/unknown/ok"] if l != "bp" else ["nil"]
        for m in sm:
            for r in (("zero", "one", "past", "last", "beyond", "max") if m == "nil" else ("one", "beyond")):
                ops.append(f"sync {l} some {m} {r}")
                if m == "nil" or r == "one":
                    ops.append(f"pubstream {l} some {m} {r}")
    # the public HTTP API
    for pre in HPREFIXES:
        for ep in ["latest", "info", "health"] + ["round:" + r for r in HROUNDS]:
            ops.append(f"http {pre} {ep}")
    ops += ["http none chains", "http known chains"]
    return [f"bphase {phase}"] + rng.shuffle(ops)


# ------------------------------------------------------------------------------------------------ oracle

def oracle(seq, outs):
    """C14 evaluated directly on the implementation's answers for one sequence (first line sets the phase).
    Returns None or (index of the offending op, why)."""
    phase = None
    for i, (op, out) in enumerate(zip(seq, outs)):
        f = op.split()
        if f[0] in ("phase", "bphase"):
            if out != "ok":
                return i, f"could not build phase: {out}"
            phase = f[1]
            continue
        g = out.split()
        if not g:
            return i, "no answer (the process died)"
        o = g[0]
        if o in ("hang", "wedged") or "hang" in out or "held" in out:
            return i, f"the call did not return within the watchdog, or a lock stayed held / a probe no longer answers: {out}"
        if o.startswith("bad-op"):
            return i, f"harness rejected the op: {out}"
        if o.startswith("panic:"):
            if f[1] == "grpc" or f[0] == "http":
                return i, "a panic escaped on the network path"
            if is_wire(op) and not endpoint_recovers(op):
                return i, f"a wire-reachable request panics in {o[6:]} on an endpoint without recovery interceptor: the process would die"
        elif not (o in ("ok", "err", "contained") or o.startswith("stream:")):
            return i, f"unexpected outcome {o}"
        # still serves: the probes answer as a healthy node in this phase does
        pr = dict(x.split("=") for x in g[1:] if "=" in x and not x.startswith("#"))
        for k, v in pr.items():
            if v.startswith("panic:"):
                return i, (f"after the request, the probe '{k}' (a well-formed request of a healthy peer/operator) panics in {v[6:]}"
                           + ("; DKGStatus is served by the control listener, which has no recovery interceptor: the process would die" if k == "st" else ""))
        if f[0] in ("packet", "bcast", "status"):
            want_st = "err" if phase in ("closed", "closedx") else "ok"
            if pr.get("lock") != "free" or pr.get("st") not in (want_st, "-") or pr.get("pk") not in ("err", "-") or pr.get("bc") not in ("err", "-"):
                return i, f"after the request the node no longer answers the probes as before: {out}"
        else:
            want_ci = "err" if phase == "nodkg" else "ok"
            want_pb = "ok" if phase == "running" else "err"
            if pr.get("bplock") != "free" or pr.get("hlock") != "free" or pr.get("ci") not in (want_ci, "-") or pr.get("pb") not in (want_pb, "-"):
                return i, f"after the request the node no longer answers the probes as before: {out}"
    return None


def contained_pairs(all_ops_outs):
    """every wire-reachable request that panics in-process on a peer endpoint must come back as `contained` (or an error)
    through the real listener — cross-check between layers on the implementation's own answers"""
    panics, grpc = {}, {}
    for phase, op, out in all_ops_outs:
        f = op.split()
        if len(f) < 3:
            continue
        key = (phase, f[0], tuple(f[2:]))
        o = out.split()[0] if out.split() else ""
        if f[1] == "grpc":
            grpc[key] = o
        elif f[1] == "daemon" and o.startswith("panic:") and is_wire(op):
            panics[key] = (op, o)
    bad = []
    for k, (op, o) in panics.items():
        if k in grpc and grpc[k] != "contained":
            bad.append((op, o, grpc[k]))
    return bad, len([k for k in panics if k in grpc])


# ------------------------------------------------------------------------------------------------ running

def run_impl(lines, seed, timeout=900, confirm=None):
    """confirm: seconds a call that missed the 5 s watchdog is given before it is declared hung (default 15)"""
    env = dict(os.environ, GOMEMLIMIT="6GiB", GOMAXPROCS="4")
    args = ["dispatch", str(seed)] + ([str(confirm)] if confirm is not None else [])
    import subprocess
    try:
        rc, out, err = core.run_lines(H(), args, lines, timeout, env)
    except subprocess.TimeoutExpired as e:
        so = e.stdout or b""
        so = so.decode() if isinstance(so, bytes) else so
        return -9, so.splitlines(), f"harness did not finish within {timeout} s"
    return rc, out, err


def run_model(lines):
    d = os.path.join(core.LEAN, ".lake", "build", "bin", "vdriver")
    rc, out, err = core.run_lines(d, ["dispatch"], lines, 600)
    if rc != 0:
        raise core.Broken("model:dispatch", f"exit {rc}: {err[-800:]}")
    return out


def strip(o):
    return o.split(" #")[0]


def shrink(seq, idx, seed):
    """smallest prefix-subsequence that still violates: first try [phase, op] alone, then drop ops greedily"""
    head, op = seq[0], seq[idx]
    def fails(s):
        rc, o, e = run_impl(s, seed, 300)
        o = [strip(x) for x in o]
        if rc != 0 or len(o) < len(s):
            return True
        return oracle(s, o) is not None
    if fails([head, op]):
        return [head, op]
    cur = seq[: idx + 1]
    changed = True
    while changed and len(cur) > 2:
        changed = False
        step = max(1, (len(cur) - 2) // 2)
        while step >= 1 and not changed:
            j = 1
            while j < len(cur) - 1:
                cand = cur[:j] + cur[j + step:] if j + step < len(cur) else cur[:j] + cur[-1:]
                if len(cand) >= 2 and cand[-1] == op and fails(cand):
                    cur = cand
                    changed = True
                else:
                    j += step
            step //= 2
    return cur


def explore_tier(ctx, res, tier):
    res.cov["explanation"] = ("PARTIAL: the lock discipline and the listener facts are proved on relations regenerated from the source; the request-level theorems are about a "
                              "hand-derived model whose agreement with the real handlers is sampled on a finite request lattice (sequential requests, one DKG world); Go-level panics or blocking "
                              "the model does not predict would only be found by that run. Two genuine defects are known findings (see known_findings.json).")
    rng = ctx["rng"]
    seed = ctx["seed"]
    seqs = []        # (tag, [lines])
    corpus = []
    for fpath in sorted(glob.glob(os.path.join(core.VERIF, "corpus", ID, "*.json"))):
        c = json.load(open(fpath))
        corpus.append((os.path.basename(fpath), c))
    for ph in PHASES:
        seqs.append(("dkg-lattice:" + ph, dkg_lattice(rng.fork("dkg" + ph), tier, ph)))
        if tier == "thorough":   # a second pass: other junk bytes, another order (histories differ)
            seqs.append(("dkg-lattice2:" + ph, dkg_lattice(rng.fork("dkg2" + ph), tier, ph)))
    for k, s in enumerate(dkg_histories(rng.fork("hist"), tier)):
        seqs.append((f"dkg-history:{k}", s))
    for ph in BPHASES:
        seqs.append(("beacon-lattice:" + ph, beacon_lattice(rng.fork("b" + ph), tier, ph)))

    dist = {"ops_by_kind": {}, "outcomes": {}, "layers": {}, "phases": {}, "panic_sites": {}}
    total = 0
    nontriv = set()
    validated = 0
    samples = []
    triples = []
    violated = False

    # ---- corpus first: known-finding witnesses and the pre-fix witness (witnesses known to hang get a short confirmation window)
    from concurrent.futures import ThreadPoolExecutor
    core.scratch()
    with ThreadPoolExecutor(max_workers=4) as pool:
        cruns = list(pool.map(lambda nc: run_impl(nc[1]["ops"], seed, 300, 2 if nc[1].get("signature") else None), corpus))
    for (name, c), (rc, outs, err) in zip(corpus, cruns):
        ops = c["ops"]
        plain = [o for o in ops if not o.startswith("tarpit")]
        outs = [strip(o) for o in outs]
        total += len(ops)
        sig = c.get("signature")
        if rc != 0 or len(outs) < len(ops):
            res.add_violation({"engine": "dispatch", "kind": "impl-violates", "ops": ops[: len(outs) + 1], "observed": outs,
                               "oracle": f"the harness process died on corpus witness {name}: {err[-400:]}"})
            violated = True
            continue
        if c.get("kind") == "tarpit":
            # Protocol.Status with k unresponsive CheckConn entries
            g = dict(x.split("=") for x in outs[-1].split()[1:])
            k = int(ops[-1].split()[2])
            bad = int(g.get("secs", "0")) >= 3 * k - 1 and g.get("during") == "rheld" and g.get("partial-behind-writer") == "hang"
            if bad:
                res.report(sig, {"engine": "dispatch", "kind": "impl-violates", "ops": ops, "observed": outs,
                                 "oracle": f"one Status request held BeaconProcess.state read-locked for {g.get('secs')} s ({k} request-chosen addresses × 3 s health timeout, no cap, no dedupe); with a writer queued, PartialBeacon did not get through"})
            dist["tarpit"] = outs[-1]
            continue
        why = oracle(ops, outs)
        if why is not None:
            i, msg = why
            rep = {"engine": "dispatch", "kind": "impl-violates", "ops": ops[: i + 1], "observed": outs[: i + 1], "oracle": msg, "corpus": name}
            if sig and i == len(ops) - 1:
                # the known finding is this witness failing at its last op (the overflowing bundle), nothing earlier
                res.report(sig, rep)
            else:
                res.add_violation(rep)
                violated = True
        if ctx["model_ok"] and plain == ops:
            mo = run_model(ops)
            if mo != outs:
                j = core.first_diff(outs, mo)
                res.add_violation({"engine": "dispatch", "kind": "model-impl-diverge", "ops": ops[: j + 1], "observed": outs[j:j + 1], "expected": mo[j:j + 1],
                                   "note": f"corpus {name}: model (as-is variant) and implementation disagree"}, found=False)
            else:
                validated += 1

    if violated:
        # a corpus witness already fails: that is the replay; no need to spend the exploration budget
        res.cov["evaluations"] = total
        res.cov["rule"] = "stopped after a failing corpus witness"
        res.cov["samples"] = [{"corpus": name, "ops": c["ops"]} for name, c in corpus[:2]]
        res.cov["distribution"] = dist
        return
    # ---- generated sequences: the implementation runs are independent processes, run them side by side
    with ThreadPoolExecutor(max_workers=min(8, os.cpu_count() or 4)) as pool:
        runs = list(pool.map(lambda ts: run_impl(ts[1], seed), seqs))
    for (tag, seq), (rc, outs, err) in zip(seqs, runs):
        outs = [strip(o) for o in outs]
        total += len(seq)
        phase = seq[0].split()[1]
        dist["phases"][seq[0]] = dist["phases"].get(seq[0], 0) + len(seq) - 1
        if rc != 0 or len(outs) < len(seq):
            k = len(outs)
            res.add_violation({"engine": "dispatch", "kind": "impl-violates", "ops": shrink(seq, min(k, len(seq) - 1), seed),
                               "observed": outs[-3:], "oracle": f"the harness process died while serving op {seq[min(k, len(seq) - 1)]!r}: an uncontained panic or fatal error ({err[-300:]})"})
            violated = True
            break
        moved = False   # has a valid proposal / execute packet moved the node out of the sequence's initial phase
        for op, out in zip(seq, outs):
            f = op.split()
            if f[0] == "packet" and f[7] in ("prop.valid", "exec.valid") and f[6] == "tpl" and out.startswith("ok"):
                moved = True
            dist["ops_by_kind"][f[0]] = dist["ops_by_kind"].get(f[0], 0) + 1
            if len(f) > 1 and f[0] not in ("phase", "bphase"):
                lay = "http" if f[0] == "http" else f[1]
                dist["layers"][lay] = dist["layers"].get(lay, 0) + 1
                o = out.split()[0] if out.split() else "none"
                cls = o.split(":")[0]
                dist["outcomes"][cls] = dist["outcomes"].get(cls, 0) + 1
                if cls == "panic":
                    dist["panic_sites"][o[6:]] = dist["panic_sites"].get(o[6:], 0) + 1
                if cls != "err":
                    nontriv.add((seq[0], op))
                if not moved:
                    triples.append((phase, op, out))
        why = oracle(seq, outs)
        if why is not None:
            i, msg = why
            small = shrink(seq, i, seed)
            rc2, o2, _ = run_impl(small, seed, 300)
            res.add_violation({"engine": "dispatch", "kind": "impl-violates", "ops": small, "observed": [strip(x) for x in o2], "oracle": msg, "from": tag})
            violated = True
            break
        if ctx["model_ok"]:
            mo = run_model(seq)
            if mo != outs:
                j = core.first_diff(outs, mo)
                res.add_violation({"engine": "dispatch", "kind": "model-impl-diverge", "ops": [seq[0], seq[j]] if j else seq[:1],
                                   "full_prefix_len": j + 1, "observed": outs[j:j + 1], "expected": mo[j:j + 1], "from": tag,
                                   "note": "correspondence 'dispatch' no longer checks; the direct oracle (returns in time, no uncontained panic on the network path, locks free, probes answer) accepts the implementation's answers on this sequence"},
                                  found=False)
                break
            validated += 1
        if len(samples) < 6:
            k = rng.below(max(1, len(seq) - 1)) + 1 if len(seq) > 1 else 0
            samples.append({"phase": seq[0], "op": seq[k], "impl": outs[k]})

    if not violated:
        bad, npairs = contained_pairs(triples)
        dist["wire_panics_checked_contained_over_grpc"] = npairs
        for op, o, g in bad[:3]:
            res.add_violation({"engine": "dispatch", "kind": "impl-violates", "ops": [op.replace(" daemon ", " grpc ", 1)], "observed": [g],
                               "oracle": f"the request panics in-process ({o}) but over the real listener the caller did not get a recovered error ({g})"})
    res.cov["evaluations"] = total
    res.cov["distinct_nontrivial"] = len(nontriv)
    res.cov["traces_validated_against_impl"] = validated
    res.cov["rule"] = ("per DKG phase (fresh, proposed, joined, executing = entry in Executions before kickoff, complete = after a real in-process three-node DKG, "
                       "closed, closed-while-executing) × layer (dkg.Process direct, DrandDaemon proxy, production gRPC gateway on loopback): GossipPacket = {nil, no metadata, metadata} × "
                       "beacon id {absent, known, unknown, malformed} × signature {empty, 1, 3, 4 bytes, right length, 1 MiB, truncated, bit-flipped, the valid one} × every oneof variant with "
                       "{nil inner, empty, junk, valid}, DKG bundles {nil, empty, no metadata, no bundle, deal/response/justification × nil/empty/junk/nil element/oversize/validly signed/duplicate}; "
                       "BroadcastDKG and DKGStatus likewise; random histories along fresh→proposed and joined→executing; beacon side per phase (running, before DKG, stopped) × layer "
                       "(Handler / beacon.SyncChain direct, BeaconProcess, DrandDaemon, gRPC): PartialBeacon round × partial signature × previous signature classes, SyncChain, PublicRand(Stream), "
                       "ChainInfo, GetIdentity, Status × metadata {nil, id × chain hash × node version}; the public HTTP API (handler/http behind the production REST listener): chain-hash prefix {none, known, unknown, non-hex, odd length, 8 KiB} × {latest, info, health, chains, round {0, 1, last, beyond, 2^62, 2^64-1, 2^64, -1, junk}}. Every call under a 5 s watchdog with recover, followed by lock probes (TryLock) and "
                       "probe requests on the same and on other endpoints. evaluations = op lines (each 1 call + lock probes; request probes after every non-error outcome and every 4th op); non-trivial = distinct (phase, op) whose outcome is not a plain error")
    res.cov["samples"] = samples
    res.cov["distribution"] = dist


def replay(ctx, res, path):
    """./check C14 --replay f : re-run the ops of a replay file on a fresh harness and re-evaluate the oracle"""
    r = json.load(open(path))
    ops = r["ops"]
    if ops and not ops[0].startswith(("phase", "bphase")):
        ops = (["bphase running"] if ops[0].split()[0] in ("partial", "sync", "pubrand", "pubstream", "chaininfo", "identity", "pstatus", "tarpit") else ["phase fresh"]) + ops
    rc, outs, err = run_impl(ops, ctx["seed"], 600)
    outs = [strip(o) for o in outs]
    res.cov["evaluations"] = len(ops)
    res.cov["samples"] = [{"op": o, "impl": x} for o, x in zip(ops, outs)]
    res.cov["rule"] = "replay of " + path
    if rc != 0 or len(outs) < len(ops):
        res.add_violation({"engine": "dispatch", "kind": "impl-violates", "ops": ops[: len(outs) + 1], "observed": outs, "oracle": "the harness process died: " + err[-300:]})
        return
    why = oracle([o for o in ops if not o.startswith("tarpit")], [x for o, x in zip(ops, outs) if not o.startswith("tarpit")])
    if why is not None:
        i, msg = why
        rep = {"engine": "dispatch", "kind": "impl-violates", "ops": ops[: i + 1], "observed": outs[: i + 1], "oracle": msg}
        if r.get("signature"):
            res.report(r["signature"], rep)
        else:
            res.add_violation(rep)


def hangup_scripts(rng, tier):
    """a remote party hanging up (RemoveCallback) or reconnecting (AddCallback of the same id) while a Put is parked in the
    middle of its dispatch loop behind a stalled consumer: the store must not panic ("send on closed channel" would kill
    the aggregator / sync goroutine, i.e. the process) and must go on storing afterwards"""
    S = []
    for k in range(3 if tier == "quick" else 20):
        r = rng.fork(f"hangup{k}")
        nb = r.range(4, 8)
        ops = ["init", "add A gate"] + [f"add B{i} fast" for i in range(nb)]
        ops = r.shuffle(ops[1:])
        ops = ["init"] + ops + ["put"] * 102
        who = r.shuffle([f"B{i}" for i in range(nb)])
        ops += [(f"remove {w}" if r.chance(2, 3) else f"add {w} fast") for w in who]
        ops += ["release A 400", "wait", "wait", "put", "put", "last"]
        S.append(ops)
    return S


def explore_hangup(ctx, res, tier):
    H = os.path.join(core.BUILD, "verifh")
    n = bad = 0
    for ops in hangup_scripts(ctx["rng"].fork("hangup"), tier):
        rc, outs, err = core.run_lines(H, ["cbstore"], ops, timeout=300, env=dict(os.environ, VERIF_WATCHDOG_MS="300", GOMEMLIMIT="6GiB"))
        n += len(ops)
        why = None
        if rc != 0 or len(outs) < len(ops):
            why = f"the harness process died after op {len(outs)}: {err[-300:]}"
        else:
            for i, (o, a) in enumerate(zip(ops, outs)):
                if "panic" in a:
                    why = f"op {i} `{o}` answered `{a[:120]}`: a Put that was parked behind a stalled consumer panicked after another consumer hung up"
                    break
            if why is None and not (outs[-1].isdigit() and int(outs[-1]) >= 104):
                why = f"after the hang-ups the store did not go on storing: last = {outs[-1]}, the two Puts answered {outs[-3]}, {outs[-2]}"
        if why:
            bad += 1
            res.add_violation({"engine": "cbstore", "kind": "impl-violates", "ops": ops, "observed": outs[-12:], "oracle": why})
    res.cov.setdefault("distribution", {})["hangup_during_parked_put"] = {"scripts_ops": n, "violations": bad}
    res.cov["evaluations"] = res.cov.get("evaluations", 0) + n


def explore(ctx, res):
    """when a proof / tie / build step broke (ctx['deep']) search with the quick budget first and escalate to the thorough
    one only if that found no failing input"""
    if ctx.get("replay"):
        c = json.load(open(ctx["replay"]))
        if c.get("engine") == "httpw":
            s = httpw.Script(c["ops"], {"kind": "replay"})
            httpw.run_impl([s], workers=1, timeout=300)
            res.cov.update(evaluations=len(s.ops), rule="replay of " + ctx["replay"], samples=[{"ops": s.ops, "impl": s.impl}])
            hit = httpw.oracle_c14(s)
            if hit:
                i, code, why, sig = hit
                res.report(sig, {"engine": "httpw", "kind": "impl-violates", "ops": s.ops[: i + 1], "observed": s.impl[: i + 1], "oracle": why})
            return
        return replay(ctx, res, ctx["replay"])
    # the HTTP waiter / watch logic first (seconds)
    if httpw.explore_http(ctx, res, ID) and ctx["deep"]:
        return
    hw = res.cov.get("http_waiters", {})
    tiers = ["quick", "thorough"] if ctx["deep"] and ctx["tier"] == "quick" else ["thorough" if ctx["deep"] else ctx["tier"]]
    for t in tiers:
        explore_tier(ctx, res, t)
        explore_hangup(ctx, res, t)
        res.cov["http_waiters"] = hw
        for k in ("evaluations", "distinct_nontrivial", "traces_validated_against_impl"):
            res.cov[k] = res.cov.get(k, 0) + hw.get(k, 0)
        if any(found for _, found in res.violations):
            return
