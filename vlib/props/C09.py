"""C09 — DKG control messages are accepted only from the member they claim to be from."""
from .. import core, dkggen
from . import C08

ID = "C09"
MODULE = "DrandProofs.C09Layout"
THEOREMS = ["Drand.DKG." + t for t in [
    "c09_signed_by_listed", "c09_role", "c09_execute_needs_leader", "c09_unlisted_key_rejected", "c09_terms_covered", "c09_seed_and_keys_not_covered",
    "c09_substitution_counterexample", "c09_member_uses_group_keys_corrected",
    "tie_verify_first_match", "tie_terms_from_state", "tie_signing_writes", "c09_first_match", "c09_joiner_cannot_shadow_member", "c09_impostor_rejected",
    "c09_every_term_and_boundary_covered",
    "tie_sig_length_variant", "c09_signed_bytes_injective_partial", "c09_layout_boundary_counterexample", "c09_fixed_enforces_sig_lengths",
    "c09_signed_bytes_bind_terms_fixed"]]
TRUSTED = C08.TRUSTED + ["IdealSig: a BLS identity signature verifies under key k on message m iff it was made with k on m (the harness signs every packet itself with a real key over a message it chooses, and tells the model which)",
                         "the harness signs every packet the way an honest node does: over messageForSigning(…, termsFromState(state holding the signed terms)) (export shim VerifTermsAsSigned)",
                         "byte level (Drand/DKG/Layout.lean): strings are 7-bit text, uint32 fields are 4 little-endian bytes, times are the 15 bytes of Go's "
                         "time.MarshalBinary for whole-second UTC times; kyber's point lengths per scheme (schemeSigLen) are a table the driver compares with every "
                         "well-formed signature the harness makes",
                         "go2lean facts (Gen.DKGAuth): verifyMessage's lookup (lists, first match), the writes of messageForSigning, termsFromState's field map, "
                         "validateEpoch's chain, whether proposal validation pins signature lengths — tied by tie_* theorems"]
ASSUMPTIONS = C08.ASSUMPTIONS

COVERED = ["epoch", "thr", "timeout", "catchup", "period", "scheme", "genesis"]


def same_pair(i, j):
    """participants i and j carry the same (address, self-signature)? clones share the address only"""
    return int(i) == int(j)


def oracle_history(mops, replies, now):
    cur = fin = None
    for op, rep in zip(mops, replies):
        f = op.split()
        if f[0] in ("now", "P", "reset"):
            if f[0] == "reset":
                cur = fin = None
            continue
        cls, ncur, nfin = dkggen.parse_reply(rep)
        if cls.startswith("err:panic"):
            return (f"{op}: the process panicked", "panic")
        if f[0] == "pkt" and ncur != cur and ncur is not None:
            sent, mb, sender, sigid, keyidx, sb, spkt, sterms = f[1:9]
            kind = sent.split("/")[0]
            st = C08.parse_T(sterms)
            listed = [x for x in ncur["R"] + ncur["J"] if C08.addr_of(x) == C08.addr_of(sender)]
            # 1. signed by the participant it names as sender
            if not listed:
                return (f"{op}: accepted from a sender that is not a participant of the stored terms", "sender-not-listed")
            if int(keyidx) != int(listed[0]):
                return (f"{op}: accepted although signed with the key of participant {keyidx}, not the listed sender {listed[0]}", "wrong-key-accepted")
            # 2. entitled to the action
            if kind in ("proposal", "execute", "abort"):
                if ncur["leader"] == "nil" or C08.addr_of(ncur["leader"]) != C08.addr_of(sender):
                    return (f"{op}: {kind} accepted from a non-leader", "role")
            else:
                subject = sent.split("/")[1]
                if C08.addr_of(subject) != C08.addr_of(sender) or subject not in ncur["R"]:
                    return (f"{op}: {kind} accepted for {subject} from {sender}", "role")
            # 3. the signature covers the terms being applied
            if mb != sb:
                return (f"{op}: accepted with a signature made for beacon id {sb}", "terms-not-covered")
            if spkt.split("/")[0] != kind or (kind in ("accept", "reject") and C08.addr_of(spkt.split("/")[1]) != C08.addr_of(sent.split("/")[1])):
                return (f"{op}: accepted with a signature made on another packet {spkt[:40]}", "terms-not-covered")
            for k in COVERED:
                if st[k] != ncur[{"thr": "thr"}.get(k, k)]:
                    return (f"{op}: accepted although the signature covers {k}={st[k]} and the stored terms have {ncur[k]}", "terms-not-covered")
            for lk, sk in (("J", "J"), ("R", "R"), ("V", "V")):
                a = [C08.addr_of(x) for x in st[sk]]
                b = [C08.addr_of(x) for x in ncur[lk]]
                if a != b:
                    if any(int(x) in dkggen.EMBED for x in ncur["R"] + ncur["J"] + ncur["V"]):
                        return (f"{op}: accepted although the signed {lk} list {st[sk]} differs from the stored {ncur[lk]}: the boundary between two "
                                "participant lists sits inside a participant's signature field, the signed BYTES are the same",
                                "signature-does-not-cover:list-boundary-inside-signature-field")
                    return (f"{op}: accepted although the signed {lk} list {st[sk]} differs from the stored {ncur[lk]}", "terms-not-covered")
            # fields the statement asks for but the signed message leaves out
            if st["seed"] != ncur["seed"]:
                return (f"{op}: genesis seed {ncur['seed']} applied, the signature was made over seed {st['seed']}", "signature-does-not-cover:genesis-seed")
            for lk in ("J", "R", "V"):
                if [int(x) for x in st[lk]] != [int(x) for x in ncur[lk]] and any(int(x) in dkggen.EMBED for x in ncur[lk]):
                    return (f"{op}: {lk} applied {ncur[lk]}, signed {st[lk]}: a participant whose signature field holds more than a signature",
                            "signature-does-not-cover:list-boundary-inside-signature-field")
                if [int(x) for x in st[lk]] != [int(x) for x in ncur[lk]]:
                    return (f"{op}: participant keys of {lk} applied {ncur[lk]} differ from the signed ones {st[lk]}", "signature-does-not-cover:participant-keys")
            # 4. a member authenticates against the keys of its current group
            base = C08.base_of(cur, fin)
            if base["state"] == "Complete" and base.get("fg", "nil") != "nil":
                group = [int(x) for x in base["R"] + base["J"]]
                rec = [g for g in group if C08.addr_of(g) == C08.addr_of(sender)]
                if rec and int(listed[0]) != rec[0]:
                    return (f"{op}: a member accepted a packet verified under key {listed[0]} supplied in the packet; its group records key {rec[0]} for that address",
                            "member-accepts-substituted-key")
        cur, fin = ncur, nfin
    return None


def explore(ctx, res):
    C08.explore(ctx, res, oracle=oracle_history, prop="C09")
    res.cov["rule"] += " — C09 oracle: every state-changing packet is checked for signer = listed sender, entitlement, coverage of the applied terms, and key source"
