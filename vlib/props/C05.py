"""C05 — liveness: a threshold of connected honest nodes produces every due round (PARTIAL: fair-round abstraction).

Proved (Lean, DrandProofs/C05.lean): progress, levelling, catch-up bound, no-skip, rejoin and below-threshold
safety in the message-level model Drand/Net/Protocol.lean, whose guards are regenerated from the Go source.
Sampled (this module): real beacon.Handlers in one process under scripted faults; oracle P5 evaluated directly on
the logged heads and chains; the logged head vectors are validated against the model by the Lean driver.
Real timers, goroutine scheduling, the 2-period sync-restart rule and gRPC are exercised, not proved.
"""
import json, os, subprocess, concurrent.futures
from .. import core, netreshare

ID = "C05"
MODULE = "DrandProofs.C05"
THEOREMS = ["Drand.Net." + t for t in [
    "c05_step_progress", "c05_level", "c05_catchup", "c05_no_skip", "c05_no_skip_store", "c05_rejoin", "c05_rejoin_needed",
    "c05_below_threshold_no_progress", "c05_heads_monotone", "c05_heads_monotone_run", "c05_quiet_of_heads", "tie_net_rules"]] + \
    ["Drand.Net.Reshare." + t for t in ['tie_broadcast_recipients', 'tie_aggregator_threshold_in_loop', 'tie_transition_skip', 'c07_registration_any_time', 'c07_registration_partial', 'c07_late_registration_counterexample', 'c07_reshare_step_progress', 'c07_transition_round_produced']] + \
    ["Drand.Net." + t for t in ["tie_scheme_put_order", "c05_failed_put_retry", "c05_last_first_counterexample"]] + \
    ["Drand.Net.Reshare." + t for t in ['sane_run', 'sane_init', 'c07_quiet_of_reachable', 'c07_told_is_punctual', 'c07_quiet_counterexample', 'c07_quiet_of_healthy',
                                        'c07_level', 'c07_fair_tick', 'c07_fair_round', 'c07_catch_progress', 'c07_chain_continues', 'c07_round_produced',
                                        'c07_no_skip', 'c07_heads_monotone',
                                        'c07_quiet_of_reachable_repaired', 'replace_apply', 'c07_quiet_of_sound', 'c07_fair_tick_repaired', 'c07_chain_continues_repaired', 'cx_sound']]
TRUSTED = ["Lean 4 kernel; axioms per theorem under coverage.axioms",
           "go2lean netrules extractor: the round arithmetic and guards of broadcastNextPartial, Handler.run, Catchup, ProcessPartialBeacon, "
           "runAggregator, tryAppend, shouldSync, SyncManager.Run/tryNode are regenerated into Gen.NetRules and USED by the model; "
           "call orders (flush before tryAppend, Sleep(CatchupPeriod) before the catch-up broadcast, RunSync on gap / on Catchup) are checked by the extractor",
           "fair-round abstraction: timing, goroutine scheduling, channel capacities (catchupBeacons 1, newPartials 10, newReq 3), the 2-period sync-restart rule "
           "and gRPC are NOT proved; they are exercised by the real runs of engine 'net' only",
           "ideal cryptography in the model (honest partials verify, Recover succeeds on >= thr distinct valid partials); the real runs use real BLS",
           "harness engine 'net': real beacon.Handler/SyncManager/chainStore/ticker over an in-memory net.ProtocolClient with clockwork fake clocks advanced "
           "in lock-step; bounded polling waits; a failing script is retried twice and only a violation that reproduces every time is reported"]
ASSUMPTIONS = ["fair round: in every sub-round every running node's timer event happens once, syncs pull, every message between connected running nodes "
               "is delivered, syncs pull again (partial synchrony after heal); clocks advance in lock-step",
               "the healthy set U is closed (every running node with a link to or from a member is a member), pairwise connected, |U| >= thr",
               "c05_step_progress / c05_rejoin assume Quiet: no partial for a round above head+1 is in flight towards or cached by U; "
               "c05_quiet_of_heads proves it for every state reachable from the initial state in which no node is ahead of U",
               "c05_catchup starts from a levelled state (all heads of U equal, nothing in flight, no catch-up goroutine asleep) whose partial caches are empty or hold "
               "only partials of the stalled round without any member being one own partial short of the threshold (otherwise that member aggregates at its own tick, "
               "the others may sync from it instead of aggregating, and the chain restarts only at the next tick: the model shows this schedule, the bound then holds "
               "with one extra period)"]

SCHEMES_QUICK = ["pedersen-bls-chained", "bls-unchained-g1-rfc9380"]
SCHEMES_ALL = ["pedersen-bls-chained", "pedersen-bls-unchained", "bls-unchained-on-g1", "bls-unchained-g1-rfc9380", "bls-bn254-unchained-on-g1"]
K = 4          # sub-steps (CatchupPeriods) per period
SLACK = 2 * K + 1  # settle budget of the trace validation, in sub-steps (two periods: a sync that beats the aggregator costs one, see DESIGN C05)


# ---------------------------------------------------------------- scripts

def steps(n):
    return ["step"] * n


def script_normal(n, t):
    return steps(6 * K)


def script_stop_many(n, t):
    """stop n-t+1 nodes for 3 rounds (fewer than t stay up), restart them, heal"""
    down = list(range(n - (n - t + 1), n))
    return steps(2 * K) + [f"stop {i}" for i in down] + steps(3 * K + 1) + [f"restart {i}" for i in down] + steps(4 * K)


def script_partition(n, t):
    """partition into {t-1 nodes} | {rest} for 6 rounds (more than the partial-cache window, so that only the sync
    launched by the tick's gap test can bring the minority back), then heal"""
    g = [1 if i < t - 1 else 0 for i in range(n)]
    return steps(2 * K) + ["part " + " ".join(map(str, g))] + steps(6 * K) + ["part " + " ".join(["0"] * n)] + steps(7 * K)


def script_one_down(n, t):
    """one node down for 4 rounds, then Catchup"""
    return steps(2 * K) + [f"stop {n - 1}"] + steps(4 * K + 2) + [f"restart {n - 1}"] + steps(5 * K)


QUICK_SCRIPTS = [("normal", script_normal), ("stop-many", script_stop_many), ("partition", script_partition), ("one-down", script_one_down)]


def script_random(rng, n, t):
    """random fault prefix (stops, restarts, partitions, cut and slow links) followed by a healed tail"""
    ops = steps(K + rng.below(K))
    up = [True] * n
    for _ in range(rng.range(3, 7)):
        c = rng.below(100)
        if c < 30:
            cand = [i for i in range(n) if up[i]]
            if len(cand) > 1:
                i = rng.choice(cand); up[i] = False; ops.append(f"stop {i}")
        elif c < 50:
            cand = [i for i in range(n) if not up[i]]
            if cand:
                i = rng.choice(cand); up[i] = True; ops.append(f"restart {i}")
        elif c < 70:
            g = [rng.below(2) for _ in range(n)]
            ops.append("part " + " ".join(map(str, g)))
        elif c < 80:
            ops.append("part " + " ".join(["0"] * n))
        elif c < 92:
            i, j = rng.below(n), rng.below(n)
            if i != j:
                ops.append(f"link {i} {j} {rng.choice(['cut', 'slow', 'ok'])}")
        ops += steps(rng.range(1, 3 * K))
    # heal: everything reconnected, every node restarted, then run long enough to catch up
    ops.append("part " + " ".join(["0"] * n))
    for i in range(n):
        for j in range(n):
            if i != j:
                pass
    ops += [f"link {i} {j} ok" for i in range(n) for j in range(n) if i != j and any(o.startswith(f"link {i} {j} ") for o in ops)]
    ops += [f"restart {i}" for i in range(n) if not up[i]]
    behind = sum(1 for o in ops if o == "step") // K + 2
    ops += steps(K * (behind // (K - 1) + 3))
    return ops


# ---------------------------------------------------------------- running

def parse_snap(line):
    d = {}
    for tok in line.split():
        if "=" in tok:
            k, v = tok.split("=", 1)
            d[k] = v
    if "h" not in d:
        return None
    return {"r": int(d["r"]), "h": [int(x) for x in d["h"].split(",")], "up": [x == "1" for x in d["up"].split(",")],
            "g": [int(x) for x in d["g"].split(",")], "lk": d.get("lk", "-"), "ms": int(d.get("ms", 0)), "to": d.get("to", "0") == "1"}


def model_lines(n, t, ops, obs=None):
    lines = [f"init {n} {t} {K} {SLACK}"]
    for idx, op in enumerate(ops):
        if obs is not None:
            s = obs[idx + 1]
            lines.append(f"{op} o={','.join(map(str, s['h']))} r={s['r']}")
        else:
            lines.append(op)
    if obs is not None:
        s = obs[-1]
        lines.append(f"end o={','.join(map(str, s['h']))} r={s['r']}")
    return lines


def run_model(lines):
    d = os.path.join(core.LEAN, ".lake", "build", "bin", "vdriver")
    rc, out, err = core.run_lines(d, ["net"], lines, timeout=300)
    if rc != 0:
        raise core.Broken("model:net", f"exit {rc}: {err[-800:]}")
    res = []
    for l in out:
        d_ = dict(tok.split("=", 1) for tok in l.split() if "=" in tok)
        res.append({"m": [int(x) for x in d_["m"].split(",")] if "m" in d_ else None, "v": d_.get("v", l), "x": d_.get("x", "-"), "raw": l})
    return res


def run_impl(n, t, scheme, backend, ops, hints, maxwait, quiet):
    h = os.path.join(core.BUILD, "verifh")
    lines = [f"init {n} {t} {scheme} {K} {backend}"]
    for idx, op in enumerate(ops):
        if hints is not None and (op.startswith("step") or op.startswith("restart")):
            lines.append(f"{op} e={','.join(map(str, hints[idx + 1]))}")
        else:
            lines.append(op)
    lines.append("dump")
    env = dict(os.environ, GOMEMLIMIT="4GiB")
    try:
        rc, out, err = core.run_lines(h, ["net", str(maxwait), str(quiet)], lines, timeout=120 + len(lines) * (maxwait + 1000) // 1000, env=env)
    except subprocess.TimeoutExpired as e:
        got = (e.stdout or b"").decode() if isinstance(e.stdout, bytes) else (e.stdout or "")
        done = [l for l in got.splitlines() if l.strip()]
        snaps = [parse_snap(l) for l in done]
        return [s_ for s_ in snaps if s_], "dump", ["HANG after %d of %d ops (last op: %s)" % (len(done), len(lines), lines[min(len(done), len(lines) - 1)])]
    if rc != 0 or len(out) != len(lines):
        raise core.Broken("harness:net", f"exit {rc}, {len(out)}/{len(lines)} lines: {err[-800:]} {out[-2:]}")
    snaps = [parse_snap(l) for l in out[:-1]]
    bad = [l for l, s in zip(out[:-1], snaps) if s is None]
    return snaps, out[-1], bad


# ---------------------------------------------------------------- oracle P5 (python, on the implementation's log only)

def components(s, n, cuts):
    """connected components of up nodes under the logged partition groups and cut links that are pairwise linked"""
    comp, seen = [], set()
    def linked(i, j):
        return s["g"][i] == s["g"][j] and (i, j) not in cuts and (j, i) not in cuts
    for i in range(n):
        if i in seen or not s["up"][i]:
            continue
        c, todo = set(), [i]
        while todo:
            a = todo.pop()
            if a in c:
                continue
            c.add(a)
            todo += [b for b in range(n) if s["up"][b] and b not in c and linked(a, b)]
        seen |= c
        # "can reach each other": only a pairwise linked set is a healthy set (a chain a–b–c with a and c cut is not)
        if all(linked(a, b) for a in c for b in c if a != b):
            comp.append(frozenset(c))
    return comp


def parse_cuts(s):
    cuts = set()
    if s["lk"] != "-":
        for t in s["lk"].split(","):
            a, rest = t.split(">")
            b, st = rest.split(":")
            if st == "1":
                cuts.add((int(a), int(b)))
    return cuts


def round_at(nsteps):
    """clock round after nsteps sub-steps (genesis = first sub-step)"""
    return 0 if nsteps == 0 else (nsteps - 1) // K + 1


def oracle_p5(n, t, ops, snaps, dump):
    """returns (rule, message) of the first violated clause, or None"""
    # (i) chains: gap-free, valid, linked, and equal on common rounds
    chains = {}
    for part in dump.split()[1:]:
        if part.startswith("ch0="):
            continue      # (chain hash of the first group: judged by vlib/netreshare.py)
        f = part.split(":")
        if len(f) < 7 or f[1].startswith("err"):
            return ("P5.i", f"dump of {f[0]} failed: {part[:120]}")
        kv = dict(x.split("=", 1) for x in f[1:])
        if kv["gapfree"] != "true" or kv["valid"] != "true" or kv["linked"] != "true":
            return ("P5.i", f"{f[0]}: gapfree={kv['gapfree']} valid={kv['valid']} linked={kv['linked']}")
        chains[f[0]] = kv["sigs"].split(".")
    names = sorted(chains)
    for a in names:
        for b in names:
            m = min(len(chains[a]), len(chains[b]))
            if chains[a][:m] != chains[b][:m]:
                r = next(i for i in range(m) if chains[a][i] != chains[b][i])
                return ("P5.i", f"{a} and {b} disagree on round {r}")
    final = snaps[-1]
    for i in range(n):
        if len(chains[f"n{i}"]) - 1 != final["h"][i]:
            return ("P5.i", f"n{i}: stored chain ends at {len(chains[f'n{i}']) - 1} but the logged head is {final['h'][i]}")
    # walk the log
    stable_since = {}      # component -> index of the snapshot since which it is unchanged and healthy
    heal_deadline = {}     # component -> (snapshot index by which it must be at the current round)
    up_union, last_max = set(i for i in range(n) if snaps[0]["up"][i]), max(snaps[0]["h"])
    step_no = 0
    for idx in range(1, len(snaps)):
        prev, cur, op = snaps[idx - 1], snaps[idx], ops[idx - 1]
        if op.startswith("step"):
            step_no += 1
        # monotone, down nodes frozen, nothing above the clock round
        for i in range(n):
            if cur["h"][i] < prev["h"][i]:
                return ("P5.i", f"op {idx} ({op}): node {i} head went back {prev['h'][i]} -> {cur['h'][i]}")
            if not prev["up"][i] and not cur["up"][i] and cur["h"][i] != prev["h"][i]:
                return ("P5.iv", f"op {idx} ({op}): stopped node {i} moved {prev['h'][i]} -> {cur['h'][i]}")
            if cur["h"][i] > cur["r"]:
                return ("P5.i", f"op {idx} ({op}): node {i} stores round {cur['h'][i]} above the clock round {cur['r']}")
        # (iv) fewer than t distinct nodes up since the chain last grew => it does not grow
        up_union |= set(i for i in range(n) if cur["up"][i] or prev["up"][i])
        if max(cur["h"]) > last_max:
            if len(up_union) < t:
                return ("P5.iv", f"op {idx} ({op}): new beacon {max(cur['h'])} although only nodes {sorted(up_union)} (< {t}) were up since round {last_max}")
            last_max = max(cur["h"])
            up_union = set(i for i in range(n) if cur["up"][i])
        # healthy components
        cuts = parse_cuts(cur)
        comps = [c for c in components(cur, n, cuts) if len(c) >= t]
        for c in list(stable_since):
            if c not in comps:
                del stable_since[c]
                heal_deadline.pop(c, None)
        for c in comps:
            if c not in stable_since:
                stable_since[c] = idx
                # (iii) catch-up bound: rounds behind * CatchupPeriod + one fair round to level + settle budget
                hmin = min(cur["h"][i] for i in c)
                s, budget = 0, 2 * K
                while s < 100000:
                    s += 1
                    if hmin + max(0, s - budget) >= round_at(step_no + s):
                        break
                heal_deadline[c] = (idx, s)
        if op.startswith("step"):
            for c in comps:
                since, need = heal_deadline[c]
                nsteps = sum(1 for o in ops[since:idx] if o.startswith("step"))
                if nsteps >= need:
                    # (iii) reached the current round within the bound, and (ii) keeps producing every due round
                    end_of_period = step_no % K == 0
                    for i in c:
                        if cur["h"][i] < cur["r"] - 1 or (end_of_period and cur["h"][i] < cur["r"]):
                            rule = "P5.iii" if nsteps < need + 2 * K else "P5.ii"
                            return (rule, f"op {idx} ({op}): node {i} of the healthy set {sorted(c)} has head {cur['h'][i]} at clock round {cur['r']}, "
                                          f"{nsteps} sub-steps after the set became healthy (bound {need})")
    return None


# ---------------------------------------------------------------- one case

def run_case(case, maxwait, quiet):
    """returns dict(ok, why, rule, snaps, model, attempts…) for one (config, script)"""
    n, t, scheme, backend, name, ops = case["n"], case["t"], case["scheme"], case["backend"], case["name"], case["ops"]
    out = {"case": {k: case[k] for k in ("n", "t", "scheme", "backend", "name")}, "ops": ops}
    hints = None
    if case.get("model_ok", True):
        pred = run_model(model_lines(n, t, ops))
        hints = [p["m"] for p in pred]
        selfbad = [p["raw"] for p in pred if p["v"].startswith("bad")]
        if selfbad:
            out.update(ok=False, rule="M", why="model transition outside its own envelope: " + selfbad[0], snaps=[], model=[])
            return out
    snaps, dump, bad = run_impl(n, t, scheme, backend, ops, hints, maxwait, quiet)
    out["snaps"] = snaps
    out["dump"] = dump
    if bad:
        out.update(ok=False, rule="hang" if bad[0].startswith("HANG") else "harness", why="the implementation run did not complete: " + bad[0][:200], model=[])
        return out
    viol = oracle_p5(n, t, ops, snaps, dump)
    out["model"] = []
    if case.get("model_ok", True):
        val = run_model(model_lines(n, t, ops, snaps))
        out["model"] = val
        out["exact"] = sum(1 for v in val[1:] if v["x"] == "1")
        out["validated"] = all(v["v"] in ("ok", "-") for v in val)
        if viol is None and not out["validated"]:
            b = next(v for v in val if v["v"].startswith("bad"))
            i = val.index(b)
            viol = ("trace:" + b["v"].split(":")[1], f"line {i} ({(['init'] + ops + ['end'])[i]}): logged heads are not a behaviour of the model within the settle budget: {b['raw']}")
    if viol:
        out.update(ok=False, rule=viol[0], why=viol[1])
    else:
        out.update(ok=True, rule="", why="")
    return out


def run_with_retries(case, maxwait, quiet, retries=2):
    attempts = []
    for a in range(retries + 1):
        r = run_case(case, maxwait * (1 + a), quiet * (1 + a))
        attempts.append(r)
        if r["ok"]:
            break
    last = attempts[-1]
    last["attempts"] = len(attempts)
    last["failed_attempts"] = [{"rule": x["rule"], "why": x["why"]} for x in attempts if not x["ok"]]
    last["reproducible"] = all(not x["ok"] for x in attempts)
    return last


def configs(tier, rng):
    if tier == "quick":
        cs = [(4, 3, SCHEMES_QUICK[0], "bolt"), (3, 2, SCHEMES_QUICK[1], "bolt")]
        cases = [dict(n=n, t=t, scheme=s, backend=b, name=nm, ops=fn(n, t)) for (n, t, s, b) in cs for nm, fn in QUICK_SCRIPTS]
        r = rng.fork("quick-random")
        cases.append(dict(n=4, t=3, scheme=SCHEMES_QUICK[1], backend="mem", name="random-0", ops=script_random(r, 4, 3)))
        return cases
    cases = []
    shapes = [(3, 2), (4, 3), (5, 3), (5, 4), (7, 4), (7, 5)]
    for idx, (n, t) in enumerate(shapes):
        s = SCHEMES_ALL[idx % len(SCHEMES_ALL)]
        for nm, fn in QUICK_SCRIPTS:
            cases.append(dict(n=n, t=t, scheme=s, backend="bolt" if idx % 2 == 0 else "mem", name=nm, ops=fn(n, t)))
    for j in range(90):
        r = rng.fork(f"rand{j}")
        n, t = r.choice(shapes)
        cases.append(dict(n=n, t=t, scheme=r.choice(SCHEMES_ALL), backend=r.choice(["bolt", "mem"]), name=f"random-{j}", ops=script_random(r, n, t)))
    return cases


def run_cases(cases, tier):
    maxwait, quiet = (6000, 60) if tier == "quick" else (8000, 80)
    workers = 4 if tier == "quick" else 6
    with concurrent.futures.ThreadPoolExecutor(max_workers=workers) as ex:
        futs = [ex.submit(run_with_retries, c, maxwait, quiet) for c in cases]
        return [f.result() for f in futs]


def explore(ctx, res):
    rng = ctx["rng"]
    corpus = []
    cdir = os.path.join(core.VERIF, "corpus", "C05")
    if os.path.isdir(cdir):
        for f in sorted(os.listdir(cdir)):
            if f.endswith(".json"):
                c = json.load(open(os.path.join(cdir, f)))
                c["name"] = "corpus:" + f
                corpus.append(c)
    early = None
    if ctx.get("replay") and "init" in json.load(open(ctx["replay"])):
        # a resharing / index-gap / store-fault script of engine `net` (vlib/netreshare.py)
        cov, _ = netreshare.replay_part(ctx, res, json.load(open(ctx["replay"])))
        res.cov.update(evaluations=sum(cov["ops"].values()), rule="replay of one reshare script", distribution={"reshare": cov})
        return
    if ctx.get("replay"):
        rp = json.load(open(ctx["replay"]))
        plan = [("quick", [dict(rp["case"], ops=rp["ops"])])]
    elif ctx["deep"]:
        # something upstream broke (proof, translator, build): look for a concrete failing input, cheapest scripts first
        # (the resharing / index-gap / store-fault scripts are few and aimed: they go first)
        early = netreshare.explore_part(ID, ctx, res)
        plan = [("quick", corpus + configs("quick", rng))]
        if not any(f for _, f in res.violations):
            plan.append(("thorough", configs("thorough", rng)))
    else:
        plan = [(ctx["tier"], corpus + configs(ctx["tier"], rng))]
    results = []
    for tier, cases in plan:
        for c in cases:
            c["model_ok"] = ctx["model_ok"]
        results += run_cases(cases, tier)
        if any((not r["ok"]) and r["reproducible"] for r in results):
            break
    total_ops = total_attempts = validated = exact = lines = 0
    nontriv, dist, samples = set(), {}, []
    failing = []
    for r in results:
        total_attempts += r["attempts"]
        total_ops += (len(r["ops"]) + 2) * r["attempts"]
        snaps = r.get("snaps") or []
        incs = sum(1 for a, b in zip(snaps, snaps[1:]) if a and b and b["h"] != a["h"])
        if incs >= 3:
            nontriv.add((json.dumps(r["case"], sort_keys=True), tuple(r["ops"])))
        for o in r["ops"]:
            k = o.split()[0]
            dist[k] = dist.get(k, 0) + 1
        if r.get("validated"):
            validated += 1
        exact += r.get("exact", 0)
        lines += len(r["ops"]) + 1 if r.get("model") else 0
        if not r["ok"] and r["reproducible"]:
            failing.append(r)
    # report the shortest witness of every distinct signature (at most 4 replays)
    failing.sort(key=lambda r: len(r["ops"]))
    # the cases above ran side by side; a failure counts only if it also fails when it runs alone with four times the
    # settle budget (the oracle's bounds are in protocol steps, the budget only covers goroutine scheduling on a busy host)
    confirmed, flakes = [], 0
    for r in failing:
        if len(confirmed) >= 6:
            break
        mw, q = (6000, 60) if ctx["tier"] == "quick" and not ctx["deep"] else (8000, 80)
        again = run_case(dict(r["case"], ops=r["ops"], model_ok=ctx["model_ok"]), mw * 4, q * 4)
        if again["ok"]:
            flakes += 1
            continue
        again["attempts"] = r["attempts"] + 1
        again["failed_attempts"] = r["failed_attempts"] + [{"rule": again["rule"], "why": again["why"]}]
        again["case"] = r["case"]
        again["ops"] = r["ops"]
        confirmed.append(again)
    res.cov["not_confirmed_when_run_alone"] = flakes
    failing = confirmed
    seen = set()
    for r in failing:
        snaps = r.get("snaps") or []
        obs = [f"r={s['r']} h={s['h']} up={[int(u) for u in s['up']]} g={s['g']}" for s in snaps if s]
        nm = r["case"]["name"]
        sig = f"net:n{r['case']['n']}t{r['case']['t']}:{'random' if nm.startswith('random') else nm}:{r['rule']}"
        if sig in seen or len(seen) >= 4:
            continue
        seen.add(sig)
        res.report(sig, {"engine": "net", "kind": "impl-violates" if r["rule"].startswith("P5") else "model-impl-diverge",
                         "case": r["case"], "ops": r["ops"], "observed": obs,
                         "expected": [m["raw"] for m in r.get("model", [])], "oracle": f"{r['rule']}: {r['why']}",
                         "attempts": r["attempts"], "all_attempts": r["failed_attempts"],
                         "other_failing_cases": len(failing) - 1}, found=True)
    for r in results[:3]:
        snaps = r.get("snaps") or []
        samples.append({"case": r["case"], "ops": r["ops"][:14], "heads": [s["h"] for s in snaps[:15] if s],
                        "model": [m["m"] for m in (r.get("model") or [])[:15]]})
    res.cov.update(evaluations=total_ops, distinct_nontrivial=len(nontriv), traces_validated_against_impl=validated, samples=samples)
    res.cov["rule"] = ("each case = one (n, thr, scheme, store) network of real handlers driven through a fault script "
                       "(normal ticking; stop n-t+1 nodes for 3 rounds then restart; partition {t-1}|{rest} then heal; one node down 4 rounds then Catchup; "
                       "seeded random scripts of stops/restarts/partitions/cut and slow links with a healed tail); evaluations = ops executed on the implementation "
                       "(all attempts); non-trivial = distinct (network, script) whose logged head vector changed in at least 3 ops")
    res.cov["distribution"] = {"ops": dist, "cases": len(results), "sub_steps_per_period": K, "settle_budget_sub_steps": SLACK,
                               "networks": sorted(set(f"n{r['case']['n']}t{r['case']['t']}:{r['case']['scheme']}:{r['case']['backend']}" for r in results))}
    nonrepro = sum(len(r["failed_attempts"]) for r in results if not r["reproducible"])
    res.cov["flake"] = {"attempts": total_attempts, "failed_attempts_that_did_not_reproduce": nonrepro,
                        "rate": round(nonrepro / max(1, total_attempts), 4),
                        "details": [{"case": r["case"], "failed": r["failed_attempts"]} for r in results if r["failed_attempts"] and not r["reproducible"]][:10]}
    res.cov["model_exact_match"] = {"logged_lines": lines, "lines_where_heads_equal_model": exact}
    # liveness ACROSS A RESHARING, with index gaps and with a failing store (engine `net`, second part)
    if not ctx.get("replay"):
        rcov, rres = early if early is not None else netreshare.explore_part(ID, ctx, res)
        res.cov["evaluations"] += sum(rcov["ops"].values())
        res.cov["distinct_nontrivial"] += sum(1 for r in rres if r.get("res"))
        res.cov["traces_validated_against_impl"] += rcov["validated_against_model"]
        res.cov["distribution"]["reshare"] = rcov
        res.cov["rule"] += ("; plus resharing / index-gap / store-fault scripts (vlib/netreshare.py): fewer remainers than the old threshold with joiners needed and leavers "
                            "stopped by StopAt, a first group with a hole in its share indices, one failing or cancelled base-store Put with exactly a threshold up and "
                            "with a node to spare (chained and unchained); thorough: every family on every scheme plus random resharings. Liveness rule = C05's, with the "
                            "membership and threshold of the group in force at each round")
